# sourced by every script in /verif
export PATH=/opt/veriftools/go1.26.8/bin:$PATH
export GOTOOLCHAIN=local GOFLAGS=-mod=mod GOPROXY=off GOSUMDB=off
unset GOWORK
