package props

import (
	"go/constant"
	"go/token"
	"strings"

	"golang.org/x/tools/go/ssa"

	. "verif/checker/engine"
)

const unusedPkg = Module + "/unused"

func init() {
	Register(&Property{
		ID:       "C10",
		Patterns: []string{"./lintcmd/...", "./unused", "./analysis/lint", "./analysis/report"},
		NeedSSA:  true,
		Explanation: "Decides the guard structure of ignore handling: a line ignore matches only under equality of file and line and a successful case-folded glob match, a file ignore only under file equality and glob match, and Matched is recorded only there (R10.1); " +
			"a directive without a reason never becomes an ignore, in the linter and in U1000's own ignore handling, and is reported with error severity in the compile category (R10.2); a problem is marked ignored only on the true edge of match, and the 'did not match anything' problem is produced only for an unmatched line ignore that names an enabled check and never for U1000 (R10.3); " +
			"directive positions and problem positions are produced by the same position function from the package's file set (R10.4); U1000 decides whether a directive names it with the same case-folded glob predicate the linter uses (R10.5). " +
			"It does NOT decide which node a comment is attached to (ast.CommentMap) or the glob semantics of filepath.Match." +
			" Also decided: directives are recognised by looking at every comment of a comment group (never a fixed position of the group), and filterIgnored tests every directive against every problem." +
			" Whether a useless directive is reported is decided with glob matching against the enabled checks, and U1000 neither decides nor reports (independent of its position in the list).",
		RuleText:    "obligation = (rule, function::construct); guard-edge (must-pass-through-edge) and value-origin queries on the SSA CFG",
		Assumptions: []string{"path/filepath.Match implements the documented glob syntax", "ast.NewCommentMap attaches a directive to the node on the following line"},
		Run:         runC10,
		Mutants: []Mutant{
			{Name: "directives-only-at-the-start-of-a-group", File: "analysis/lint/lint.go", Rule: "R10.6", KeyPart: "ParseDirectives::looks-at-every-comment-of-a-group",
				Old: "\t\tcm := ast.NewCommentMap(fset, f, f.Comments)\n", New: "\t\tany := false\n\t\tfor _, cg := range f.Comments {\n\t\t\tif strings.HasPrefix(cg.List[0].Text, \"//lint:\") {\n\t\t\t\tany = true\n\t\t\t}\n\t\t}\n\t\tif !any {\n\t\t\tcontinue\n\t\t}\n\t\tcm := ast.NewCommentMap(fset, f, f.Comments)\n"},
			{Name: "already-ignored-problems-not-matched-again", File: "lintcmd/lint.go", Rule: "R10.6", KeyPart: "filterIgnored::every-directive-tested-against-every-problem",
				Old: "\t\t\tdiag := &diagnostics[i]\n\t\t\tif ig.match(*diag) {", New: "\t\t\tdiag := &diagnostics[i]\n\t\t\tif diag.Severity == severityIgnored {\n\t\t\t\tcontinue\n\t\t\t}\n\t\t\tif ig.match(*diag) {"},
			{Name: "line-ignore-any-line", File: "lintcmd/lint.go", Rule: "R10.1", KeyPart: "lineIgnore).match",
				Old: "\tif pos.Filename != li.File || pos.Line != li.Line {\n\t\treturn false\n\t}", New: "\tif pos.Filename != li.File {\n\t\treturn false\n\t}"},
			{Name: "line-ignore-adjacent-line", File: "lintcmd/lint.go", Rule: "R10.1", KeyPart: "lineIgnore).match",
				Old: "\tif pos.Filename != li.File || pos.Line != li.Line {\n\t\treturn false\n\t}", New: "\tif pos.Filename != li.File || (pos.Line != li.Line && pos.Line != li.Line+1) {\n\t\treturn false\n\t}"},
			{Name: "file-ignore-any-file", File: "lintcmd/lint.go", Rule: "R10.1", KeyPart: "fileIgnore).match",
				Old: "\tif p.Position.Filename != fi.File {\n\t\treturn false\n\t}\n", New: ""},
			{Name: "file-ignore-matches-everything", File: "lintcmd/lint.go", Rule: "R10.1", KeyPart: "fileIgnore).match",
				Old: "\tfor _, c := range fi.Checks {\n\t\tif m, _ := filepath.Match(c.String(), makeCaseFoldedString(p.Category).String()); m {\n\t\t\treturn true\n\t\t}\n\t}\n\treturn false\n}",
				New: "\tfor _, c := range fi.Checks {\n\t\tif m, _ := filepath.Match(c.String(), makeCaseFoldedString(p.Category).String()); m {\n\t\t\treturn true\n\t\t}\n\t}\n\treturn len(fi.Checks) > 3\n}"},
			{Name: "reasonless-directive-ignores", File: "lintcmd/directives.go", Rule: "R10.2", KeyPart: "parseDirectives",
				Old: "\t\t\t\tdiagnostics = append(diagnostics, p)\n\t\t\t\tcontinue\n", New: "\t\t\t\tdiagnostics = append(diagnostics, p)\n"},
			{Name: "reasonless-directive-is-warning", File: "lintcmd/directives.go", Rule: "R10.2", KeyPart: "error-severity",
				Old: "\t\t\t\t\tSeverity: severityError,\n", New: "\t\t\t\t\tSeverity: severityWarning,\n"},
			{Name: "u1000-reasonless-ignores", File: "unused/unused.go", Rule: "R10.2", KeyPart: "graph).entry",
				Old: "\t\tif len(dir.Arguments) < 2 {", New: "\t\tif len(dir.Arguments) < 1 {"},
			{Name: "ignored-when-not-matching", File: "lintcmd/lint.go", Rule: "R10.3", KeyPart: "ignored-only-if-matched",
				Old: "\t\t\tif ig.match(*diag) {\n\t\t\t\tdiag.Severity = severityIgnored\n\t\t\t}\n", New: "\t\t\tif ig.match(*diag) || diag.Category == \"ST1000\" {\n\t\t\t\tdiag.Severity = severityIgnored\n\t\t\t}\n"},
			{Name: "unmatched-reported-even-if-matched", File: "lintcmd/lint.go", Rule: "R10.3", KeyPart: "unmatched-directive",
				Old: "\t\tif ig, ok := ig.(*lineIgnore); ok && !ig.Matched && couldHaveMatched(ig) {", New: "\t\tif ig, ok := ig.(*lineIgnore); ok && couldHaveMatched(ig) {"},
			{Name: "u1000-decides-for-the-whole-directive", File: "lintcmd/lint.go", Rule: "R10.3", KeyPart: "u1000-never-flagged",
				Old: "\t\t\t\t// wherever in the list U1000 stands.\n\t\t\t\tcontinue\n", New: "\t\t\t\t// wherever in the list U1000 stands.\n\t\t\t\treturn false\n"},
			{Name: "useless-glob-directives-never-reported", File: "lintcmd/lint.go", Rule: "R10.3", KeyPart: "names-are-globs",
				Old: "\t\t\t\tif m, _ := filepath.Match(c.String(), name.String()); m {\n\t\t\t\t\treturn true\n\t\t\t\t}\n", New: "\t\t\t\tif c == name {\n\t\t\t\t\treturn true\n\t\t\t\t}\n"},
			{Name: "disabled-checks-flagged", File: "lintcmd/lint.go", Rule: "R10.3", KeyPart: "only-enabled-checks",
				Old: "\t\t\t\tif !enabled || name.String() == \"u1000\" {\n\t\t\t\t\tcontinue\n\t\t\t\t}\n", New: "\t\t\t\tif name.String() == \"u1000\" {\n\t\t\t\t\tcontinue\n\t\t\t\t}\n\t\t\t\t_ = enabled\n"},
			{Name: "directive-position-raw", File: "lintcmd/runner/runner.go", Rule: "R10.4", KeyPart: "NodePosition",
				Old: "\t\tNodePosition:      report.DisplayPosition(fset, dir.Node.Pos()),\n", New: "\t\tNodePosition:      fset.PositionFor(dir.Node.Pos(), false),\n"},
			{Name: "u1000-exact-name", File: "unused/unused.go", Rule: "R10.5", KeyPart: "u1000-name-predicate",
				Old: "\t\t\tm, _ := filepath.Match(strings.ToLower(check), \"u1000\")\n\t\t\treturn m\n", New: "\t\t\treturn check == \"U1000\"\n",
				More: []Edit{{File: "unused/unused.go", Old: "\t\"io\"\n\t\"path/filepath\"\n", New: "\t\"io\"\n"}}},
			{Name: "u1000-case-sensitive-glob", File: "unused/unused.go", Rule: "R10.5", KeyPart: "u1000-name-predicate",
				Old: "\t\t\tm, _ := filepath.Match(strings.ToLower(check), \"u1000\")\n", New: "\t\t\tm, _ := filepath.Match(check, \"U1000\")\n"},
		},
	})
}

func constStringVal(v ssa.Value) (string, bool) {
	k, ok := v.(*ssa.Const)
	if !ok || k.Value == nil || k.Value.Kind() != constant.String {
		return "", false
	}
	return constant.StringVal(k.Value), true
}

func isBoolConst(v ssa.Value, want bool) bool {
	k, ok := v.(*ssa.Const)
	if !ok || k.Value == nil || k.Value.Kind() != constant.Bool {
		return false
	}
	return constant.BoolVal(k.Value) == want
}

// globEdges returns the true-edges of conditions that are the boolean result
// of path/filepath.Match whose pattern derives from pat and whose name
// derives from name.
func globEdges(fn *ssa.Function, pat, name func(ssa.Value) bool) map[Edge]bool {
	return CondEdges(fn, func(cond ssa.Value) (bool, bool) {
		e, ok := cond.(*ssa.Extract)
		if !ok || e.Index != 0 {
			return false, false
		}
		call, ok := e.Tuple.(*ssa.Call)
		if !ok || !IsCallTo(call, "path/filepath.Match") {
			return false, false
		}
		return Derives(call.Call.Args[0], pat) && Derives(call.Call.Args[1], name), true
	})
}

func runC10(c *Ctx) {
	c.Rule("R10.1", func() {
		c.Floor("R10.1", 6)
		for _, tn := range []string{"lineIgnore", "fileIgnore"} {
			fn := c.Func("lintcmd", "(*"+tn+").match")
			// the places where the result can be true: a return of a non-false value, or the predecessor
			// that feeds a non-false value into a returned result variable
			type site struct {
				v  ssa.Value
				at ssa.Instruction
			}
			var rets []site
			var expand func(v ssa.Value, at ssa.Instruction, depth int)
			expand = func(v ssa.Value, at ssa.Instruction, depth int) {
				if phi, ok := v.(*ssa.Phi); ok && depth < 3 {
					for i, e := range phi.Edges {
						pred := phi.Block().Preds[i]
						expand(e, pred.Instrs[len(pred.Instrs)-1], depth+1)
					}
					return
				}
				if !isBoolConst(v, false) {
					rets = append(rets, site{v, at})
				}
			}
			for _, r := range Returns(fn) {
				expand(ReturnOperand(r, 0), r, 0)
			}
			if len(rets) == 0 {
				c.Undecided("%s has no return that can be true", fn)
			}
			fileEq := EqEdges(fn, func(x, y ssa.Value) bool {
				return DerivesLocal(x, IsFieldOf("token.Position", "Filename")) && DerivesLocal(y, IsFieldOf(tn, "File"))
			})
			lineEq := EqEdges(fn, func(x, y ssa.Value) bool {
				return DerivesLocal(x, IsFieldOf("token.Position", "Line")) && DerivesLocal(y, IsFieldOf(tn, "Line")) && isPlainLoad(x) && isPlainLoad(y)
			})
			glob := globEdges(fn, IsFieldOf(tn, "Checks"), func(v ssa.Value) bool {
				// the case-folded category of the problem
				call, ok := v.(*ssa.Call)
				return ok && IsCallTo(call, lintcmdPkg+".makeCaseFoldedString") && Derives(call.Call.Args[0], IsFieldOf("runner.Diagnostic", "Category"))
			})
			for i, rs := range rets {
				r := rs.at
				sfx := "#" + itoa(i)
				ok, p := MustPassEdges(fn, r, fileEq)
				c.Check(FuncKey(fn)+"::true-requires-same-file"+sfx, r.Pos(), ok && len(fileEq) > 0, "a match requires the problem's file name to equal the directive's; path: %s", PathString(fn, p))
				if tn == "lineIgnore" {
					ok, p = MustPassEdges(fn, r, lineEq)
					c.Check(FuncKey(fn)+"::true-requires-same-line"+sfx, r.Pos(), ok && len(lineEq) > 0, "a line ignore matches only problems on exactly the directive's line; path: %s", PathString(fn, p))
				}
				ok, p = MustPassEdges(fn, r, glob)
				c.Check(FuncKey(fn)+"::true-requires-glob-match"+sfx, r.Pos(), ok && len(glob) > 0, "a match requires filepath.Match(check pattern, case-folded category) to succeed; path: %s", PathString(fn, p))
				c.Check(FuncKey(fn)+"::returns-constant-true"+sfx, r.Pos(), isBoolConst(rs.v, true), "match returns true only as a constant on the matching path (no computed result that could be true elsewhere)")
			}
			if tn == "lineIgnore" {
				Instrs(fn, false, func(in ssa.Instruction) {
					st, ok := in.(*ssa.Store)
					if !ok || !IsFieldOf("lineIgnore", "Matched")(st.Addr) {
						return
					}
					ok2, p := MustPassEdges(fn, st, glob)
					c.Check(FuncKey(fn)+"::Matched-only-on-match", st.Pos(), ok2, "Matched is set only when the directive matched a problem; path: %s", PathString(fn, p))
				})
			}
		}
	})

	c.Rule("R10.2", func() {
		c.Floor("R10.2", 4)
		pd := c.Func("lintcmd", "parseDirectives")
		hasReason := IntCmpConstEdges(pd, func(v ssa.Value) bool {
			call, ok := v.(*ssa.Call)
			return ok && IsCallTo(call, "builtin.len") && Derives(call.Call.Args[0], IsFieldOf("SerializedDirective", "Arguments"))
		}, true, func(lo, hi int64) bool { return lo >= 2 })
		if len(hasReason) == 0 {
			c.Undecided("parseDirectives no longer tests len(args) < 2")
		}
		// appends to the ignores list
		n := 0
		Instrs(pd, false, func(in ssa.Instruction) {
			call, ok := in.(*ssa.Call)
			if !ok || !IsCallTo(call, "builtin.append") {
				return
			}
			if !strings.Contains(call.Type().String(), "lintcmd.ignore") {
				return
			}
			n++
			ok2, p := MustPassEdges(pd, call, hasReason)
			c.Check(FuncKey(pd)+"::ignore-requires-reason", call.Pos(), ok2, "a directive becomes an ignore only on the len(args) >= 2 edge (check list AND reason); path: %s", PathString(pd, p))
		})
		if n == 0 {
			c.Undecided("parseDirectives no longer appends to its ignores list")
		}
		// the diagnostic for a reasonless directive
		noReason := IntCmpConstEdges(pd, func(v ssa.Value) bool {
			call, ok := v.(*ssa.Call)
			return ok && IsCallTo(call, "builtin.len") && Derives(call.Call.Args[0], IsFieldOf("SerializedDirective", "Arguments"))
		}, true, func(lo, hi int64) bool { return hi <= 1 })
		sevErr := constIntOf(c, "lintcmd", "severityError")
		foundSev, foundCat := false, false
		Instrs(pd, false, func(in ssa.Instruction) {
			st, ok := in.(*ssa.Store)
			if !ok {
				return
			}
			if ok2, _ := MustPassEdges(pd, st, noReason); !ok2 {
				return
			}
			if IsFieldOf("lintcmd.diagnostic", "Severity")(st.Addr) {
				if k, ok := ConstInt(st.Val); ok && k == sevErr {
					foundSev = true
				}
			}
			if IsFieldOf("runner.Diagnostic", "Category")(st.Addr) {
				if s, ok := constStringVal(st.Val); ok && s == "compile" {
					foundCat = true
				}
			}
		})
		c.Check(FuncKey(pd)+"::reasonless-directive::error-severity", pd.Pos(), foundSev, "a directive without a reason is reported with error severity")
		c.Check(FuncKey(pd)+"::reasonless-directive::compile-category", pd.Pos(), foundCat, "… in the compile category, which always affects the exit status")
		// U1000's own handling
		entry := c.Func("unused", "(*graph).entry")
		uHas := IntCmpConstEdges(entry, func(v ssa.Value) bool {
			call, ok := v.(*ssa.Call)
			return ok && IsCallTo(call, "builtin.len") && Derives(call.Call.Args[0], IsFieldOf("lint.Directive", "Arguments"))
		}, true, func(lo, hi int64) bool { return lo >= 2 })
		m := 0
		Instrs(entry, false, func(in ssa.Instruction) {
			mu, ok := in.(*ssa.MapUpdate)
			if !ok || !strings.Contains(mu.Map.Type().String(), "ignoredKey") {
				return
			}
			m++
			ok2, p := MustPassEdges(entry, mu, uHas)
			c.Check(FuncKey(entry)+"::ignore-requires-reason", mu.Pos(), ok2 && len(uHas) > 0, "U1000 honours an ignore directive only if it has a reason (len(Arguments) >= 2), like every other check; path: %s", PathString(entry, p))
		})
		if m == 0 {
			c.Undecided("(*graph).entry no longer records U1000 ignores in a map keyed by ignoredKey")
		}
	})

	c.Rule("R10.3", func() {
		c.Floor("R10.3", 5)
		fi := c.Func("lintcmd", "filterIgnored")
		sevIgn := constIntOf(c, "lintcmd", "severityIgnored")
		matched := CondEdges(fi, func(cond ssa.Value) (bool, bool) {
			call, ok := cond.(*ssa.Call)
			return ok && call.Call.IsInvoke() && call.Call.Method.Name() == "match", true
		})
		n := 0
		// severityIgnored is stored only here in the whole package
		for _, fn := range c.ModuleFuncs() {
			if FuncPkgPath(fn) != lintcmdPkg {
				continue
			}
			Instrs(fn, false, func(in ssa.Instruction) {
				st, ok := in.(*ssa.Store)
				if !ok || !IsFieldOf("lintcmd.diagnostic", "Severity")(st.Addr) {
					return
				}
				k, isK := ConstInt(st.Val)
				if !isK || k != sevIgn {
					return
				}
				n++
				if fn != fi {
					c.Check(FuncKey(fn)+"::ignored-only-if-matched", st.Pos(), false, "problems are marked ignored only by filterIgnored")
					return
				}
				ok2, p := MustPassEdges(fi, st, matched)
				// the problem marked is the one that was matched
				same := false
				for e := range matched {
					for _, b := range fi.Blocks {
						if b.Index == e.Block {
							call := b.Instrs[len(b.Instrs)-1].(*ssa.If).Cond.(*ssa.Call)
							arg := call.Call.Args[0]
							if u, ok := arg.(*ssa.UnOp); ok && AddrKey(u.X) == AddrKey(st.Addr.(*ssa.FieldAddr).X) {
								same = true
							}
						}
					}
				}
				c.Check(FuncKey(fi)+"::ignored-only-if-matched", st.Pos(), ok2 && len(matched) > 0 && same, "a problem gets severity 'ignored' only on the true edge of ig.match for that very problem; path: %s", PathString(fi, p))
			})
		}
		if n == 0 {
			c.Undecided("nothing stores severityIgnored")
		}
		// the "didn't match anything" diagnostic
		isLine := CondEdges(fi, func(cond ssa.Value) (bool, bool) {
			e, ok := cond.(*ssa.Extract)
			if !ok || e.Index != 1 {
				return false, false
			}
			ta, ok := e.Tuple.(*ssa.TypeAssert)
			return ok && strings.HasSuffix(ta.AssertedType.String(), "lintcmd.lineIgnore"), true
		})
		notMatched := CondEdges(fi, func(cond ssa.Value) (bool, bool) {
			u, ok := cond.(*ssa.UnOp)
			return ok && u.Op == token.MUL && IsFieldOf("lineIgnore", "Matched")(u.X), false
		})
		// couldHaveMatched: the function (closure of filterIgnored, or a function it forwards to) that
		// special-cases u1000
		var chm *ssa.Function
		for _, f := range DeepFuncs(fi, 2) {
			if f == fi {
				continue
			}
			has := false
			Instrs(f, false, func(in ssa.Instruction) {
				if bo, ok := in.(*ssa.BinOp); ok && (bo.Op == token.EQL || bo.Op == token.NEQ) {
					if s, ok := constStringVal(bo.Y); ok && strings.EqualFold(s, "u1000") {
						has = true
					}
					if s, ok := constStringVal(bo.X); ok && strings.EqualFold(s, "u1000") {
						has = true
					}
				}
			})
			if has {
				chm = f
			}
		}
		if chm == nil {
			c.Undecided("filterIgnored: the couldHaveMatched predicate (the one that special-cases u1000) was not found")
		}
		leadsToChm := func(f *ssa.Function) bool {
			if f == chm {
				return true
			}
			for _, g := range DeepFuncs(f, 1) {
				for _, ci := range Calls(g, false) {
					if ci.Common().StaticCallee() == chm {
						return true
					}
				}
			}
			return false
		}
		could := CondEdges(fi, func(cond ssa.Value) (bool, bool) {
			call, ok := cond.(*ssa.Call)
			if !ok {
				return false, false
			}
			if callee := call.Call.StaticCallee(); callee != nil && leadsToChm(callee) {
				return true, true
			}
			for x := range BackSlice(call.Call.Value, SliceOpts{}) {
				if mc, ok := x.(*ssa.MakeClosure); ok {
					if f, _ := mc.Fn.(*ssa.Function); f != nil && leadsToChm(f) {
						return true, true
					}
				}
			}
			return false, false
		})
		found := false
		Instrs(fi, false, func(in ssa.Instruction) {
			st, ok := in.(*ssa.Store)
			if !ok || !IsFieldOf("runner.Diagnostic", "Category")(st.Addr) {
				return
			}
			if s, ok := constStringVal(st.Val); !ok || s != "staticcheck" {
				return
			}
			found = true
			for name, edges := range map[string]map[Edge]bool{"line-ignore": isLine, "not-matched": notMatched, "names-enabled-check": could} {
				ok2, p := MustPassEdges(fi, st, edges)
				c.Check(FuncKey(fi)+"::unmatched-directive::"+name, st.Pos(), ok2 && len(edges) > 0, "the 'directive didn't match anything' problem is produced only for a line ignore that matched nothing and could have matched (%s); path: %s", name, PathString(fi, p))
			}
		})
		if !found {
			c.Undecided("filterIgnored no longer produces the unmatched-directive problem")
		}
		// couldHaveMatched, in the property's words: a directive that suppressed nothing is reported "unless it only
		// names disabled checks or U1000". So (a) the result is true only for a name that denotes an enabled check,
		// (b) names are globs here as everywhere else (a directive that names its checks as SA4* is as useless as one
		// that spells them out), (c) U1000 never makes the result true, and (d) U1000 does not decide for the other
		// names either: the answer must not depend on where in the list U1000 stands.
		u1000 := EqEdges(chm, func(x, y ssa.Value) bool {
			s, ok := constStringVal(y)
			// the test on one of the directive's own names
			return ok && strings.EqualFold(s, "u1000") && Derives(x, IsFieldOf("lintcmd.lineIgnore", "Checks"))
		})
		isAllowMap := func(v ssa.Value) bool {
			return Derives(v, func(x ssa.Value) bool {
				switch x.(type) {
				case *ssa.FreeVar, *ssa.Parameter:
					return strings.Contains(x.Type().String(), "map[") && strings.HasSuffix(x.Type().String(), "]bool")
				}
				return false
			})
		}
		enabled := CondEdgesPhi(chm, func(cond ssa.Value) (bool, bool) {
			switch x := cond.(type) {
			case *ssa.Lookup:
				return !x.CommaOk && isAllowMap(x.X), true
			case *ssa.Extract:
				// for name, on := range allowedAnalyzers
				if nx, ok := x.Tuple.(*ssa.Next); ok && x.Index == 2 {
					if rg, ok := nx.Iter.(*ssa.Range); ok && isAllowMap(rg.X) {
						return true, true
					}
				}
			}
			return false, false
		})
		globbed := CallTrueEdges(chm, func(call *ssa.Call) bool { return CalleeName(&call.Call) == "path/filepath.Match" })
		for _, ex := range []bool{true} {
			_ = ex
			// filepath.Match returns (bool, error): its result is extracted
			for e := range CondEdgesPhi(chm, func(cond ssa.Value) (bool, bool) {
				x, ok := cond.(*ssa.Extract)
				if !ok || x.Index != 0 {
					return false, false
				}
				call, ok := x.Tuple.(*ssa.Call)
				return ok && CalleeName(&call.Call) == "path/filepath.Match", true
			}) {
				globbed[e] = true
			}
		}
		nTrue := 0
		for i, r := range Returns(chm) {
			if isBoolConst(ReturnOperand(r, 0), false) {
				continue
			}
			nTrue++
			ok, p := MustPassEdges(chm, r, enabled)
			c.Check(FuncKey(chm)+"::only-enabled-checks#"+itoa(i), r.Pos(), ok && len(enabled) > 0 && isBoolConst(ReturnOperand(r, 0), true), "an unmatched directive is reported only if it names a check the user enabled; path: %s", PathString(chm, p))
			okG, pG := MustPassEdges(chm, r, globbed)
			c.Check(FuncKey(chm)+"::names-are-globs#"+itoa(i), r.Pos(), okG && len(globbed) > 0, "the names of a directive are globs (SA4*, SA400?): whether a useless directive names an enabled check must be decided with the same glob match that decides what it suppresses, otherwise a useless directive written with a glob is never reported; path without a glob match: %s", PathString(chm, pG))
		}
		if nTrue == 0 {
			c.Undecided("couldHaveMatched never answers true")
		}
		if len(u1000) == 0 {
			c.Check(FuncKey(chm)+"::u1000-never-flagged", chm.Pos(), false, "couldHaveMatched no longer special-cases u1000")
		}
		for e := range u1000 {
			var blk *ssa.BasicBlock
			for _, b := range chm.Blocks {
				if b.Index == e.Block {
					blk = b.Succs[e.Succ]
				}
			}
			// the current name is u1000: no answer may be given for THIS name — neither true (c) nor a final false (d);
			// the next answer is reachable only through the loop head (a φ), i.e. for another name or after the last one
			isAnswer := func(in ssa.Instruction) bool { _, ok := in.(*ssa.Return); return ok }
			passesLoopHead := func(in ssa.Instruction) bool { _, ok := in.(*ssa.Phi); return ok }
			t, path := PathAvoiding(chm, nil, isAnswer, passesLoopHead, nil)
			_ = t
			// search from the first instruction of the edge's target block
			var start ssa.Instruction = blk.Instrs[0]
			direct := isAnswer(start)
			var t2 ssa.Instruction
			if !direct {
				if passesLoopHead(start) {
					t2 = nil
				} else {
					t2, path = PathAvoiding(chm, start, isAnswer, passesLoopHead, nil)
				}
			}
			c.Check(FuncKey(chm)+"::u1000-never-flagged", start.Pos(), !direct && t2 == nil, "when a name is U1000 the answer is left to the directive's other names: returning at once (true or false) makes `U1000,SA4006` and `SA4006,U1000` behave differently; path from the U1000 test to an answer without looking at the next name: %s", PathString(chm, path))
		}
	})

	c.Rule("R10.4", func() {
		c.Floor("R10.4", 4)
		sd := c.Func("lintcmd/runner", "serializeDirective")
		check := func(fn *ssa.Function, typ, field string, src func(ssa.Value) bool, what string) {
			vals := storedToField(fn, typ, field)
			ok := len(vals) > 0
			for _, v := range vals {
				_, posV, isDisp := displayCall(v)
				if !isDisp || !Derives(posV, src) {
					ok = false
				}
			}
			c.Check(FuncKey(fn)+"::"+typ+"."+field+"-by-DisplayPosition", fn.Pos(), ok, "%s must be computed by report.DisplayPosition (//line-aware), the same function that positions problems; otherwise a directive never matches in a file with //line directives", what)
		}
		check(sd, "runner.SerializedDirective", "NodePosition", IsFieldOf("lint.Directive", "Node"), "the position of the node a directive is attached to")
		check(sd, "runner.SerializedDirective", "DirectivePosition", IsFieldOf("lint.Directive", "Directive"), "the position of the directive comment")
		ardo := c.Func("lintcmd/runner", "(*analyzerRunner).do")
		var rep *ssa.Function
		for _, an := range ardo.AnonFuncs {
			if len(storedToField(an, "runner.Diagnostic", "Position")) > 0 {
				rep = an
			}
		}
		if rep == nil {
			c.Undecided("the Report closure of (*analyzerRunner).do was not found")
		}
		check(rep, "runner.Diagnostic", "Position", IsFieldOf("analysis.Diagnostic", "Pos"), "the position of a problem")
		// same file set: both from loader.Package.Fset
		do := c.Func("lintcmd/runner", "(*subrunner).do")
		sameFset, nSer := false, 0
		for _, fn := range c.ModuleFuncs() {
			if FuncPkgPath(fn) != runnerPkg {
				continue
			}
			for _, ci := range CallsTo(fn, false, runnerPkg+".serializeDirective") {
				nSer++
				sameFset = Derives(ci.Common().Args[1], IsFieldOf("loader.Package", "Fset")) && (sameFset || nSer == 1)
			}
		}
		repFset := false
		for _, v := range storedToField(rep, "runner.Diagnostic", "Position") {
			if fsetV, _, ok := displayCall(v); ok && Derives(fsetV, IsFieldOf("loader.Package", "Fset")) {
				repFset = true
			}
		}
		c.Check(FuncKey(do)+"::directives-and-problems-share-the-file-set", do.Pos(), sameFset && repFset, "directives and problems are positioned with the loaded package's own file set")
		// parseDirectives keys ignores by NodePosition
		pd := c.Func("lintcmd", "parseDirectives")
		byNode := false
		for _, f := range DeepFuncs(pd, 2) {
			for _, v := range storedToField(f, "lintcmd.lineIgnore", "Line") {
				if Derives(v, IsFieldOf("SerializedDirective", "NodePosition")) {
					byNode = true
				}
			}
		}
		c.Check(FuncKey(pd)+"::line-from-NodePosition", pd.Pos(), byNode, "a line ignore applies to the line of the node the comment is attached to")
	})

	c.Rule("R10.5", func() {
		c.Floor("R10.5", 2)
		entry := c.Func("unused", "(*graph).entry")
		// the condition that guards recording an ignore
		var updates []*ssa.MapUpdate
		Instrs(entry, false, func(in ssa.Instruction) {
			if mu, ok := in.(*ssa.MapUpdate); ok && strings.Contains(mu.Map.Type().String(), "ignoredKey") {
				updates = append(updates, mu)
			}
		})
		if len(updates) == 0 {
			c.Undecided("(*graph).entry no longer records U1000 ignores")
		}
		// a "glob predicate" value: result of filepath.Match(lower-cased check, lower-case "u1000"), directly or inside a closure handed to a helper
		isGlobMatch := func(call *ssa.Call) bool {
			if !IsCallTo(call, "path/filepath.Match") {
				return false
			}
			s, ok := constStringVal(call.Call.Args[1])
			if !ok || s != "u1000" {
				return false
			}
			return Derives(call.Call.Args[0], IsCallResult("strings.ToLower")) || Derives(call.Call.Args[0], IsCallResult(lintcmdPkg+".makeCaseFoldedString"))
		}
		fnHasGlob := func(f *ssa.Function) bool {
			found := false
			Instrs(f, false, func(in ssa.Instruction) {
				if call, ok := in.(*ssa.Call); ok && isGlobMatch(call) {
					found = true
				}
			})
			return found
		}
		guard := CondEdges(entry, func(cond ssa.Value) (bool, bool) {
			ok := Derives(cond, func(v ssa.Value) bool {
				switch v := v.(type) {
				case *ssa.Call:
					return isGlobMatch(v)
				case *ssa.MakeClosure:
					f, _ := v.Fn.(*ssa.Function)
					return f != nil && fnHasGlob(f)
				case *ssa.Function:
					return len(v.Blocks) > 0 && fnHasGlob(v)
				}
				return false
			})
			return ok, true
		})
		for _, mu := range updates {
			ok, p := MustPassEdges(entry, mu, guard)
			c.Check(FuncKey(entry)+"::u1000-name-predicate", mu.Pos(), ok && len(guard) > 0,
				"U1000 must decide 'this directive names me' with the linter's predicate — filepath.Match on case-folded names — so that //lint:ignore u1000 or U1* behaves like for every other check; path that records an ignore without it: %s", PathString(entry, p))
		}
		// both sides of U1000's line matching use the same (unadjusted) position function
		flags := map[string]bool{}
		Instrs(entry, true, func(in ssa.Instruction) {
			call, ok := in.(*ssa.Call)
			if !ok || !IsCallTo(call, "go/token.FileSet.PositionFor") {
				return
			}
			if k, ok := call.Call.Args[2].(*ssa.Const); ok && k.Value != nil {
				flags[k.Value.String()] = true
			}
		})
		c.Check(FuncKey(entry)+"::same-position-function-for-directive-and-object", entry.Pos(), len(flags) == 1, "directive node and object positions are computed with the same PositionFor mode (%v)", SortedKeys(flags))
	})

	// R10.6: a directive may be ANY line of a comment group (it is commonly
	// written right below an explanatory comment or a doc comment). Code that
	// finds directives — ParseDirectives and whatever pre-filter it uses —
	// must look at every comment of a group: reading a group's List at a fixed
	// position, or only its Text(), misses directives that are not first.
	// Separately, filterIgnored must test every directive against every
	// problem: a line directive's Matched flag, which decides whether the
	// directive itself is reported as useless, is set by that test, so
	// skipping it depending on what other directives already did makes the
	// outcome depend on the (map-iteration) order of the directives.
	c.Rule("R10.6", func() {
		c.Floor("R10.6", 2)
		pd := c.Func("analysis/lint", "ParseDirectives")
		n := 0
		bad := ""
		var badPos = pd.Pos()
		for _, f := range DeepFuncs(pd, 2) {
			if !strings.HasPrefix(FuncPkgPath(f), Module) {
				continue
			}
			Instrs(f, true, func(in ssa.Instruction) {
				ia, ok := in.(*ssa.IndexAddr)
				if !ok || !AddrFrom(ia.X, IsFieldOf("ast.CommentGroup", "List")) {
					return
				}
				n++
				if _, isConst := ConstInt(ia.Index); isConst {
					bad, badPos = "reads CommentGroup.List at a fixed index in "+f.String(), ia.Pos()
				}
			})
		}
		c.Check(FuncKey(pd)+"::looks-at-every-comment-of-a-group", badPos, n > 0 && bad == "", "directives are recognised by iterating over all comments of a group: %s", bad)

		directivePairObligations(c)
	})
}

func isPlainLoad(v ssa.Value) bool {
	u, ok := v.(*ssa.UnOp)
	return ok && u.Op == token.MUL
}

// directivePairObligations: filterIgnored tests every directive against every
// problem (shared by C10 R10.6 and C06 R6.7).
func directivePairObligations(c *Ctx) {
	fi := c.Func("lintcmd", "filterIgnored")
	var matches []ssa.Instruction
	for _, ci := range Calls(fi, false) {
		if ci.Common().IsInvoke() && ci.Common().Method.Name() == "match" {
			matches = append(matches, ci)
		}
	}
	if len(matches) == 0 {
		c.Undecided("filterIgnored no longer calls ignore.match")
	}
	// the problem under test: an element address of the diagnostics parameter
	okPairs, why := true, ""
	nElems := 0
	Instrs(fi, false, func(in ssa.Instruction) {
		ia, ok := in.(*ssa.IndexAddr)
		if !ok || !DerivesLocal(ia.X, func(v ssa.Value) bool { p, ok := v.(*ssa.Parameter); return ok && p == fi.Params[0] }) {
			return
		}
		// an access that every path reaches only after the test (the store of the verdict) is not a new pair
		for _, m := range matches {
			if InstrDominates(m, ia) && ia.Block() != m.Block() || ia.Block() == m.Block() && InstrIndex(m) < InstrIndex(ia) {
				return
			}
		}
		nElems++
		t, path := PathAvoiding(fi, ia, func(x ssa.Instruction) bool {
			if _, isRet := x.(*ssa.Return); isRet {
				return true
			}
			return x == ssa.Instruction(ia)
		}, func(x ssa.Instruction) bool {
			for _, m := range matches {
				if m == x {
					return true
				}
			}
			return false
		}, nil)
		if t != nil {
			okPairs, why = false, PathString(fi, path)
		}
	})
	c.Check(FuncKey(fi)+"::every-directive-tested-against-every-problem", fi.Pos(), okPairs && nElems > 0, "every (directive, problem) pair goes through match — its side effect (lineIgnore.Matched) decides whether the directive is reported as matching nothing, so no pair may be skipped because of what another directive did; path that skips the test: %s", why)
}
