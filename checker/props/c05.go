package props

import (
	"go/constant"
	"go/token"
	"go/types"
	"strings"

	"golang.org/x/tools/go/ssa"

	. "verif/checker/engine"
)

const cachePkg = Module + "/lintcmd/cache"

func init() {
	Register(&Property{
		ID:       "C05",
		Patterns: []string{"./lintcmd/...", "./cmd/...", "./internal/renameio"},
		NeedSSA:  true,
		Explanation: "Decides the ordering/guard discipline of the disk cache on every path (all crash points of Put at once): " +
			"index entry only after a complete data file (R5.1); every byte written to a data file is either the bounded size-1 copy or follows the hash verification (R5.2); " +
			"copyFile reports success only after a hash comparison or for size 0 (R5.2b); no truncating open of cache files (R5.3); " +
			"GetFile/GetBytes succeed only under size/checksum equality (R5.4); get succeeds only after rejecting short reads, foreign ids, parse errors and negative sizes (R5.5); " +
			"nothing outside the cache package bypasses GetFile (R5.6); a failed lookup only selects recomputation (R5.7); the writer's and the reader's layout of an index entry agree: fixed-width format, total length = entrySize, separator offsets, the byte range and order of each field (R5.8). " +
			"It does NOT decide interleavings of several processes, file-system atomicity, fsync/power loss, trim timing or GOCACHEPROG back ends." +
			" Also decided: put reports success only behind copyFile's nil-error edge (an index entry alone does not prove the data file is complete).",
		RuleText: "obligation = (rule, function::site) evaluated on the SSA CFG of /repo's current sources with must-pass-through-edge and value-origin queries; " +
			"non-trivial = the verdict needed a path or backward-slice query (not just a lookup)",
		Assumptions: []string{
			"os.OpenFile without O_TRUNC/O_APPEND does not shrink a file; (*os.File).Write extends at the current offset",
			"a reader treats a data file as complete iff its size equals the index entry's size (GetFile) — decided structurally in R5.4",
			"the process-crash model: a crash stops the writer between two instructions; no torn single write() is modelled",
		},
		Run: runC05,
		Mutants: []Mutant{
			{Name: "put-trusts-a-matching-index-entry", File: "lintcmd/cache/cache.go", Rule: "R5.1", KeyPart: "put::success-only-after-copyFile-ok",
				Old: "\t// Copy to cached output file (if not already present).\n", New: "\tif old, err := c.get(id); err == nil && old.OutputID == out && old.Size == size {\n\t\treturn out, size, nil\n\t}\n\t// Copy to cached output file (if not already present).\n"},
			{Name: "index-before-data", File: "lintcmd/cache/cache.go", Rule: "R5.1", KeyPart: "putIndexEntry",
				Old: "\tif err := c.copyFile(file, out, size); err != nil {\n\t\treturn out, size, err\n\t}\n\n\t// Add to cache index.\n\treturn out, size, c.putIndexEntry(id, out, size, allowVerify)",
				New: "\tif err := c.putIndexEntry(id, out, size, allowVerify); err != nil {\n\t\treturn out, size, err\n\t}\n\treturn out, size, c.copyFile(file, out, size)"},
			{Name: "index-ignores-copy-error", File: "lintcmd/cache/cache.go", Rule: "R5.1", KeyPart: "putIndexEntry",
				Old: "\tif err := c.copyFile(file, out, size); err != nil {\n\t\treturn out, size, err\n\t}\n",
				New: "\tc.copyFile(file, out, size)\n"},
			{Name: "full-copy-before-verify", File: "lintcmd/cache/cache.go", Rule: "R5.2", KeyPart: "io.CopyN",
				Old: "io.CopyN(w, file, size-1)", New: "io.CopyN(w, file, size)"},
			{Name: "last-byte-before-verify", File: "lintcmd/cache/cache.go", Rule: "R5.2", KeyPart: "os.File.Write",
				Old: "\tif !bytes.Equal(sum, out[:]) {\n\t\tf.Truncate(0)\n\t\treturn fmt.Errorf(\"file content changed underfoot\")\n\t}\n",
				New: "\tif !bytes.Equal(sum, out[:]) {\n\t\tfmt.Fprintln(os.Stderr, \"file content changed underfoot\")\n\t}\n"},
			{Name: "skip-hash-of-existing", File: "lintcmd/cache/cache.go", Rule: "R5.2b", KeyPart: "copyFile",
				Old: "\t\t\tif out == out2 {\n\t\t\t\treturn nil\n\t\t\t}\n",
				New: "\t\t\t_ = out2\n\t\t\treturn nil\n"},
			{Name: "always-truncate", File: "lintcmd/cache/cache.go", Rule: "R5.3", KeyPart: "copyFile",
				Old: "\tmode := os.O_RDWR | os.O_CREATE\n\tif err == nil && info.Size() > size {", New: "\tmode := os.O_RDWR | os.O_CREATE | os.O_TRUNC\n\tif err == nil && info.Size() > size {"},
			{Name: "index-truncate", File: "lintcmd/cache/cache.go", Rule: "R5.3", KeyPart: "putIndexEntry",
				Old: "\tmode := os.O_WRONLY | os.O_CREATE\n", New: "\tmode := os.O_WRONLY | os.O_CREATE | os.O_TRUNC\n"},
			{Name: "getfile-no-size-check", File: "lintcmd/cache/cache.go", Rule: "R5.4", KeyPart: "GetFile",
				Old: "\tif info.Size() != entry.Size {\n", New: "\tif info.Size() < 0 {\n"},
			{Name: "getfile-size-weaker", File: "lintcmd/cache/cache.go", Rule: "R5.4", KeyPart: "GetFile",
				Old: "\tif info.Size() != entry.Size {\n", New: "\tif info.Size() < entry.Size {\n"},
			{Name: "getbytes-no-checksum", File: "lintcmd/cache/cache.go", Rule: "R5.4", KeyPart: "GetBytes",
				Old: "\tif sha256.Sum256(data) != entry.OutputID {\n", New: "\tif len(data) == 0 && sha256.Sum256(data) != entry.OutputID {\n"},
			{Name: "get-accepts-short", File: "lintcmd/cache/cache.go", Rule: "R5.5", KeyPart: "short-read",
				Old: "\t} else if n < entrySize {\n\t\treturn missing(errors.New(\"entry file incomplete\"))\n\t}\n\tif entry[0] != 'v' || entry[1] != '1' || entry[2] != ' ' || entry[3+hexSize] != ' ' || entry[3+hexSize+1+hexSize] != ' ' || entry[3+hexSize+1+hexSize+1+20] != ' ' || entry[entrySize-1] != '\\n' {",
				New: "\t}\n\tif entry[0] != 'v' || entry[1] != '1' || entry[2] != ' ' || entry[3+hexSize] != ' ' || entry[3+hexSize+1+hexSize] != ' ' || entry[3+hexSize+1+hexSize+1+20] != ' ' {"},
			{Name: "get-ignores-id", File: "lintcmd/cache/cache.go", Rule: "R5.5", KeyPart: "id-match",
				Old: "\t} else if buf != id {\n\t\treturn missing(errors.New(\"mismatched ID\"))\n\t}\n", New: "\t}\n"},
			{Name: "get-negative-size", File: "lintcmd/cache/cache.go", Rule: "R5.5", KeyPart: "non-negative",
				Old: "\t} else if size < 0 {\n\t\treturn missing(errors.New(\"negative size\"))\n\t}\n", New: "\t}\n"},
			{Name: "entry-size-not-padded", File: "lintcmd/cache/cache.go", Rule: "R5.8", KeyPart: "putIndexEntry",
				Old: "entry := fmt.Sprintf(\"v1 %x %x %20d %20d\\n\", id, out, size, time.Now().UnixNano())", New: "entry := fmt.Sprintf(\"v1 %x %x %20d %19d\\n\", id, out, size, time.Now().UnixNano())"},
			{Name: "entry-fields-swapped", File: "lintcmd/cache/cache.go", Rule: "R5.8", KeyPart: "fields-in-reader-order",
				Old: "entry := fmt.Sprintf(\"v1 %x %x %20d %20d\\n\", id, out, size, time.Now().UnixNano())", New: "entry := fmt.Sprintf(\"v1 %x %x %20d %20d\\n\", id, out, time.Now().UnixNano(), size)"},
			{Name: "reader-shifted-size-field", File: "lintcmd/cache/cache.go", Rule: "R5.8", KeyPart: "get",
				Old: "\tesize, entry := entry[1:1+20], entry[1+20:]\n", New: "\tesize, entry := entry[0:1+20], entry[1+20:]\n"},
			{Name: "short-entry-left-to-content-checks", File: "lintcmd/cache/cache.go", Rule: "R5.9", KeyPart: "entry-not-shorter-than-entrySize",
				Old: "\t} else if n < entrySize {\n\t\treturn missing(errors.New(\"entry file incomplete\"))\n\t}\n", New: "\t}\n"},
			{Name: "long-entry-accepted", File: "lintcmd/cache/cache.go", Rule: "R5.9", KeyPart: "entry-not-longer-than-entrySize",
				Old: "\tif n, err := io.ReadFull(f, entry); n > entrySize {\n\t\treturn missing(errors.New(\"too long\"))\n\t} else if err != io.ErrUnexpectedEOF {", New: "\tif n, err := io.ReadFull(f, entry); err != nil && err != io.ErrUnexpectedEOF {"},
			{Name: "runner-bypass-getfile", File: "lintcmd/runner/runner.go", Rule: "R5.6", KeyPart: "getCachedFiles",
				Old: "\t\t*out[i], _, err = cache.GetFile(c, id)\n\t\tif err != nil {\n\t\t\treturn err\n\t\t}\n",
				New: "\t\tvar e cache.Entry\n\t\te, err = c.Get(id)\n\t\tif err != nil {\n\t\t\treturn err\n\t\t}\n\t\t*out[i] = c.OutputFile(e.OutputID)\n"},
			{Name: "partial-hit", File: "lintcmd/runner/runner.go", Rule: "R5.7", KeyPart: "getCachedFiles",
				Old: "\t\t*out[i], _, err = cache.GetFile(c, id)\n\t\tif err != nil {\n\t\t\treturn err\n\t\t}\n",
				New: "\t\t*out[i], _, err = cache.GetFile(c, id)\n\t\tif err != nil && i == 0 {\n\t\t\treturn err\n\t\t}\n"},
		},
	})
}

func constIntOf(c *Ctx, rel, name string) int64 {
	p := c.Pkg(rel)
	k, _ := p.Types.Scope().Lookup(name).(*types.Const)
	if k == nil {
		c.Undecided("anchor-missing const %s.%s", rel, name)
	}
	v, ok := constant.Int64Val(constant.ToInt(k.Val()))
	if !ok {
		c.Undecided("const %s.%s is not an integer", rel, name)
	}
	return v
}

// fileNameKind returns "a"/"d" if v derives from a call to
// (*DiskCache).fileName with that constant key.
func fileNameKind(v ssa.Value) string {
	kind := ""
	for x := range BackSlice(v, SliceOpts{}) {
		if c, ok := x.(*ssa.Call); ok && IsCallTo(c, cachePkg+".DiskCache.fileName") {
			args := c.Call.Args
			if k, ok := args[len(args)-1].(*ssa.Const); ok && k.Value != nil && k.Value.Kind() == constant.String {
				kind += constant.StringVal(k.Value)
			} else {
				kind += "?"
			}
		}
	}
	return kind
}

func isHashSum(v ssa.Value) bool {
	c, ok := v.(*ssa.Call)
	if !ok {
		return false
	}
	if c.Call.IsInvoke() && c.Call.Method.Name() == "Sum" {
		return true
	}
	return IsCallTo(c, "crypto/sha256.Sum256")
}

func runC05(c *Ctx) {
	put := c.Func("lintcmd/cache", "(*DiskCache).put")
	copyFile := c.Func("lintcmd/cache", "(*DiskCache).copyFile")
	_ = c.Func("lintcmd/cache", "(*DiskCache).putIndexEntry")
	get := c.Func("lintcmd/cache", "(*DiskCache).get")
	getFile := c.Func("lintcmd/cache", "GetFile")
	getBytes := c.Func("lintcmd/cache", "GetBytes")
	const nCopy, nIndex = cachePkg + ".DiskCache.copyFile", cachePkg + ".DiskCache.putIndexEntry"

	// R5.1 ---------------------------------------------------------------
	c.Rule("R5.1", func() {
		c.Floor("R5.1", 2)
		copies := CallsTo(put, true, nCopy)
		idx := CallsTo(put, true, nIndex)
		if len(copies) == 0 || len(idx) == 0 {
			c.Undecided("put no longer calls copyFile and putIndexEntry directly")
		}
		isCopyErr := func(v ssa.Value) bool {
			return DerivesLocal(v, func(x ssa.Value) bool {
				cc, ok := x.(*ssa.Call)
				return ok && IsCallTo(cc, nCopy)
			})
		}
		okEdges := ErrNilEdges(put, isCopyErr)
		for _, ci := range idx {
			ok, path := MustPassEdges(put, ci, okEdges)
			c.Check(FuncKey(put)+"::putIndexEntry-after-copyFile-ok", ci.Pos(), ok,
				"index entry must be written only on the nil-error edge of copyFile (data before index); path avoiding it: %s", PathString(put, path))
		}
		// Put reports success only after the data file was (re)established: every nil-error return of
		// put lies behind the nil-error edge of copyFile, which verifies or rewrites the content. The
		// caller opens OutputFile(out) of a successful Put without any further check (R5.6), and data
		// files are truncated, removed and trimmed independently of index entries — an index entry
		// alone proves nothing about the data file.
		errIdx := put.Signature.Results().Len() - 1
		for i, r := range SuccessReturns(put, errIdx) {
			ok, path := MustPassEdges(put, r, okEdges)
			c.Check(FuncKey(put)+"::success-only-after-copyFile-ok#"+itoa(i), r.Pos(), ok,
				"put must not report success without having passed copyFile's nil-error edge: a matching index entry does not prove that the data file is complete (it may have been truncated or trimmed since), and the caller reads the output file of a successful Put unverified; path: %s", PathString(put, path))
		}
		// who may write index entries / data files
		for _, fn := range c.ModuleFuncs() {
			if fn == put {
				continue
			}
			for _, ci := range CallsTo(fn, false, nIndex, nCopy) {
				c.Check(FuncKey(fn)+"::calls-"+LastField(CalleeName(ci.Common())), ci.Pos(), false,
					"only (*DiskCache).put may call copyFile/putIndexEntry; a second caller can publish an index entry without the data-first protocol")
			}
		}
		c.CheckTrivial(FuncKey(put)+"::sole-caller", put.Pos(), true, "copyFile and putIndexEntry are called only from put")
	})

	// R5.2 ---------------------------------------------------------------
	c.Rule("R5.2", func() {
		c.Floor("R5.2", 2)
		// the data file handle
		var opens []*ssa.Call
		for _, ci := range CallsTo(copyFile, false, "os.OpenFile", "os.Create") {
			if call, ok := ci.(*ssa.Call); ok && strings.Contains(fileNameKind(call.Call.Args[0]), "d") {
				opens = append(opens, call)
			}
		}
		if len(opens) == 0 {
			c.Undecided("copyFile no longer opens fileName(out, \"d\") with os.OpenFile")
		}
		fromOpen := func(v ssa.Value) bool {
			return Derives(v, func(x ssa.Value) bool {
				for _, o := range opens {
					if x == ssa.Value(o) {
						return true
					}
				}
				return false
			})
		}
		outParam := func(v ssa.Value) bool {
			return DerivesLocal(v, func(x ssa.Value) bool {
				p, ok := x.(*ssa.Parameter)
				return ok && strings.HasSuffix(p.Type().String(), "cache.OutputID")
			})
		}
		verified := UnionEdges(
			CallTrueEdges(copyFile, func(call *ssa.Call) bool {
				if !IsCallTo(call, "bytes.Equal") {
					return false
				}
				a, b := call.Call.Args[0], call.Call.Args[1]
				return (Derives(a, isHashSum) && outParam(b)) || (Derives(b, isHashSum) && outParam(a))
			}),
			EqEdges(copyFile, func(x, y ssa.Value) bool { return Derives(x, isHashSum) && outParam(y) }),
		)
		sizeParam := func(v ssa.Value) bool {
			p, ok := v.(*ssa.Parameter)
			return ok && types.Identical(p.Type(), types.Typ[types.Int64])
		}
		n := 0
		for _, ci := range Calls(copyFile, false) {
			name := CalleeName(ci.Common())
			args := ci.Common().Args
			var dst ssa.Value
			switch name {
			case "os.File.Write", "os.File.WriteString", "os.File.WriteAt", "os.File.ReadFrom":
				dst = args[0]
			case "io.Copy", "io.CopyN", "io.CopyBuffer", "fmt.Fprintf", "fmt.Fprint", "fmt.Fprintln", "io.WriteString":
				dst = args[0]
			default:
				continue
			}
			if !fromOpen(dst) {
				continue
			}
			n++
			key := FuncKey(copyFile) + "::write-" + name
			if name == "io.CopyN" {
				if bo, ok := args[2].(*ssa.BinOp); ok && bo.Op == token.SUB && sizeParam(bo.X) {
					if k, ok := ConstInt(bo.Y); ok && k >= 1 {
						c.Check(key, ci.Pos(), true, "bounded copy of size-%d bytes: the file cannot reach full size before verification", k)
						continue
					}
				}
			}
			ok, path := MustPassEdges(copyFile, ci, verified)
			c.Check(key, ci.Pos(), ok,
				"a write to the data file must be the bounded size-1 copy or follow the hash comparison of the copied bytes with the expected output id; path avoiding the verification: %s", PathString(copyFile, path))
		}
		if n < 2 {
			c.Undecided("expected the bounded copy and the final-byte write in copyFile, found %d writes to the data file", n)
		}
	})

	// R5.2b --------------------------------------------------------------
	c.Rule("R5.2b", func() {
		c.Floor("R5.2b", 2)
		outParam := func(v ssa.Value) bool {
			return DerivesLocal(v, func(x ssa.Value) bool {
				p, ok := x.(*ssa.Parameter)
				return ok && strings.HasSuffix(p.Type().String(), "cache.OutputID")
			})
		}
		verified := UnionEdges(
			CallTrueEdges(copyFile, func(call *ssa.Call) bool {
				if !IsCallTo(call, "bytes.Equal") {
					return false
				}
				a, b := call.Call.Args[0], call.Call.Args[1]
				return (Derives(a, isHashSum) && outParam(b)) || (Derives(b, isHashSum) && outParam(a))
			}),
			EqEdges(copyFile, func(x, y ssa.Value) bool { return Derives(x, isHashSum) && outParam(y) }),
			EqEdges(copyFile, func(x, y ssa.Value) bool {
				p, ok := x.(*ssa.Parameter)
				k, isK := ConstInt(y)
				return ok && types.Identical(p.Type(), types.Typ[types.Int64]) && isK && k == 0
			}),
		)
		for i, r := range SuccessReturns(copyFile, 0) {
			ok, path := MustPassEdges(copyFile, r, verified)
			c.Check(FuncKey(copyFile)+"::success-return-verified#"+itoa(i), r.Pos(), ok,
				"copyFile may report success only after comparing a hash of the file's bytes with the output id (or for size 0); path: %s", PathString(copyFile, path))
		}
	})

	// R5.3 ---------------------------------------------------------------
	c.Rule("R5.3", func() {
		c.Floor("R5.3", 2)
		osPkg := c.Pkgs["os"]
		if osPkg == nil {
			c.Undecided("package os not loaded")
		}
		trunc, _ := constant.Int64Val(osPkg.Types.Scope().Lookup("O_TRUNC").(*types.Const).Val())
		app, _ := constant.Int64Val(osPkg.Types.Scope().Lookup("O_APPEND").(*types.Const).Val())
		for _, fn := range c.ModuleFuncs() {
			if FuncPkgPath(fn) != cachePkg {
				continue
			}
			for _, ci := range Calls(fn, false) {
				name := CalleeName(ci.Common())
				args := ci.Common().Args
				switch name {
				case "os.Create", "os.WriteFile", Module + "/internal/renameio.WriteFile":
					kind := fileNameKind(args[0])
					if kind == "" {
						continue
					}
					c.Check(FuncKey(fn)+"::"+name+"-on-cache-file", ci.Pos(), false,
						"%s truncates or replaces a cache %q-file that a concurrent reader may have validated by size", name, kind)
				case "os.OpenFile":
					kind := fileNameKind(args[0])
					if kind == "" {
						continue
					}
					key := FuncKey(fn) + "::open-" + kind + "-file-flags"
					bad := ""
					// growing-file guard: the existing file is larger than expected
					larger := CmpEdges(fn, func(x, y ssa.Value) bool {
						_, isParam := y.(*ssa.Parameter)
						return Derives(x, IsInvokeResult("Size")) && isParam
					}, func(rel string, truth bool) bool { return (rel == ">" && truth) || (rel == "<=" && !truth) })
					for x := range BackSlice(args[1], SliceOpts{}) {
						k, ok := ConstInt(x)
						if !ok {
							continue
						}
						if k&app != 0 {
							bad = "O_APPEND"
						}
						if k&trunc == 0 {
							continue
						}
						// the constant must only enter through an OR that is guarded
						guarded := false
						if kind == "d" {
							uses := 0
							guarded = true
							Instrs(fn, false, func(in ssa.Instruction) {
								for _, op := range in.Operands(nil) {
									if *op != x {
										continue
									}
									uses++
									bo, ok := in.(*ssa.BinOp)
									if !ok || bo.Op != token.OR {
										guarded = false
										continue
									}
									if ok, _ := MustPassEdges(fn, bo, larger); !ok {
										guarded = false
									}
								}
							})
							if uses == 0 {
								guarded = false
							}
						}
						if !guarded {
							bad = "O_TRUNC"
						}
					}
					c.Check(key, ci.Pos(), bad == "",
						"cache files are opened without truncation so that rewriting equal content never shortens a file a reader validated (O_TRUNC allowed for data files only under 'existing size > expected size'); offending flag: %s", bad)
				}
			}
		}
	})

	// R5.4 ---------------------------------------------------------------
	c.Rule("R5.4", func() {
		c.Floor("R5.4", 4)
		isGet := func(v ssa.Value) bool { return Derives(v, IsInvokeResult("Get")) }
		for _, fn := range []*ssa.Function{getFile, getBytes} {
			getOK := ErrNilEdges(fn, isGet)
			succ := SuccessReturns(fn, 2)
			if len(succ) == 0 {
				c.Undecided("%s has no success return", fn)
			}
			var valid map[Edge]bool
			var what string
			if fn == getFile {
				what = "Stat size == index entry size"
				valid = EqEdges(fn, func(x, y ssa.Value) bool {
					return Derives(x, IsInvokeResult("Size")) && DerivesLocal(y, IsFieldOf("Entry", "Size")) && isGet(y)
				})
			} else {
				what = "sha256 of the bytes == index entry output id"
				valid = EqEdges(fn, func(x, y ssa.Value) bool {
					return Derives(x, isHashSum) && DerivesLocal(y, IsFieldOf("Entry", "OutputID")) && isGet(y)
				})
			}
			for i, r := range succ {
				ok1, p1 := MustPassEdges(fn, r, getOK)
				c.Check(FuncKey(fn)+"::success-requires-Get-ok#"+itoa(i), r.Pos(), ok1, "success return must follow the nil-error edge of Cache.Get; path: %s", PathString(fn, p1))
				ok2, p2 := MustPassEdges(fn, r, valid)
				c.Check(FuncKey(fn)+"::success-requires-validation#"+itoa(i), r.Pos(), ok2, "success return must follow the edge %q; path: %s", what, PathString(fn, p2))
				if fn == getFile {
					v := ReturnOperand(r, 0)
					ok3 := Derives(v, func(x ssa.Value) bool {
						call, ok := x.(*ssa.Call)
						return ok && call.Call.IsInvoke() && call.Call.Method.Name() == "OutputFile" && DerivesLocal(call.Call.Args[0], IsFieldOf("Entry", "OutputID"))
					})
					c.Check(FuncKey(fn)+"::returned-name-is-validated-file#"+itoa(i), r.Pos(), ok3, "the file name returned must be OutputFile(entry.OutputID) of the entry that was validated")
					// the Stat that validates must be of that same file
					statOK := false
					for _, ci := range CallsTo(fn, false, "os.Stat", "os.Lstat") {
						if call, ok := ci.(*ssa.Call); ok && v != nil && call.Call.Args[0] == v {
							statOK = true
						}
					}
					c.Check(FuncKey(fn)+"::stat-of-returned-file#"+itoa(i), r.Pos(), statOK, "the size that is compared must come from os.Stat of the very file name that is returned")
				}
			}
		}
	})

	// R5.5 ---------------------------------------------------------------
	c.Rule("R5.5", func() {
		c.Floor("R5.5", 6)
		entrySize := constIntOf(c, "lintcmd/cache", "entrySize")
		succ := SuccessReturns(get, 1)
		if len(succ) == 0 {
			c.Undecided("get has no success return")
		}
		readN := func(v ssa.Value) bool {
			e, ok := v.(*ssa.Extract)
			if !ok || e.Index != 0 {
				return false
			}
			call, ok := e.Tuple.(*ssa.Call)
			return ok && IsCallTo(call, "io.ReadFull", "io.ReadAtLeast")
		}
		isEntrySize := func(v ssa.Value) bool { k, ok := ConstInt(v); return ok && k == entrySize }
		full := UnionEdges(
			CmpEdges(get, func(x, y ssa.Value) bool { return readN(x) && isEntrySize(y) },
				func(rel string, truth bool) bool { return (rel == "<" && !truth) || (rel == ">=" && truth) }),
			EqEdges(get, func(x, y ssa.Value) bool { return readN(x) && isEntrySize(y) }),
			// trailing newline at entry[entrySize-1]
			EqEdges(get, func(x, y ssa.Value) bool {
				k, ok := ConstInt(y)
				if !ok || k != '\n' {
					return false
				}
				u, ok := x.(*ssa.UnOp)
				if !ok {
					return false
				}
				ia, ok := u.X.(*ssa.IndexAddr)
				if !ok {
					return false
				}
				i, ok := ConstInt(ia.Index)
				return ok && i == entrySize-1
			}),
		)
		idEq := EqEdges(get, func(x, y ssa.Value) bool {
			p, ok := y.(*ssa.Parameter)
			if !ok || !strings.HasSuffix(p.Type().String(), "cache.ActionID") {
				return false
			}
			// x: the decoded id buffer
			return DerivesLocal(x, func(z ssa.Value) bool { _, ok := z.(*ssa.Alloc); return ok })
		})
		var parseOK, nonNeg, hexOK []map[Edge]bool
		for _, ci := range Calls(get, false) {
			call, ok := ci.(*ssa.Call)
			if !ok {
				continue
			}
			fromCall := func(v ssa.Value) bool {
				return DerivesLocal(v, func(z ssa.Value) bool { return z == ssa.Value(call) })
			}
			switch CalleeName(&call.Call) {
			case "strconv.ParseInt":
				parseOK = append(parseOK, ErrNilEdges(get, func(v ssa.Value) bool {
					e, ok := v.(*ssa.Extract)
					return ok && e.Tuple == ssa.Value(call) && e.Index == 1
				}))
				nonNeg = append(nonNeg, CmpEdges(get, func(x, y ssa.Value) bool {
					k, ok := ConstInt(y)
					return ok && k == 0 && fromCall(x)
				}, func(rel string, truth bool) bool { return (rel == "<" && !truth) || (rel == ">=" && truth) }))
			case "encoding/hex.Decode":
				hexOK = append(hexOK, ErrNilEdges(get, func(v ssa.Value) bool {
					e, ok := v.(*ssa.Extract)
					return ok && e.Tuple == ssa.Value(call) && e.Index == 1
				}))
			}
		}
		if len(parseOK) < 1 || len(hexOK) < 2 {
			c.Undecided("get no longer parses its entry with hex.Decode (id, output id) and strconv.ParseInt (size)")
		}
		for i, r := range succ {
			sfx := "#" + itoa(i)
			ok, p := MustPassEdges(get, r, full)
			c.Check(FuncKey(get)+"::short-read-rejected"+sfx, r.Pos(), ok, "a success return must follow a test that the whole fixed-width entry was read (n >= entrySize or the trailing newline); path: %s", PathString(get, p))
			ok, p = MustPassEdges(get, r, idEq)
			c.Check(FuncKey(get)+"::id-match"+sfx, r.Pos(), ok, "a success return must follow the comparison of the stored id with the requested id; path: %s", PathString(get, p))
			for j := range parseOK {
				ok, p = MustPassEdges(get, r, parseOK[j])
				c.Check(FuncKey(get)+"::parse-error-rejected/"+itoa(j)+sfx, r.Pos(), ok, "ParseInt error must reject the entry; path: %s", PathString(get, p))
				ok, p = MustPassEdges(get, r, nonNeg[j])
				c.Check(FuncKey(get)+"::non-negative/"+itoa(j)+sfx, r.Pos(), ok, "negative size/timestamp must reject the entry; path: %s", PathString(get, p))
			}
			for j := range hexOK {
				ok, p = MustPassEdges(get, r, hexOK[j])
				c.Check(FuncKey(get)+"::hex-error-rejected/"+itoa(j)+sfx, r.Pos(), ok, "hex.Decode error must reject the entry; path: %s", PathString(get, p))
			}
		}
	})

	// R5.6 ---------------------------------------------------------------
	c.Rule("R5.6", func() {
		c.Floor("R5.6", 3)
		nGet, nOut := 0, 0
		for _, fn := range c.ModuleFuncs() {
			if FuncPkgPath(fn) == cachePkg {
				continue
			}
			for _, ci := range Calls(fn, false) {
				cc := ci.Common()
				obj := CalleeObj(cc)
				if obj == nil || obj.Pkg() == nil || obj.Pkg().Path() != cachePkg {
					continue
				}
				switch obj.Name() {
				case "Get":
					nGet++
					c.Check(FuncKey(fn)+"::raw-Cache.Get", ci.Pos(), false, "outside the cache package entries must be fetched through GetFile/GetBytes, which validate the data file; a raw Get+OutputFile can return a truncated file")
				case "OutputFile":
					nOut++
					args := CallArgs(cc)
					arg := args[len(args)-1]
					ok := DerivesLocal(arg, func(x ssa.Value) bool {
						call, ok := x.(*ssa.Call)
						return ok && (call.Call.IsInvoke() && call.Call.Method.Name() == "Put" || IsCallTo(call, cachePkg+".DiskCache.Put", cachePkg+".PutNoVerify"))
					})
					c.Check(FuncKey(fn)+"::OutputFile-of-own-Put", ci.Pos(), ok, "OutputFile may be called outside the cache package only on the OutputID just returned by Put in the same function")
				}
			}
		}
		c.CheckTrivial("module::raw-Cache.Get-sites", token.NoPos, nGet == 0, "%d raw Cache.Get call sites outside lintcmd/cache", nGet)
		gcf := c.Func("lintcmd/runner", "getCachedFiles")
		var gf []ssa.CallInstruction
		for _, f := range DeepFuncs(gcf, 2) {
			gf = append(gf, CallsTo(f, false, cachePkg+".GetFile")...)
		}
		c.Check(FuncKey(gcf)+"::uses-GetFile", gcf.Pos(), len(gf) > 0, "the runner's cache lookups go through cache.GetFile")
	})

	// R5.7 ---------------------------------------------------------------
	c.Rule("R5.7", func() {
		c.Floor("R5.7", 3)
		_, do := keyFunctions(c, c.Func("lintcmd/runner", "(*subrunner).do")) // the function that looks the key up (do itself today)
		gcf := c.Func("lintcmd/runner", "getCachedFiles")
		var lookups []*ssa.Call
		for _, ci := range CallsTo(do, false, Module+"/lintcmd/runner.getCachedFiles") {
			if call, ok := ci.(*ssa.Call); ok {
				lookups = append(lookups, call)
			}
		}
		if len(lookups) != 1 {
			c.Undecided("expected exactly one getCachedFiles call in %s, found %d", do, len(lookups))
		}
		lk := lookups[0]
		isLk := func(v ssa.Value) bool { return v == ssa.Value(lk) }
		for i, r := range Returns(do) {
			v := ReturnOperand(r, 0)
			leak := v != nil && DerivesLocal(v, isLk)
			c.Check(FuncKey(do)+"::lookup-error-not-returned#"+itoa(i), r.Pos(), !leak, "a failed cache lookup must only select recomputation, never become the action's error")
		}
		// miss ⇒ doUncached on the error edge
		missEdges := ComplementEdges(ErrNilEdges(do, func(v ssa.Value) bool { return DerivesLocal(v, isLk) }))
		unc := CallsTo(do, false, Module+"/lintcmd/runner.subrunner.doUncached")
		if len(unc) == 0 {
			c.Undecided("(*subrunner).do no longer calls doUncached")
		}
		for _, u := range unc {
			ok, p := MustPassEdges(do, u, missEdges)
			c.Check(FuncKey(do)+"::recompute-only-on-miss", u.Pos(), ok, "doUncached runs exactly on the error edge of the cache lookup; path: %s", PathString(do, p))
		}
		// every success return of do on the miss path has passed doUncached:
		// i.e. no path from the miss edge to a return avoids doUncached.
		for e := range missEdges {
			var blk *ssa.BasicBlock
			for _, b := range do.Blocks {
				if b.Index == e.Block {
					blk = b.Succs[e.Succ]
				}
			}
			t, path := PathAvoiding(do, blk.Instrs[0], func(i ssa.Instruction) bool { _, ok := i.(*ssa.Return); return ok },
				func(i ssa.Instruction) bool {
					ci, ok := i.(ssa.CallInstruction)
					return ok && IsCallTo(ci, Module+"/lintcmd/runner.subrunner.doUncached")
				}, nil)
			first := blk.Instrs[0]
			if ci, ok := first.(ssa.CallInstruction); ok && IsCallTo(ci, Module+"/lintcmd/runner.subrunner.doUncached") {
				t = nil
			}
			c.Check(FuncKey(do)+"::miss-implies-recompute", first.Pos(), t == nil, "after a failed lookup every path to a return runs doUncached; path avoiding it: %s", PathString(do, path))
		}
		// getCachedFiles: every GetFile error is checked and propagated
		for i, ci := range CallsTo(gcf, false, cachePkg+".GetFile") {
			call := ci.(*ssa.Call)
			isErr := func(v ssa.Value) bool {
				return DerivesLocal(v, func(z ssa.Value) bool {
					e, ok := z.(*ssa.Extract)
					return ok && e.Tuple == ssa.Value(call) && e.Index == 2
				})
			}
			nilEdges := ErrNilEdges(gcf, isErr)
			c.Check(FuncKey(gcf)+"::GetFile-error-checked#"+itoa(i), call.Pos(), len(nilEdges) > 0, "the error of GetFile must be tested")
			// on every path from the call to a success return the nil edge is passed
			t, path := PathAvoiding(gcf, call, func(in ssa.Instruction) bool {
				r, ok := in.(*ssa.Return)
				if !ok {
					return false
				}
				v := ReturnOperand(r, 0)
				return v == nil || !isErr(v) || IsNilConst(v)
			}, nil, nilEdges)
			c.Check(FuncKey(gcf)+"::all-lookups-must-hit#"+itoa(i), call.Pos(), t == nil, "getCachedFiles may report a hit only if every GetFile succeeded; path from a failed GetFile to a success return: %s", PathString(gcf, path))
		}
	})

	// R5.8 ---------------------------------------------------------------
	c.Rule("R5.8", func() {
		c.Floor("R5.8", 6)
		putIndex := c.Func("lintcmd/cache", "(*DiskCache).putIndexEntry")
		entrySize := constIntOf(c, "lintcmd/cache", "entrySize")
		hashSize := constIntOf(c, "lintcmd/cache", "HashSize")
		// the writer's layout, from the constant format string of the Sprintf whose result is written
		var format string
		var fmtCall *ssa.Call
		for _, ci := range CallsTo(putIndex, false, "fmt.Sprintf") {
			call := ci.(*ssa.Call)
			// its result must be what is written to the file
			written := false
			for _, w := range CallsTo(putIndex, false, "os.File.WriteString", "os.File.Write", "io.WriteString", "fmt.Fprint") {
				if DerivesLocal(w.Common().Args[1], func(v ssa.Value) bool { return v == ssa.Value(call) }) {
					written = true
				}
			}
			if sv, ok := constStringVal(call.Call.Args[0]); ok && written {
				format, fmtCall = sv, call
			}
		}
		if fmtCall == nil {
			c.Undecided("putIndexEntry no longer formats the entry with a constant Sprintf format that is then written")
		}
		// positions of literal bytes and the ranges of the verbs
		type span struct{ lo, hi int64 }
		var verbs []span
		lit := map[int64]byte{}
		var pos int64
		okFmt := true
		for i := 0; i < len(format); i++ {
			ch := format[i]
			if ch != '%' {
				lit[pos] = ch
				pos++
				continue
			}
			j := i + 1
			width := int64(0)
			for j < len(format) && format[j] >= '0' && format[j] <= '9' {
				width = width*10 + int64(format[j]-'0')
				j++
			}
			if j >= len(format) {
				okFmt = false
				break
			}
			switch format[j] {
			case 'x':
				// an id: a [HashSize]byte array prints as 2*HashSize hex digits
				width = 2 * hashSize
			case 'd':
				if width == 0 {
					okFmt = false // variable width: the entry is not fixed-size
				}
			default:
				okFmt = false
			}
			verbs = append(verbs, span{pos, pos + width})
			pos += width
			i = j
		}
		c.Check(FuncKey(putIndex)+"::entry-format-is-fixed-width", fmtCall.Pos(), okFmt && len(verbs) == 4, "the index entry is written with fixed-width verbs only (%q)", format)
		c.Check(FuncKey(putIndex)+"::entry-length-equals-entrySize", fmtCall.Pos(), pos == entrySize, "the writer's format produces %d bytes, the reader requires exactly entrySize = %d", pos, entrySize)
		// the buffer the entry is read into: the argument of the read call (however it was obtained)
		var root ssa.Value
		for _, ci := range Calls(get, false) {
			switch CalleeName(ci.Common()) {
			case "io.ReadFull", "io.ReadAtLeast":
				root = ci.Common().Args[1]
			}
		}
		// the reader's literal checks: indices compared with constants
		readerLit := map[int64]byte{}
		Instrs(get, false, func(in ssa.Instruction) {
			bo, ok := in.(*ssa.BinOp)
			if !ok || (bo.Op != token.NEQ && bo.Op != token.EQL) {
				return
			}
			k, isK := ConstInt(bo.Y)
			u, isLoad := bo.X.(*ssa.UnOp)
			if !isK || !isLoad {
				return
			}
			ia, ok := u.X.(*ssa.IndexAddr)
			if !ok {
				return
			}
			if i, ok := ConstInt(ia.Index); ok && k >= 0 && k < 256 {
				if _, isBuf := ia.X.(*ssa.Slice); isBuf || ia.X == root {
					readerLit[i] = byte(k)
				}
			}
		})
		// … also when the header test lives in a helper that is handed the buffer (or a constant slice of it)
		for _, ci := range Calls(get, false) {
			h := ci.Common().StaticCallee()
			if h == nil || h.Blocks == nil || FuncPkgPath(h) != FuncPkgPath(get) {
				continue
			}
			for ai, a := range ci.Common().Args {
				if ai >= len(h.Params) {
					continue
				}
				base := int64(-1)
				if a == root {
					base = 0
				} else if sl, isSl := a.(*ssa.Slice); isSl && sl.X == root {
					base = 0
					if sl.Low != nil {
						if k, ok := ConstInt(sl.Low); ok {
							base = k
						} else {
							base = -1
						}
					}
				}
				if base < 0 {
					continue
				}
				prm := h.Params[ai]
				Instrs(h, false, func(in ssa.Instruction) {
					bo, ok := in.(*ssa.BinOp)
					if !ok || (bo.Op != token.NEQ && bo.Op != token.EQL) {
						return
					}
					k, isK := ConstInt(bo.Y)
					u, isLoad := bo.X.(*ssa.UnOp)
					if !isK || !isLoad {
						return
					}
					if ia, ok := u.X.(*ssa.IndexAddr); ok && ia.X == ssa.Value(prm) {
						if i, ok := ConstInt(ia.Index); ok && k >= 0 && k < 256 {
							readerLit[base+i] = byte(k)
						}
					}
				})
			}
		}
		agree := len(readerLit) > 0
		diff := ""
		for i, b := range readerLit {
			if lit[i] != b {
				agree = false
				diff = "reader expects " + string(rune(b)) + " at offset " + itoa(int(i)) + ", writer puts " + string(rune(lit[i]))
			}
		}
		c.Check(FuncKey(get)+"::separators-agree-with-writer", get.Pos(), agree && len(readerLit) >= 5, "every literal byte the reader insists on is at the offset where the writer's format puts it (%d positions; %s)", len(readerLit), diff)
		// the reader's field slices: absolute [lo,hi) of each slice of the buffer that feeds hex.Decode / ParseInt, in order
		var absolute func(v ssa.Value) (int64, int64, bool)
		absolute = func(v ssa.Value) (int64, int64, bool) {
			if root != nil && v == root {
				return 0, entrySize + 1, true
			}
			sl, ok := v.(*ssa.Slice)
			if !ok {
				return 0, 0, false
			}
			lo, hi := int64(0), int64(-1)
			if sl.Low != nil {
				if k, ok := ConstInt(sl.Low); ok {
					lo = k
				} else {
					return 0, 0, false
				}
			}
			if sl.High != nil {
				if k, ok := ConstInt(sl.High); ok {
					hi = k
				} else {
					return 0, 0, false
				}
			}
			if _, isAlloc := sl.X.(*ssa.Alloc); isAlloc {
				if hi < 0 {
					hi = entrySize + 1
				}
				return lo, hi, true
			}
			plo, phi, ok := absolute(sl.X)
			if !ok {
				return 0, 0, false
			}
			if hi < 0 {
				return plo + lo, phi, true
			}
			return plo + lo, plo + hi, true
		}
		var fields []span
		for _, ci := range Calls(get, false) {
			call, ok := ci.(*ssa.Call)
			if !ok {
				continue
			}
			var src ssa.Value
			switch CalleeName(&call.Call) {
			case "encoding/hex.Decode":
				src = call.Call.Args[1]
			case "strconv.ParseInt":
				src = call.Call.Args[0]
			default:
				continue
			}
			// the (outermost constant) slice of the entry buffer the argument derives from
			var best *span
			for x := range BackSlice(src, SliceOpts{NoMemory: true, ThroughCalls: true}) {
				if lo, hi, ok := absolute(x); ok {
					if best == nil || hi-lo < best.hi-best.lo {
						best = &span{lo, hi}
					}
				}
			}
			if best != nil {
				fields = append(fields, *best)
			}
		}
		match := len(fields) == len(verbs)
		for i := range fields {
			if i < len(verbs) && (fields[i].lo != verbs[i].lo || fields[i].hi != verbs[i].hi) {
				// numeric fields are left-padded: the reader may take the same range
				match = false
			}
		}
		c.Check(FuncKey(get)+"::field-ranges-agree-with-writer", get.Pos(), match, "the byte ranges the reader decodes (id, output id, size, time: %v) are the ranges the writer's verbs occupy (%v)", fields, verbs)
		// the writer's arguments are (action id, output id, size, time) in that order
		args := fmtCall.Call.Args[1]
		order := []string{}
		for x := range BackSlice(args, SliceOpts{}) {
			_ = x
		}
		// the varargs array: stores by index
		byIdx := map[int64]ssa.Value{}
		for x := range BackSlice(args, SliceOpts{NoMemory: true}) {
			al, ok := x.(*ssa.Alloc)
			if !ok {
				continue
			}
			for _, r := range *al.Referrers() {
				ia, ok := r.(*ssa.IndexAddr)
				if !ok {
					continue
				}
				i, ok := ConstInt(ia.Index)
				if !ok {
					continue
				}
				for _, rr := range *ia.Referrers() {
					if st, ok := rr.(*ssa.Store); ok && st.Addr == ia {
						byIdx[i] = st.Val
					}
				}
			}
		}
		for i := int64(0); i < int64(len(byIdx)); i++ {
			v := byIdx[i]
			switch {
			case v == nil:
				order = append(order, "?")
			case DerivesLocal(v, func(z ssa.Value) bool {
				p, ok := z.(*ssa.Parameter)
				return ok && strings.HasSuffix(p.Type().String(), "cache.ActionID")
			}):
				order = append(order, "id")
			case DerivesLocal(v, func(z ssa.Value) bool {
				p, ok := z.(*ssa.Parameter)
				return ok && strings.HasSuffix(p.Type().String(), "cache.OutputID")
			}):
				order = append(order, "out")
			case DerivesLocal(v, func(z ssa.Value) bool { p, ok := z.(*ssa.Parameter); return ok && p.Type().String() == "int64" }):
				order = append(order, "size")
			case Derives(v, IsCallResult("time.Now")):
				order = append(order, "time")
			default:
				order = append(order, "?")
			}
		}
		c.Check(FuncKey(putIndex)+"::fields-in-reader-order", fmtCall.Pos(), strings.Join(order, ",") == "id,out,size,time", "the entry's fields are written in the order the reader decodes them: action id, output id, size, time (writer: %v)", order)
		// Truncate only after the write succeeded
		for _, ci := range CallsTo(putIndex, false, "os.File.Truncate") {
			wrote := false
			for _, w := range CallsTo(putIndex, false, "os.File.WriteString", "os.File.Write", "io.WriteString", "fmt.Fprint") {
				if InstrDominates(w, ci) {
					wrote = true
				}
			}
			c.Check(FuncKey(putIndex)+"::truncate-only-after-write", ci.Pos(), wrote, "the index file is cut to the entry's length only after the entry was written (an equal rewrite never shortens the file, not even temporarily)")
		}
	})
	// R5.9: strict fixed-width parsing starts with the length. An index entry is
	// accepted only if exactly entrySize bytes were read: both "too long" and
	// "too short" must be excluded on every path to a successful return. The
	// content checks alone (separators, terminating newline) do not reject a
	// short file when the buffer holds anything but zeros.
	c.Rule("R5.9", func() {
		c.Floor("R5.9", 2)
		get := c.Func("lintcmd/cache", "(*DiskCache).get")
		entrySize := constIntOf(c, "lintcmd/cache", "entrySize")
		isN := func(v ssa.Value) bool {
			switch x := v.(type) {
			case *ssa.Extract:
				if call, ok := x.Tuple.(*ssa.Call); ok && x.Index == 0 {
					switch CalleeName(&call.Call) {
					case "io.ReadFull", "io.ReadAtLeast", "os.File.Read", "io.Reader.Read":
						return true
					}
				}
			case *ssa.Call:
				if IsCallTo(x, "builtin.len") {
					return Derives(x.Call.Args[0], IsCallResult("io.ReadAll", "os.ReadFile"))
				}
			}
			return false
		}
		isSize := func(v ssa.Value) (int64, bool) {
			k, ok := ConstInt(v)
			return k, ok
		}
		// edges on which n <= entrySize (upper) / n >= entrySize (lower) is known
		upper, lower := map[Edge]bool{}, map[Edge]bool{}
		for _, b := range get.Blocks {
			iff, ok := b.Instrs[len(b.Instrs)-1].(*ssa.If)
			if !ok {
				continue
			}
			cond, neg := StripNot(iff.Cond)
			bo, ok := cond.(*ssa.BinOp)
			if !ok {
				continue
			}
			var k int64
			op := bo.Op
			if kk, ok := isSize(bo.Y); ok && isN(bo.X) {
				k = kk
			} else if kk, ok := isSize(bo.X); ok && isN(bo.Y) {
				k = kk
				op = map[token.Token]token.Token{token.LSS: token.GTR, token.GTR: token.LSS, token.LEQ: token.GEQ, token.GEQ: token.LEQ, token.EQL: token.EQL, token.NEQ: token.NEQ}[op]
			} else {
				continue
			}
			for succ, truth := range []bool{true, false} {
				if neg {
					truth = !truth
				}
				// the set of n on this edge: n op k (truth) or its negation
				holdsUpper, holdsLower := false, false
				type rel struct {
					op    token.Token
					truth bool
				}
				switch (rel{op, truth}) {
				case rel{token.GTR, false}, rel{token.LEQ, true}: // n <= k
					holdsUpper = k <= entrySize
				case rel{token.GEQ, false}, rel{token.LSS, true}: // n < k
					holdsUpper = k <= entrySize+1
				case rel{token.LSS, false}, rel{token.GEQ, true}: // n >= k
					holdsLower = k >= entrySize
				case rel{token.LEQ, false}, rel{token.GTR, true}: // n > k
					holdsLower = k >= entrySize-1
				case rel{token.EQL, true}, rel{token.NEQ, false}: // n == k
					holdsUpper, holdsLower = k == entrySize, k == entrySize
				}
				if holdsUpper {
					upper[Edge{Block: b.Index, Succ: succ}] = true
				}
				if holdsLower {
					lower[Edge{Block: b.Index, Succ: succ}] = true
				}
			}
		}
		// "the read stopped before the buffer (entrySize+1 bytes) was full" also bounds n from above:
		// the read call's error is known to be non-nil (ErrUnexpectedEOF)
		isReadErr := func(v ssa.Value) bool {
			return DerivesLocal(v, func(x ssa.Value) bool {
				e, ok := x.(*ssa.Extract)
				if !ok || e.Index != 1 {
					return false
				}
				call, ok := e.Tuple.(*ssa.Call)
				return ok && (CalleeName(&call.Call) == "io.ReadFull" || CalleeName(&call.Call) == "io.ReadAtLeast")
			})
		}
		for e := range ComplementEdges(ErrNilEdges(get, isReadErr)) {
			upper[e] = true
		}
		for e := range EqEdges(get, func(x, y ssa.Value) bool {
			return isReadErr(x) && Derives(y, func(v ssa.Value) bool { g, ok := v.(*ssa.Global); return ok && g.Name() == "ErrUnexpectedEOF" })
		}) {
			upper[e] = true
		}
		rets := SuccessReturns(get, 1)
		if len(rets) == 0 {
			c.Undecided("(*DiskCache).get has no successful return")
		}
		okU, okL := len(upper) > 0, len(lower) > 0
		pu, pl := "", ""
		for _, r := range rets {
			if ok, p := MustPassEdges(get, r, upper); !ok {
				okU, pu = false, PathString(get, p)
			}
			if ok, p := MustPassEdges(get, r, lower); !ok {
				okL, pl = false, PathString(get, p)
			}
		}
		c.Check(FuncKey(get)+"::entry-not-longer-than-entrySize", get.Pos(), okU, "an index entry is accepted only if no more than entrySize bytes were read; path to a hit without that test: %s", pu)
		c.Check(FuncKey(get)+"::entry-not-shorter-than-entrySize", get.Pos(), okL, "an index entry is accepted only if all entrySize bytes were read: a truncated file must be a miss whatever the read buffer held before; path to a hit without that test: %s", pl)
	})
}
