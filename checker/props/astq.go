package props

import (
	"go/ast"
	"go/token"
	"go/types"

	"golang.org/x/tools/go/packages"
	"golang.org/x/tools/go/ssa"

	. "verif/checker/engine"
)

// resolveLocal looks through spellings that do not change the value an
// expression denotes: parentheses, conversions to an interface type, and local
// variables that have exactly one definition in fd and are never assigned
// again or address-taken (`cur := node`, `name := callee.Name()`).
func resolveLocal(p *packages.Package, fd *ast.FuncDecl, e ast.Expr) ast.Expr {
	for depth := 0; depth < 8; depth++ {
		e = ast.Unparen(e)
		switch x := e.(type) {
		case *ast.CallExpr:
			if tv, ok := p.TypesInfo.Types[x.Fun]; ok && tv.IsType() && len(x.Args) == 1 && types.IsInterface(tv.Type) {
				if at := p.TypesInfo.TypeOf(x.Args[0]); at != nil && types.IsInterface(at) {
					e = x.Args[0]
					continue
				}
			}
			return e
		case *ast.Ident:
			obj, ok := p.TypesInfo.ObjectOf(x).(*types.Var)
			if !ok || fd == nil || fd.Body == nil || obj.Pos() < fd.Body.Pos() || obj.Pos() >= fd.Body.End() {
				return e
			}
			def := singleDefinition(p, fd, obj)
			if def == nil {
				return e
			}
			e = def
			continue
		default:
			return e
		}
	}
	return e
}

// singleDefinition returns the initialiser of local variable obj if obj is
// defined exactly once (x := e / var x = e, one value per name) and is not
// assigned, inc/decremented, ranged into or address-taken anywhere else in fd.
func singleDefinition(p *packages.Package, fd *ast.FuncDecl, obj *types.Var) ast.Expr {
	var def ast.Expr
	bad := false
	isObj := func(e ast.Expr) bool {
		id, ok := ast.Unparen(e).(*ast.Ident)
		return ok && p.TypesInfo.ObjectOf(id) == obj
	}
	ast.Inspect(fd.Body, func(n ast.Node) bool {
		switch n := n.(type) {
		case *ast.AssignStmt:
			for i, l := range n.Lhs {
				if !isObj(l) {
					continue
				}
				id := ast.Unparen(l).(*ast.Ident)
				if n.Tok == token.DEFINE && p.TypesInfo.Defs[id] == obj && len(n.Lhs) == len(n.Rhs) && def == nil {
					def = n.Rhs[i]
				} else {
					bad = true
				}
			}
		case *ast.ValueSpec:
			for i, nm := range n.Names {
				if p.TypesInfo.Defs[nm] == obj {
					if len(n.Values) == len(n.Names) && def == nil {
						def = n.Values[i]
					} else {
						bad = true
					}
				}
			}
		case *ast.IncDecStmt:
			if isObj(n.X) {
				bad = true
			}
		case *ast.RangeStmt:
			if (n.Key != nil && isObj(n.Key)) || (n.Value != nil && isObj(n.Value)) {
				bad = true
			}
		case *ast.UnaryExpr:
			if n.Op == token.AND && isObj(n.X) {
				bad = true
			}
		}
		return true
	})
	if bad {
		return nil
	}
	return def
}

// ifaceBase strips interface-to-interface conversions.
func ifaceBase(v ssa.Value) ssa.Value {
	for {
		ci, ok := v.(*ssa.ChangeInterface)
		if !ok {
			return v
		}
		v = ci.X
	}
}

// failedAssertTypes returns the types T such that every path from the entry of
// fn to target passes an edge on which a comma-ok type assertion (or type
// switch test) of x to T has just failed — however the test is spelled (if
// with init, separate assignment, inverted if/else, an earlier type switch).
// The assertions in skip are not considered.
func failedAssertTypes(fn *ssa.Function, x ssa.Value, target ssa.Instruction, skip map[*ssa.TypeAssert]bool) []types.Type {
	x = ifaceBase(x)
	return failedAssertTypesOf(fn, func(v ssa.Value) bool { return ifaceBase(v) == x }, target, skip)
}

// failedAssertTypesOf is failedAssertTypes for the values accepted by same.
func failedAssertTypesOf(fn *ssa.Function, same func(ssa.Value) bool, target ssa.Instruction, skip map[*ssa.TypeAssert]bool) []types.Type {
	byType := map[string][]*ssa.TypeAssert{}
	var order []string
	Instrs(fn, false, func(in ssa.Instruction) {
		ta, ok := in.(*ssa.TypeAssert)
		if !ok || !ta.CommaOk || skip[ta] || !same(ta.X) {
			return
		}
		k := ta.AssertedType.String()
		if byType[k] == nil {
			order = append(order, k)
		}
		byType[k] = append(byType[k], ta)
	})
	var out []types.Type
	for _, k := range order {
		tas := byType[k]
		failed := ComplementEdges(CondEdges(fn, func(cond ssa.Value) (bool, bool) {
			ex, ok := cond.(*ssa.Extract)
			if !ok || ex.Index != 1 {
				return false, false
			}
			for _, ta := range tas {
				if ex.Tuple == ta {
					return true, true
				}
			}
			return false, false
		}))
		if len(failed) == 0 {
			continue
		}
		if must, _ := MustPassEdges(fn, target, failed); must {
			out = append(out, tas[0].AssertedType)
		}
	}
	return out
}

// succeededAssertType returns the concrete type T if every path to target
// passes an edge on which a comma-ok assertion (or type-switch test) of x to T
// succeeded.
func succeededAssertType(fn *ssa.Function, same func(ssa.Value) bool, target ssa.Instruction) types.Type {
	var found types.Type
	Instrs(fn, false, func(in ssa.Instruction) {
		ta, ok := in.(*ssa.TypeAssert)
		if !ok || !ta.CommaOk || found != nil || !same(ta.X) || types.IsInterface(ta.AssertedType) {
			return
		}
		okEdges := CondEdgesPhi(fn, func(cond ssa.Value) (bool, bool) {
			ex, ok := cond.(*ssa.Extract)
			return ok && ex.Index == 1 && ex.Tuple == ta, true
		})
		if len(okEdges) == 0 {
			return
		}
		if must, _ := MustPassEdges(fn, target, okEdges); must {
			found = ta.AssertedType
		}
	})
	return found
}

// preNarrowed returns the types that cannot reach the first test of type
// switch s because an earlier comma-ok assertion on the same value sent them
// elsewhere.
func preNarrowed(c *Ctx, s tswitch) []types.Type {
	if s.fd == nil {
		return nil
	}
	fn := c.FuncOfSyntax(InnermostFuncSyntax(s.fd, s.sw.Pos()))
	if fn == nil {
		return nil
	}
	casePos := map[token.Pos]bool{}
	for _, cl := range s.sw.Body.List {
		if cc := cl.(*ast.CaseClause); cc.List != nil {
			casePos[cc.Case] = true
		}
	}
	var own []*ssa.TypeAssert
	skip := map[*ssa.TypeAssert]bool{}
	Instrs(fn, false, func(in ssa.Instruction) {
		if ta, ok := in.(*ssa.TypeAssert); ok && ta.CommaOk && casePos[ta.Pos()] {
			own = append(own, ta)
			skip[ta] = true
		}
	})
	if len(own) == 0 {
		return nil
	}
	first := own[0]
	for _, o := range own[1:] {
		if InstrDominates(o, first) {
			first = o
		}
	}
	return failedAssertTypes(fn, first.X, first, skip)
}

// paramValue reports whether v is parameter prm of its function, seen through
// interface conversions and the cell a captured or reassignable parameter is
// spilled to (provided the parameter is the only value ever stored there).
func paramValue(v ssa.Value, prm *ssa.Parameter) bool {
	v = ifaceBase(v)
	if v == prm {
		return true
	}
	ld, ok := v.(*ssa.UnOp)
	if !ok || ld.Op != token.MUL {
		return false
	}
	al, ok := ld.X.(*ssa.Alloc)
	if !ok || al.Referrers() == nil {
		return false
	}
	n := 0
	for _, r := range *al.Referrers() {
		if st, ok := r.(*ssa.Store); ok && st.Addr == al {
			if st.Val != prm {
				return false
			}
			n++
		}
	}
	return n == 1
}
