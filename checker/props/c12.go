package props

import (
	"go/ast"
	"go/constant"
	"go/token"
	"go/types"
	"sort"
	"strings"

	"golang.org/x/tools/go/packages"
	"golang.org/x/tools/go/ssa"

	. "verif/checker/engine"
)

const lintcmdPkg = Module + "/lintcmd"
const lintPkg = Module + "/analysis/lint"

// offsetExempt: descriptor leaves that the comparator need not compare.
var offsetExempt = map[string]string{
	"Position.Offset": "the byte offset is determined by (file, line, column) and is cleared in -f binary output, so it cannot distinguish two descriptors that agree on the compared fields",
	"End.Offset":      "as Position.Offset",
}

func init() {
	Register(&Property{
		ID:       "C12",
		Patterns: []string{"./lintcmd", "./analysis/lint"},
		NeedSSA:  true,
		Explanation: "Decides the structural conditions of run merging: the sort comparator orders by every field of the de-duplication key (diagnosticDescriptor, read from descriptor()) before the build name, so that equal descriptors are adjacent and their build names are unioned (R12.1); " +
			"mergeRuns has a case for every MergeStrategy constant, keeps 'any' problems unconditionally and 'all' problems only when no run that checked the file lacks the descriptor, quantifying over the whole runs slice (R12.2, R12.3); " +
			"the -f binary writer normalises checked files and both descriptor positions with the same function and clears their offsets (R12.4); runs are keyed by descriptor(), every checked file is recorded, BuildName is stamped on every problem, the merge strategy travels from the check's documentation to the problem (R12.5). " +
			"It does NOT decide commutativity/idempotence as algebraic laws over multisets of runs.",
		RuleText:    "comparator chain and descriptor/equality keys are extracted from the AST with symbolic resolution of local aliases; path rules on the SSA CFG",
		Assumptions: []string{"sort.Slice orders the slice consistently with a strict weak order"},
		Run:         runC12,
		Mutants: []Mutant{
			{Name: "build-name-skipped-by-suffix-test", File: "lintcmd/cmd.go", Rule: "R12.6", KeyPart: "same-descriptor-records-build-name",
				Old: "\t\t\t\t\tbuilds[len(filtered)-1][diag.BuildName] = struct{}{}\n\t\t\t\t} else {", New: "\t\t\t\t\tif !strings.HasSuffix(filtered[len(filtered)-1].BuildName, diag.BuildName) {\n\t\t\t\t\t\tbuilds[len(filtered)-1][diag.BuildName] = struct{}{}\n\t\t\t\t\t}\n\t\t\t\t} else {"},
			{Name: "buildname-before-category", File: "lintcmd/cmd.go", Rule: "R12.1", KeyPart: "comparator",
				Old: "\t\t\tif di.Category != dj.Category {\n\t\t\t\treturn di.Category < dj.Category\n\t\t\t}\n\t\t\tif di.BuildName != dj.BuildName {\n\t\t\t\treturn di.BuildName < dj.BuildName\n\t\t\t}\n",
				New: "\t\t\tif di.BuildName != dj.BuildName {\n\t\t\t\treturn di.BuildName < dj.BuildName\n\t\t\t}\n\t\t\tif di.Category != dj.Category {\n\t\t\t\treturn di.Category < dj.Category\n\t\t\t}\n"},
			{Name: "no-end-in-comparator", File: "lintcmd/cmd.go", Rule: "R12.1", KeyPart: "comparator",
				Old: "\t\t\tif ei.Line != ej.Line {\n\t\t\t\treturn ei.Line < ej.Line\n\t\t\t}\n", New: ""},
			{Name: "descriptor-gains-field", File: "lintcmd/cmd.go", Rule: "R12.1", KeyPart: "comparator",
				Old: "type diagnosticDescriptor struct {\n\tPosition token.Position\n\tEnd      token.Position\n\tCategory string\n\tMessage  string\n}\n\nfunc (diag diagnostic) descriptor() diagnosticDescriptor {\n\treturn diagnosticDescriptor{\n\t\tPosition: diag.Position,",
				New: "type diagnosticDescriptor struct {\n\tPosition token.Position\n\tEnd      token.Position\n\tCategory string\n\tMessage  string\n\tFixes    int\n}\n\nfunc (diag diagnostic) descriptor() diagnosticDescriptor {\n\treturn diagnosticDescriptor{\n\t\tFixes:    len(diag.SuggestedFixes),\n\t\tPosition: diag.Position,"},
			{Name: "all-ignores-checked-files", File: "lintcmd/cmd.go", Rule: "R12.3", KeyPart: "checked",
				Old: "\t\t\t\t\tif _, ok := r.checkedFiles[diag.Position.Filename]; ok {\n\t\t\t\t\t\tif _, ok := r.diagnostics[diag.descriptor()]; !ok {\n\t\t\t\t\t\t\tdoPrint = false\n\t\t\t\t\t\t}\n\t\t\t\t\t}\n",
				New: "\t\t\t\t\tif _, ok := r.diagnostics[diag.descriptor()]; !ok {\n\t\t\t\t\t\tdoPrint = false\n\t\t\t\t\t}\n"},
			{Name: "all-appended-unconditionally", File: "lintcmd/cmd.go", Rule: "R12.3", KeyPart: "all",
				Old: "\t\t\t\tif doPrint {\n\t\t\t\t\trelevantDiagnostics = append(relevantDiagnostics, diag)\n\t\t\t\t}\n", New: "\t\t\t\t_ = doPrint\n\t\t\t\trelevantDiagnostics = append(relevantDiagnostics, diag)\n"},
			{Name: "all-only-later-runs", File: "lintcmd/cmd.go", Rule: "R12.3", KeyPart: "whole",
				Old: "\tfor _, r := range runs {\n\t\tfor _, diag := range r.diagnostics {", New: "\tfor ri, r := range runs {\n\t\truns := runs[ri:]\n\t\tfor _, diag := range r.diagnostics {"},
			{Name: "end-filename-not-relative", File: "lintcmd/cmd.go", Rule: "R12.4", KeyPart: "End.Filename",
				Old: "\t\t\t\td.End.Filename = relPath(d.End.Filename)\n", New: ""},
			{Name: "position-offset-kept", File: "lintcmd/cmd.go", Rule: "R12.4", KeyPart: "Position.Offset",
				Old: "\t\t\t\td.Position.Filename = relPath(d.Position.Filename)\n\t\t\t\td.Position.Offset = 0\n", New: "\t\t\t\td.Position.Filename = relPath(d.Position.Filename)\n"},
			{Name: "checked-files-not-relative", File: "lintcmd/cmd.go", Rule: "R12.4", KeyPart: "CheckedFiles",
				Old: "\t\t\t\tres.CheckedFiles[i] = relPath(s)\n", New: "\t\t\t\tres.CheckedFiles[i] = filepath.ToSlash(s)\n"},
			{Name: "mergeif-not-assigned", File: "lintcmd/lint.go", Rule: "R12.5", KeyPart: "MergeIf-from-check",
				Old: "\t\t\t\t\tfiltered[i].MergeIf = a.Doc.MergeIf\n", New: "\t\t\t\t\t_ = i\n"},
			{Name: "buildname-not-stamped", File: "lintcmd/lint.go", Rule: "R12.5", KeyPart: "BuildName",
				Old: "\tfor i := range res.Diagnostics {\n\t\tres.Diagnostics[i].BuildName = bconf.Name\n\t}\n", New: ""},
			{Name: "run-keyed-by-position-only", File: "lintcmd/cmd.go", Rule: "R12.5", KeyPart: "keyed",
				Old: "\t\tout.diagnostics[diag.descriptor()] = diag\n", New: "\t\tout.diagnostics[diagnosticDescriptor{Position: diag.Position}] = diag\n"},
		},
	})
}

// selectorPathsOf collects, for a function whose receiver/parameter is the
// element, the paths "x.y" selected on that parameter inside node.
func selectorPaths(p *packages.Package, node ast.Node, root types.Object) []string {
	seen := map[string]bool{}
	var out []string
	env := &symEnv{p: p, vars: map[types.Object]string{root: "L"}, idx: map[types.Object]string{}}
	ast.Inspect(node, func(n ast.Node) bool {
		se, ok := n.(*ast.SelectorExpr)
		if !ok {
			return true
		}
		if s, ok := env.resolve(se); ok && s == "L" {
			return false
		}
		if s, ok := env.resolve(se); ok && strings.HasPrefix(s, "L.") {
			pth := strings.TrimPrefix(s, "L.")
			if !seen[pth] {
				seen[pth] = true
				out = append(out, pth)
			}
			return false
		}
		return true
	})
	return out
}

// descriptorPaths reads the de-duplication key from (diagnostic).descriptor.
func descriptorPaths(c *Ctx) ([]string, types.Type) {
	fd, p := c.Decl("lintcmd", "diagnostic.descriptor")
	if fd.Recv == nil || len(fd.Recv.List) != 1 || len(fd.Recv.List[0].Names) != 1 {
		c.Undecided("descriptor has no named receiver")
	}
	recv := p.TypesInfo.ObjectOf(fd.Recv.List[0].Names[0])
	var lit *ast.CompositeLit
	ast.Inspect(fd.Body, func(n ast.Node) bool {
		if cl, ok := n.(*ast.CompositeLit); ok && lit == nil {
			lit = cl
		}
		return true
	})
	if lit == nil {
		c.Undecided("descriptor() does not return a composite literal")
	}
	var paths []string
	env := &symEnv{p: p, vars: map[types.Object]string{recv: "L"}, idx: map[types.Object]string{}}
	for _, e := range lit.Elts {
		v := e
		if kv, ok := e.(*ast.KeyValueExpr); ok {
			v = kv.Value
		}
		s, ok := env.resolve(v)
		if !ok || !strings.HasPrefix(s, "L.") {
			// a field computed from something else than a plain field of the
			// diagnostic: record the expression text so that it can never be
			// found in the comparator
			paths = append(paths, "<"+types.ExprString(v)+">")
			continue
		}
		paths = append(paths, strings.TrimPrefix(s, "L."))
	}
	return paths, recv.Type()
}

func runC12(c *Ctx) {
	lp := c.Pkg("lintcmd")

	var chain []string
	var chainPos token.Pos
	var elemT types.Type
	getChain := func() {
		if chain != nil {
			return
		}
		fd, p := c.Decl("lintcmd", "(*Command).printDiagnostics")
		lit, call := findSortComparator(p, fd.Body)
		if lit == nil {
			c.Undecided("printDiagnostics no longer sorts with a comparator literal")
		}
		chainPos = call.Pos()
		chain = comparatorChain(c, p, lit)
		_, elemT = descriptorPaths(c)
		chain = expandLeaves(elemT, chain)
	}

	c.Rule("R12.1", func() {
		c.Floor("R12.1", 8)
		getChain()
		dpaths, _ := descriptorPaths(c)
		dleaves := expandLeaves(elemT, dpaths)
		pos := map[string]int{}
		for i, f := range chain {
			if _, dup := pos[f]; !dup {
				pos[f] = i
			}
		}
		bIdx, hasBuild := pos["BuildName"]
		c.Note("R12.1: comparator chain = %v; descriptor leaves = %v", chain, dleaves)
		key := FuncKey(c.Func("lintcmd", "(*Command).printDiagnostics")) + "::comparator"
		for _, d := range dleaves {
			if why, ok := offsetExempt[d]; ok {
				c.CheckTrivial(key+"::"+d, chainPos, true, "exempt: %s", why)
				continue
			}
			i, compared := pos[d]
			ok := compared && (!hasBuild || i < bIdx)
			c.Check(key+"::"+d, chainPos, ok,
				"descriptor field %s must be compared before BuildName so that problems differing only in build name are adjacent for de-duplication (compared: %v, position %d, BuildName at %d; chain %v)", d, compared, i, bIdx, chain)
		}
		// the de-duplication loop merges build names exactly when descriptors are equal
		pd := c.Func("lintcmd", "(*Command).printDiagnostics")
		usesDesc := len(CallsTo(pd, false, lintcmdPkg+".diagnostic.descriptor")) >= 2
		c.Check(FuncKey(pd)+"::dedupe-by-descriptor", pd.Pos(), usesDesc, "adjacent problems are merged when their descriptor() values are equal")
	})

	c.Rule("R12.2", func() {
		c.Floor("R12.2", 2)
		mr := c.Func("lintcmd", "mergeRuns")
		ms := c.NamedType("analysis/lint", "MergeStrategy")
		scope := c.Pkg("analysis/lint").Types.Scope()
		consts := map[int64]string{}
		for _, n := range scope.Names() {
			if k, ok := scope.Lookup(n).(*types.Const); ok && types.Identical(k.Type(), ms) {
				v, _ := constant.Int64Val(k.Val())
				consts[v] = n
			}
		}
		if len(consts) < 2 {
			c.Undecided("fewer than two MergeStrategy constants")
		}
		handled := map[int64]bool{}
		for _, b := range mr.Blocks {
			iff, ok := b.Instrs[len(b.Instrs)-1].(*ssa.If)
			if !ok {
				continue
			}
			bo, ok := iff.Cond.(*ssa.BinOp)
			if !ok || bo.Op != token.EQL || !types.Identical(bo.X.Type(), ms) {
				continue
			}
			if k, ok := ConstInt(bo.Y); ok {
				handled[k] = true
			}
		}
		var vals []int64
		for v := range consts {
			vals = append(vals, v)
		}
		sort.Slice(vals, func(i, j int) bool { return vals[i] < vals[j] })
		for _, v := range vals {
			c.Check(FuncKey(mr)+"::case-"+consts[v], mr.Pos(), handled[v], "mergeRuns must handle merge strategy %s; an unhandled strategy silently drops every problem of such checks", consts[v])
		}
	})

	c.Rule("R12.3", func() {
		c.Floor("R12.3", 5)
		mr := c.Func("lintcmd", "mergeRuns")
		ms := c.NamedType("analysis/lint", "MergeStrategy")
		scope := c.Pkg("analysis/lint").Types.Scope()
		val := func(name string) int64 {
			k, ok := scope.Lookup(name).(*types.Const)
			if !ok {
				c.Undecided("anchor-missing lint.%s", name)
			}
			v, _ := constant.Int64Val(k.Val())
			return v
		}
		anyV, allV := val("MergeIfAny"), val("MergeIfAll")
		caseEdges := func(v int64) map[Edge]bool {
			return EqEdges(mr, func(x, y ssa.Value) bool {
				k, ok := ConstInt(y)
				return ok && k == v && types.Identical(x.Type(), ms)
			})
		}
		anyE, allE := caseEdges(anyV), caseEdges(allV)
		var appends []*ssa.Call
		Instrs(mr, false, func(in ssa.Instruction) {
			if call, ok := in.(*ssa.Call); ok && IsCallTo(call, "builtin.append") {
				appends = append(appends, call)
			}
		})
		// doPrint: a bool phi with a constant false input
		var doPrint *ssa.Phi
		Instrs(mr, false, func(in ssa.Instruction) {
			if phi, ok := in.(*ssa.Phi); ok && types.Identical(phi.Type(), types.Typ[types.Bool]) {
				for _, e := range phi.Edges {
					if k, ok := e.(*ssa.Const); ok && k.Value != nil && k.Value.String() == "false" {
						doPrint = phi
					}
				}
			}
		})
		if len(appends) < 2 {
			c.Undecided("mergeRuns no longer has one append per merge strategy")
		}
		printEdges := map[Edge]bool{}
		if doPrint != nil {
			printEdges = CondEdges(mr, func(cond ssa.Value) (bool, bool) { return cond == ssa.Value(doPrint), true })
		}
		nAny, nAll := 0, 0
		for _, a := range appends {
			inAny, _ := MustPassEdges(mr, a, anyE)
			inAll, _ := MustPassEdges(mr, a, allE)
			switch {
			case inAny:
				nAny++
				c.Check(FuncKey(mr)+"::any-kept", a.Pos(), true, "a problem of an 'any' check is kept whenever some run reported it")
			case inAll:
				nAll++
				ok, path := MustPassEdges(mr, a, printEdges)
				c.Check(FuncKey(mr)+"::all-kept-only-if-doPrint", a.Pos(), ok, "a problem of an 'all' check is appended only under the doPrint flag; path: %s", PathString(mr, path))
			}
		}
		if nAny == 0 || nAll == 0 {
			c.Undecided("could not attribute the appends of mergeRuns to the 'any' and 'all' cases")
		}
		// doPrint = false only when the run checked the file and lacks the descriptor
		checked := CondEdges(mr, func(cond ssa.Value) (bool, bool) {
			e, ok := cond.(*ssa.Extract)
			if !ok || e.Index != 1 {
				return false, false
			}
			l, ok := e.Tuple.(*ssa.Lookup)
			return ok && DerivesLocal(l.X, IsFieldOf("run", "checkedFiles")) && DerivesLocal(l.Index, IsFieldOf("token.Position", "Filename")), true
		})
		lacks := ComplementEdges(CondEdges(mr, func(cond ssa.Value) (bool, bool) {
			e, ok := cond.(*ssa.Extract)
			if !ok || e.Index != 1 {
				return false, false
			}
			l, ok := e.Tuple.(*ssa.Lookup)
			return ok && DerivesLocal(l.X, IsFieldOf("run", "diagnostics")) && DerivesLocal(l.Index, IsCallResult(lintcmdPkg+".diagnostic.descriptor")), true
		}))
		if doPrint == nil {
			c.Check(FuncKey(mr)+"::all-veto-flag", mr.Pos(), false, "the 'all' case has no veto flag that a run lacking the descriptor can clear")
			return
		}
		blk := doPrint.Block()
		for i, e := range doPrint.Edges {
			k, ok := e.(*ssa.Const)
			if !ok || k.Value == nil || k.Value.String() != "false" {
				continue
			}
			pred := blk.Preds[i]
			last := pred.Instrs[len(pred.Instrs)-1]
			ok1, p1 := MustPassEdges(mr, last, checked)
			c.Check(FuncKey(mr)+"::veto-only-by-runs-that-checked-the-file", last.Pos(), ok1 && len(checked) > 0, "doPrint may be cleared only for a run whose checkedFiles contains the problem's file; path: %s", PathString(mr, p1))
			ok2, p2 := MustPassEdges(mr, last, lacks)
			c.Check(FuncKey(mr)+"::veto-only-if-descriptor-missing", last.Pos(), ok2 && len(lacks) > 0, "doPrint may be cleared only if that run lacks the problem's descriptor; path: %s", PathString(mr, p2))
		}
		// the quantification is over the whole runs parameter: the inner loop's bound is len(runs) of the parameter
		whole := false
		Instrs(mr, false, func(in ssa.Instruction) {
			call, ok := in.(*ssa.Call)
			if !ok || !IsCallTo(call, "builtin.len") {
				return
			}
			if _, isParam := call.Call.Args[0].(*ssa.Parameter); isParam && MustPassAny(mr, call, allE) {
				whole = true
			}
		})
		// and the looked-up run comes from indexing that parameter
		fromParam := false
		Instrs(mr, false, func(in ssa.Instruction) {
			l, ok := in.(*ssa.Lookup)
			if !ok || !DerivesLocal(l.X, IsFieldOf("run", "checkedFiles")) {
				return
			}
			fromParam = DerivesLocal(l.X, func(v ssa.Value) bool {
				ia, ok := v.(*ssa.IndexAddr)
				if !ok {
					return false
				}
				_, isParam := ia.X.(*ssa.Parameter)
				return isParam
			})
		})
		c.Check(FuncKey(mr)+"::all-quantifies-over-the-whole-runs-slice", mr.Pos(), whole && fromParam, "the 'all' test must consider every run passed to mergeRuns (bound len(runs): %v, elements of runs: %v); a sub-slice makes the result depend on the order of runs", whole, fromParam)
	})

	c.Rule("R12.4", func() {
		c.Floor("R12.4", 5)
		lint := c.Func("lintcmd", "(*Command).lint")
		dpaths, _ := descriptorPaths(c)
		// position-typed descriptor fields
		var posFields []string
		for _, d := range dpaths {
			if t := fieldTypeAt(elemTypeOf(c), d); t != nil && strings.HasSuffix(t.String(), "token.Position") {
				posFields = append(posFields, d)
			}
		}
		if len(posFields) == 0 {
			c.Undecided("descriptor has no position fields")
		}
		type st struct {
			closure ssa.Value
			zero    bool
		}
		found := map[string]st{}
		Instrs(lint, true, func(in ssa.Instruction) {
			s, ok := in.(*ssa.Store)
			if !ok {
				return
			}
			ap := AccessPath(s.Addr)
			for _, pf := range posFields {
				if strings.Contains(ap, ".Related") {
					continue
				}
				if strings.HasSuffix(ap, "."+pf+".Filename") {
					if call, ok := s.Val.(*ssa.Call); ok {
						if _, isMC := call.Call.Value.(*ssa.MakeClosure); isMC && len(call.Call.Args) == 1 && AccessPath(call.Call.Args[0]) == ap {
							found[pf+".Filename"] = st{closure: call.Call.Value}
						}
					}
				}
				if strings.HasSuffix(ap, "."+pf+".Offset") {
					if k, ok := ConstInt(s.Val); ok && k == 0 {
						found[pf+".Offset"] = st{zero: true}
					}
				}
			}
			if strings.HasSuffix(ap, ".CheckedFiles[]") {
				if call, ok := s.Val.(*ssa.Call); ok {
					if _, isMC := call.Call.Value.(*ssa.MakeClosure); isMC {
						found["CheckedFiles"] = st{closure: call.Call.Value}
					}
				}
			}
		})
		var norm ssa.Value
		if f, ok := found["CheckedFiles"]; ok {
			norm = f.closure
		}
		c.Check(FuncKey(lint)+"::CheckedFiles-normalised", lint.Pos(), norm != nil, "-f binary rewrites every checked file name with the path-normalising closure")
		for _, pf := range posFields {
			f, ok := found[pf+".Filename"]
			c.Check(FuncKey(lint)+"::"+pf+".Filename-normalised-like-CheckedFiles", lint.Pos(), ok && norm != nil && sameClosureFn(f.closure, norm),
				"%s.Filename must be rewritten with the same function as the checked files: mergeRuns looks the one up by the other, and descriptors from different machines must compare equal", pf)
			z := found[pf+".Offset"]
			c.Check(FuncKey(lint)+"::"+pf+".Offset-cleared", lint.Pos(), z.zero, "%s.Offset must be cleared: it is part of the descriptor and differs between checkouts with different line endings", pf)
		}
	})

	c.Rule("R12.5", func() {
		c.Floor("R12.5", 5)
		rf := c.Func("lintcmd", "runFromLintResult")
		keyed, files := false, false
		Instrs(rf, false, func(in ssa.Instruction) {
			mu, ok := in.(*ssa.MapUpdate)
			if !ok {
				return
			}
			if AddrFrom(mu.Map, IsFieldOf("run", "diagnostics")) || DerivesLocal(mu.Map, IsFieldOf("run", "diagnostics")) {
				if call, ok := mu.Key.(*ssa.Call); ok && IsCallTo(call, lintcmdPkg+".diagnostic.descriptor") && DerivesLocal(call.Call.Args[0], IsFieldOf("lintResult", "Diagnostics")) {
					if DerivesLocal(mu.Value, IsFieldOf("lintResult", "Diagnostics")) {
						keyed = true
					}
				}
			}
			if DerivesLocal(mu.Map, IsFieldOf("run", "checkedFiles")) && DerivesLocal(mu.Key, IsFieldOf("lintResult", "CheckedFiles")) {
				files = true
			}
		})
		c.Check(FuncKey(rf)+"::keyed-by-descriptor", rf.Pos(), keyed, "a run's problems are keyed by descriptor() of the problem itself")
		c.Check(FuncKey(rf)+"::records-checked-files", rf.Pos(), files, "every checked file of the result is recorded in the run")
		run := c.Func("lintcmd", "(*linter).run")
		stamped := false
		Instrs(run, false, func(in ssa.Instruction) {
			if s, ok := in.(*ssa.Store); ok && IsFieldOf("diagnostic", "BuildName")(s.Addr) && DerivesLocal(s.Val, IsFieldOf("buildConfig", "Name")) {
				if _, isIdx := s.Addr.(*ssa.FieldAddr).X.(*ssa.IndexAddr); isIdx {
					stamped = true
				}
			}
		})
		c.Check(FuncKey(run)+"::BuildName-stamped", run.Pos(), stamped, "every problem of a run carries the build configuration's name")
		// merge strategy: documentation → problem
		lintFn := c.Func("lintcmd", "(*linter).lint")
		fromDoc, u1000All := false, false
		scope := c.Pkg("analysis/lint").Types.Scope()
		allK, _ := scope.Lookup("MergeIfAll").(*types.Const)
		Instrs(lintFn, false, func(in ssa.Instruction) {
			s, ok := in.(*ssa.Store)
			if !ok || !IsFieldOf("diagnostic", "MergeIf")(s.Addr) {
				return
			}
			if DerivesLocal(s.Val, IsFieldOf("RawDocumentation", "MergeIf")) || DerivesLocal(s.Val, IsFieldOf("Documentation", "MergeIf")) {
				fromDoc = true
			}
			if k, ok := ConstInt(s.Val); ok && allK != nil {
				if v, _ := constant.Int64Val(allK.Val()); v == k {
					u1000All = true
				}
			}
		})
		c.Check(FuncKey(lintFn)+"::MergeIf-from-check-documentation", lintFn.Pos(), fromDoc, "a problem's merge strategy is its check's documented MergeIf")
		c.Check(FuncKey(lintFn)+"::U1000-is-MergeIfAll", lintFn.Pos(), u1000All, "U1000 problems, which the linter synthesises itself, are merged with the 'all' strategy")
	})
	// R12.6: the union of build names. When a problem has the same descriptor
	// as the one kept before it, its build name must be recorded on every path;
	// it may be skipped only under an exact equality test of the name (==, map
	// membership) or when the two problems are equal in all fields. A test that
	// relates the strings in any other way (prefix/suffix/contains) drops names.
	c.Rule("R12.6", func() {
		c.Floor("R12.6", 2)
		pd := c.Func("lintcmd", "(*Command).printDiagnostics")
		isDesc := func(v ssa.Value) bool {
			return Derives(v, IsCallResult(Module+"/lintcmd.diagnostic.descriptor"))
		}
		same := EqEdges(pd, func(x, y ssa.Value) bool { return isDesc(x) && isDesc(y) })
		if len(same) == 0 {
			c.Undecided("printDiagnostics no longer compares the descriptors of neighbouring problems")
		}
		isBuildName := IsFieldOf("lintcmd.diagnostic", "BuildName")
		fromBuildName := func(v ssa.Value) bool { return Derives(v, isBuildName) }
		record := func(in ssa.Instruction) bool {
			switch x := in.(type) {
			case *ssa.MapUpdate:
				return fromBuildName(x.Key)
			case *ssa.Store:
				return isBuildName(x.Addr) && fromBuildName(x.Val)
			case *ssa.Call:
				if IsCallTo(x, "builtin.append") && len(x.Call.Args) == 2 {
					return fromBuildName(x.Call.Args[1])
				}
			}
			return false
		}
		// exact tests of the name that may legitimately skip the record
		exact := UnionEdges(
			EqEdges(pd, func(x, y ssa.Value) bool { return fromBuildName(x) && fromBuildName(y) }),
			CondEdges(pd, func(cond ssa.Value) (bool, bool) {
				e, ok := cond.(*ssa.Extract)
				if !ok || e.Index != 1 {
					return false, false
				}
				lk, ok := e.Tuple.(*ssa.Lookup)
				return ok && lk.CommaOk && fromBuildName(lk.Index), true
			}),
			CallTrueEdges(pd, func(call *ssa.Call) bool { return CalleeName(&call.Call) == Module+"/lintcmd.diagnostic.equal" }),
		)
		n := 0
		for e := range same {
			var blk *ssa.BasicBlock
			for _, b := range pd.Blocks {
				if b.Index == e.Block {
					blk = b.Succs[e.Succ]
				}
			}
			if blk == nil {
				continue
			}
			first := blk.Instrs[0]
			t, path := PathAvoiding(pd, first, func(in ssa.Instruction) bool {
				if _, ok := in.(*ssa.Return); ok {
					return true
				}
				b := in.Block()
				return in == b.Instrs[0] && b != blk && strings.HasPrefix(b.Comment, "range") && strings.HasSuffix(b.Comment, ".loop") && b.Dominates(blk)
			}, record, exact)
			if record(first) {
				t = nil
			}
			c.Check(FuncKey(pd)+"::same-descriptor-records-build-name#"+itoa(n), first.Pos(), t == nil, "a problem with the same descriptor as the kept one must add its build name on every path (only an exact equality test of the name, or equality of the whole problem, may skip it): otherwise the merged problem is annotated with fewer builds than it occurred under; path: %s", PathString(pd, path))
			n++
		}
		// the names that are printed are the recorded ones: the final BuildName derives from a join/concatenation of recorded names
		joined := false
		Instrs(pd, false, func(in ssa.Instruction) {
			if st, ok := in.(*ssa.Store); ok && isBuildName(st.Addr) {
				if Derives(st.Val, IsCallResult("strings.Join")) || fromBuildName(st.Val) {
					joined = true
				}
			}
		})
		c.Check(FuncKey(pd)+"::kept-problem-gets-the-recorded-names", pd.Pos(), joined, "the kept problem's BuildName is rebuilt from the recorded names")
	})
	_ = lp
}

// MustPassAny reports whether every path to target uses one of the edges.
func MustPassAny(fn *ssa.Function, target ssa.Instruction, edges map[Edge]bool) bool {
	ok, _ := MustPassEdges(fn, target, edges)
	return ok && len(edges) > 0
}

func sameClosureFn(a, b ssa.Value) bool {
	ma, ok1 := a.(*ssa.MakeClosure)
	mb, ok2 := b.(*ssa.MakeClosure)
	return ok1 && ok2 && ma.Fn == mb.Fn

}

func elemTypeOf(c *Ctx) types.Type {
	return c.NamedType("lintcmd", "diagnostic")
}
