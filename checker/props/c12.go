package props

import (
	"go/ast"
	"go/constant"
	"go/token"
	"go/types"
	"sort"
	"strings"

	"golang.org/x/tools/go/packages"
	"golang.org/x/tools/go/ssa"

	. "verif/checker/engine"
)

const lintcmdPkg = Module + "/lintcmd"
const lintPkg = Module + "/analysis/lint"

// offsetExempt: descriptor leaves that the comparator need not compare.
var offsetExempt = map[string]string{
	"Position.Offset": "the byte offset is determined by (file, line, column) and is cleared in -f binary output, so it cannot distinguish two descriptors that agree on the compared fields",
	"End.Offset":      "as Position.Offset",
}

func init() {
	Register(&Property{
		ID:       "C12",
		Patterns: []string{"./lintcmd", "./analysis/lint"},
		NeedSSA:  true,
		Explanation: "Decides the structural conditions of run merging: the sort comparator orders by every field of the de-duplication key (diagnosticDescriptor, read from descriptor()) before the build name, so that equal descriptors are adjacent and their build names are unioned (R12.1); " +
			"mergeRuns has a case for every MergeStrategy constant, keeps 'any' problems unconditionally and 'all' problems only when no run that checked the file lacks the descriptor, quantifying over the whole runs slice (R12.2, R12.3); " +
			"the -f binary writer normalises checked files and both descriptor positions with the same function and clears their offsets (R12.4); runs are keyed by descriptor(), every checked file is recorded, BuildName is stamped on every problem, the merge strategy travels from the check's documentation to the problem (R12.5). " +
			"It does NOT decide commutativity/idempotence as algebraic laws over multisets of runs." +
			" Also decided: the reader shared by the per-run gob decoders of -merge input implements io.ByteReader (otherwise each decoder buffers ahead privately and later runs of a stream are lost)." +
			" (*linter).run leaves no state in the linter, so the runs of a -matrix are independent.",
		RuleText:    "comparator chain and descriptor/equality keys are extracted from the AST with symbolic resolution of local aliases; path rules on the SSA CFG",
		Assumptions: []string{"sort.Slice orders the slice consistently with a strict weak order"},
		Run:         runC12,
		Mutants: []Mutant{
			{Name: "run-keeps-its-environment-in-the-linter", File: "lintcmd/lint.go", Rule: "R12.8", KeyPart: "linter).run::leaves-no-state-in-the-linter",
				Old: "\tcfg.Env = append(os.Environ(), bconf.Envs...)\n", New: "\tl.opts.patterns = append(l.opts.patterns[:0:0], l.opts.patterns...)\n\tcfg.Env = append(os.Environ(), bconf.Envs...)\n"},
			{Name: "merge-reads-runs-from-an-unbuffered-file", File: "lintcmd/cmd.go", Rule: "R12.7", KeyPart: "decodeGob::reader-shared-by-successive-gob-decoders-is-a-ByteReader",
				Old: "\t\t\t\tbr := bufio.NewReader(f)\n\t\t\t\treturn decodeGob(br)\n", New: "\t\t\t\treturn decodeGob(f)\n",
				More: []Edit{{File: "lintcmd/cmd.go", Old: "func decodeGob(br io.ByteReader) ([]run, error) {", New: "func decodeGob(br io.Reader) ([]run, error) {"},
					{File: "lintcmd/cmd.go", Old: "gob.NewDecoder(br.(io.Reader)).Decode(&res)", New: "gob.NewDecoder(br).Decode(&res)"}}},
			{Name: "build-name-skipped-by-suffix-test", File: "lintcmd/cmd.go", Rule: "R12.6", KeyPart: "same-descriptor-records-build-name",
				Old: "\t\t\t\t\tbuilds[len(filtered)-1][diag.BuildName] = struct{}{}\n\t\t\t\t} else {", New: "\t\t\t\t\tif !strings.HasSuffix(filtered[len(filtered)-1].BuildName, diag.BuildName) {\n\t\t\t\t\t\tbuilds[len(filtered)-1][diag.BuildName] = struct{}{}\n\t\t\t\t\t}\n\t\t\t\t} else {"},
			{Name: "buildname-before-category", File: "lintcmd/cmd.go", Rule: "R12.1", KeyPart: "comparator",
				Old: "\t\t\tif di.Category != dj.Category {\n\t\t\t\treturn di.Category < dj.Category\n\t\t\t}\n\t\t\tif di.BuildName != dj.BuildName {\n\t\t\t\treturn di.BuildName < dj.BuildName\n\t\t\t}\n",
				New: "\t\t\tif di.BuildName != dj.BuildName {\n\t\t\t\treturn di.BuildName < dj.BuildName\n\t\t\t}\n\t\t\tif di.Category != dj.Category {\n\t\t\t\treturn di.Category < dj.Category\n\t\t\t}\n"},
			{Name: "no-end-in-comparator", File: "lintcmd/cmd.go", Rule: "R12.1", KeyPart: "comparator",
				Old: "\t\t\tif ei.Line != ej.Line {\n\t\t\t\treturn ei.Line < ej.Line\n\t\t\t}\n", New: ""},
			{Name: "descriptor-gains-field", File: "lintcmd/cmd.go", Rule: "R12.1", KeyPart: "comparator",
				Old: "type diagnosticDescriptor struct {\n\tPosition token.Position\n\tEnd      token.Position\n\tCategory string\n\tMessage  string\n}\n\nfunc (diag diagnostic) descriptor() diagnosticDescriptor {\n\treturn diagnosticDescriptor{\n\t\tPosition: diag.Position,",
				New: "type diagnosticDescriptor struct {\n\tPosition token.Position\n\tEnd      token.Position\n\tCategory string\n\tMessage  string\n\tFixes    int\n}\n\nfunc (diag diagnostic) descriptor() diagnosticDescriptor {\n\treturn diagnosticDescriptor{\n\t\tFixes:    len(diag.SuggestedFixes),\n\t\tPosition: diag.Position,"},
			{Name: "all-ignores-checked-files", File: "lintcmd/cmd.go", Rule: "R12.3", KeyPart: "checked",
				Old: "\t\t\t\t\tif _, ok := r.checkedFiles[diag.Position.Filename]; ok {\n\t\t\t\t\t\tif _, ok := r.diagnostics[diag.descriptor()]; !ok {\n\t\t\t\t\t\t\tdoPrint = false\n\t\t\t\t\t\t}\n\t\t\t\t\t}\n",
				New: "\t\t\t\t\tif _, ok := r.diagnostics[diag.descriptor()]; !ok {\n\t\t\t\t\t\tdoPrint = false\n\t\t\t\t\t}\n"},
			{Name: "all-appended-unconditionally", File: "lintcmd/cmd.go", Rule: "R12.3", KeyPart: "all",
				Old: "\t\t\t\tif doPrint {\n\t\t\t\t\trelevantDiagnostics = append(relevantDiagnostics, diag)\n\t\t\t\t}\n", New: "\t\t\t\t_ = doPrint\n\t\t\t\trelevantDiagnostics = append(relevantDiagnostics, diag)\n"},
			{Name: "all-only-later-runs", File: "lintcmd/cmd.go", Rule: "R12.3", KeyPart: "whole",
				Old: "\tfor _, r := range runs {\n\t\tfor _, diag := range r.diagnostics {", New: "\tfor ri, r := range runs {\n\t\truns := runs[ri:]\n\t\tfor _, diag := range r.diagnostics {"},
			{Name: "end-filename-not-relative", File: "lintcmd/cmd.go", Rule: "R12.4", KeyPart: "End.Filename",
				Old: "\t\t\t\td.End.Filename = relPath(d.End.Filename)\n", New: ""},
			{Name: "position-offset-kept", File: "lintcmd/cmd.go", Rule: "R12.4", KeyPart: "Position.Offset",
				Old: "\t\t\t\td.Position.Filename = relPath(d.Position.Filename)\n\t\t\t\td.Position.Offset = 0\n", New: "\t\t\t\td.Position.Filename = relPath(d.Position.Filename)\n"},
			{Name: "checked-files-not-relative", File: "lintcmd/cmd.go", Rule: "R12.4", KeyPart: "CheckedFiles",
				Old: "\t\t\t\tres.CheckedFiles[i] = relPath(s)\n", New: "\t\t\t\tres.CheckedFiles[i] = filepath.ToSlash(s)\n"},
			{Name: "mergeif-not-assigned", File: "lintcmd/lint.go", Rule: "R12.5", KeyPart: "MergeIf-from-check",
				Old: "\t\t\t\t\tfiltered[i].MergeIf = a.Doc.MergeIf\n", New: "\t\t\t\t\t_ = i\n"},
			{Name: "buildname-not-stamped", File: "lintcmd/lint.go", Rule: "R12.5", KeyPart: "BuildName",
				Old: "\tfor i := range res.Diagnostics {\n\t\tres.Diagnostics[i].BuildName = bconf.Name\n\t}\n", New: ""},
			{Name: "run-keyed-by-position-only", File: "lintcmd/cmd.go", Rule: "R12.5", KeyPart: "keyed",
				Old: "\t\tout.diagnostics[diag.descriptor()] = diag\n", New: "\t\tout.diagnostics[diagnosticDescriptor{Position: diag.Position}] = diag\n"},
		},
	})
}

// selectorPathsOf collects, for a function whose receiver/parameter is the
// element, the paths "x.y" selected on that parameter inside node.
func selectorPaths(p *packages.Package, node ast.Node, root types.Object) []string {
	seen := map[string]bool{}
	var out []string
	env := &symEnv{p: p, vars: map[types.Object]string{root: "L"}, idx: map[types.Object]string{}}
	ast.Inspect(node, func(n ast.Node) bool {
		se, ok := n.(*ast.SelectorExpr)
		if !ok {
			return true
		}
		if s, ok := env.resolve(se); ok && s == "L" {
			return false
		}
		if s, ok := env.resolve(se); ok && strings.HasPrefix(s, "L.") {
			pth := strings.TrimPrefix(s, "L.")
			if !seen[pth] {
				seen[pth] = true
				out = append(out, pth)
			}
			return false
		}
		return true
	})
	return out
}

// descriptorPaths reads the de-duplication key from (diagnostic).descriptor.
func descriptorPaths(c *Ctx) ([]string, types.Type) {
	fd, p := c.Decl("lintcmd", "diagnostic.descriptor")
	if fd.Recv == nil || len(fd.Recv.List) != 1 || len(fd.Recv.List[0].Names) != 1 {
		c.Undecided("descriptor has no named receiver")
	}
	recv := p.TypesInfo.ObjectOf(fd.Recv.List[0].Names[0])
	var lit *ast.CompositeLit
	ast.Inspect(fd.Body, func(n ast.Node) bool {
		if cl, ok := n.(*ast.CompositeLit); ok && lit == nil {
			lit = cl
		}
		return true
	})
	if lit == nil {
		c.Undecided("descriptor() does not return a composite literal")
	}
	var paths []string
	env := &symEnv{p: p, vars: map[types.Object]string{recv: "L"}, idx: map[types.Object]string{}}
	// locals that are copies of parts of the receiver: start, end := diag.Position, diag.End
	ast.Inspect(fd.Body, func(n ast.Node) bool {
		switch n := n.(type) {
		case *ast.AssignStmt:
			env.bind(n.Lhs, n.Rhs)
		case *ast.ValueSpec:
			var lhs []ast.Expr
			for _, nm := range n.Names {
				lhs = append(lhs, nm)
			}
			env.bind(lhs, n.Values)
		}
		return true
	})
	for _, e := range lit.Elts {
		v := e
		if kv, ok := e.(*ast.KeyValueExpr); ok {
			v = kv.Value
		}
		s, ok := env.resolve(v)
		if !ok || !strings.HasPrefix(s, "L.") {
			// a field computed from something else than a plain field of the
			// diagnostic: record the expression text so that it can never be
			// found in the comparator
			paths = append(paths, "<"+types.ExprString(v)+">")
			continue
		}
		paths = append(paths, strings.TrimPrefix(s, "L."))
	}
	return paths, recv.Type()
}

func runC12(c *Ctx) {
	lp := c.Pkg("lintcmd")

	var chain []string
	var chainPos token.Pos
	var elemT types.Type
	getChain := func() {
		if chain != nil {
			return
		}
		chain, chainPos = sortChainOf(c, "lintcmd", "(*Command).printDiagnostics")
		_, elemT = descriptorPaths(c)
		chain = expandLeaves(elemT, chain)
	}

	c.Rule("R12.1", func() {
		c.Floor("R12.1", 8)
		getChain()
		dpaths, _ := descriptorPaths(c)
		dleaves := expandLeaves(elemT, dpaths)
		pos := map[string]int{}
		for i, f := range chain {
			if _, dup := pos[f]; !dup {
				pos[f] = i
			}
		}
		bIdx, hasBuild := pos["BuildName"]
		c.Note("R12.1: comparator chain = %v; descriptor leaves = %v", chain, dleaves)
		key := FuncKey(c.Func("lintcmd", "(*Command).printDiagnostics")) + "::comparator"
		for _, d := range dleaves {
			if why, ok := offsetExempt[d]; ok {
				c.CheckTrivial(key+"::"+d, chainPos, true, "exempt: %s", why)
				continue
			}
			i, compared := pos[d]
			ok := compared && (!hasBuild || i < bIdx)
			c.Check(key+"::"+d, chainPos, ok,
				"descriptor field %s must be compared before BuildName so that problems differing only in build name are adjacent for de-duplication (compared: %v, position %d, BuildName at %d; chain %v)", d, compared, i, bIdx, chain)
		}
		// the de-duplication loop merges build names exactly when descriptors are equal
		pd := c.Func("lintcmd", "(*Command).printDiagnostics")
		usesDesc := len(descriptorEqEdges(pd)) > 0
		c.Check(FuncKey(pd)+"::dedupe-by-descriptor", pd.Pos(), usesDesc, "adjacent problems are merged when their descriptor() values are equal")
	})

	c.Rule("R12.2", func() {
		c.Floor("R12.2", 2)
		mr := c.Func("lintcmd", "mergeRuns")
		ms := c.NamedType("analysis/lint", "MergeStrategy")
		scope := c.Pkg("analysis/lint").Types.Scope()
		consts := map[int64]string{}
		for _, n := range scope.Names() {
			if k, ok := scope.Lookup(n).(*types.Const); ok && types.Identical(k.Type(), ms) {
				v, _ := constant.Int64Val(k.Val())
				consts[v] = n
			}
		}
		if len(consts) < 2 {
			c.Undecided("fewer than two MergeStrategy constants")
		}
		handled := map[int64]bool{}
		for _, b := range mr.Blocks {
			iff, ok := b.Instrs[len(b.Instrs)-1].(*ssa.If)
			if !ok {
				continue
			}
			bo, ok := iff.Cond.(*ssa.BinOp)
			if !ok || bo.Op != token.EQL || !types.Identical(bo.X.Type(), ms) {
				continue
			}
			if k, ok := ConstInt(bo.Y); ok {
				handled[k] = true
			}
		}
		var vals []int64
		for v := range consts {
			vals = append(vals, v)
		}
		sort.Slice(vals, func(i, j int) bool { return vals[i] < vals[j] })
		for _, v := range vals {
			c.Check(FuncKey(mr)+"::case-"+consts[v], mr.Pos(), handled[v], "mergeRuns must handle merge strategy %s; an unhandled strategy silently drops every problem of such checks", consts[v])
		}
	})

	c.Rule("R12.3", func() {
		c.Floor("R12.3", 5)
		mr := c.Func("lintcmd", "mergeRuns")
		ms := c.NamedType("analysis/lint", "MergeStrategy")
		scope := c.Pkg("analysis/lint").Types.Scope()
		val := func(name string) int64 {
			k, ok := scope.Lookup(name).(*types.Const)
			if !ok {
				c.Undecided("anchor-missing lint.%s", name)
			}
			v, _ := constant.Int64Val(k.Val())
			return v
		}
		anyV, allV := val("MergeIfAny"), val("MergeIfAll")
		caseEdges := func(v int64) map[Edge]bool {
			return EqEdges(mr, func(x, y ssa.Value) bool {
				k, ok := ConstInt(y)
				return ok && k == v && types.Identical(x.Type(), ms)
			})
		}
		anyE, allE := caseEdges(anyV), caseEdges(allV)
		var appends []*ssa.Call
		Instrs(mr, false, func(in ssa.Instruction) {
			if call, ok := in.(*ssa.Call); ok && IsCallTo(call, "builtin.append") {
				appends = append(appends, call)
			}
		})
		if len(appends) < 2 {
			c.Undecided("mergeRuns no longer has one append per merge strategy")
		}
		// the veto flag: the condition (other than the strategy test) whose true edge every 'all' append
		// passes — a boolean variable that is cleared in the loop over the runs, or the result of a
		// helper of the package that contains that loop
		var allAppends []*ssa.Call
		nAny := 0
		for _, a := range appends {
			if inAny, _ := MustPassEdges(mr, a, anyE); inAny {
				nAny++
				c.Check(FuncKey(mr)+"::any-kept", a.Pos(), true, "a problem of an 'any' check is kept whenever some run reported it")
			} else if inAll, _ := MustPassEdges(mr, a, allE); inAll {
				allAppends = append(allAppends, a)
			}
		}
		if nAny == 0 || len(allAppends) == 0 {
			c.Undecided("could not attribute the appends of mergeRuns to the 'any' and 'all' cases")
		}
		type vetoSite struct {
			fn *ssa.Function
			at ssa.Instruction
		}
		var vetoes []vetoSite
		var flag ssa.Value
		loopFn := mr // the function that holds the loop over the runs
		for _, b := range mr.Blocks {
			iff, ok := b.Instrs[len(b.Instrs)-1].(*ssa.If)
			if !ok {
				continue
			}
			cond, neg := StripNot(iff.Cond)
			if neg {
				continue
			}
			edge := map[Edge]bool{{Block: b.Index, Succ: 0}: true}
			guardsAll := true
			for _, a := range allAppends {
				if ok, _ := MustPassEdges(mr, a, edge); !ok {
					guardsAll = false
				}
			}
			if !guardsAll {
				continue
			}
			switch x := cond.(type) {
			case *ssa.Phi:
				var sites []vetoSite
				var expand func(phi *ssa.Phi, depth int)
				seenPhi := map[*ssa.Phi]bool{}
				expand = func(phi *ssa.Phi, depth int) {
					if seenPhi[phi] || depth > 4 {
						return
					}
					seenPhi[phi] = true
					for i, e := range phi.Edges {
						pred := phi.Block().Preds[i]
						if isBoolConst(e, false) {
							sites = append(sites, vetoSite{mr, pred.Instrs[len(pred.Instrs)-1]})
						} else if p2, ok := e.(*ssa.Phi); ok {
							expand(p2, depth+1)
						}
					}
				}
				expand(x, 0)
				if len(sites) > 0 {
					flag, vetoes = x, sites
				}
			case *ssa.Call:
				h := x.Call.StaticCallee()
				if h == nil || h.Blocks == nil || FuncPkgPath(h) != lintcmdPkg {
					continue
				}
				var sites []vetoSite
				okShape := true
				seenP := map[*ssa.Phi]bool{}
				var collect func(v ssa.Value, at ssa.Instruction, depth int)
				collect = func(v ssa.Value, at ssa.Instruction, depth int) {
					switch {
					case isBoolConst(v, false):
						sites = append(sites, vetoSite{h, at})
					case isBoolConst(v, true):
					default:
						phi, isPhi := v.(*ssa.Phi)
						if !isPhi || depth > 4 {
							okShape = false
							return
						}
						if seenP[phi] {
							return
						}
						seenP[phi] = true
						for i, e := range phi.Edges {
							pred := phi.Block().Preds[i]
							collect(e, pred.Instrs[len(pred.Instrs)-1], depth+1)
						}
					}
				}
				for _, r := range Returns(h) {
					collect(ReturnOperand(r, 0), r, 0)
				}
				if okShape && len(sites) > 0 {
					flag, vetoes, loopFn = x, sites, h
				}
			}
		}
		for _, a := range allAppends {
			c.Check(FuncKey(mr)+"::all-kept-only-if-doPrint", a.Pos(), flag != nil, "a problem of an 'all' check is appended only under the veto flag (a flag that a run which checked the file but lacks the problem can clear)")
		}
		if flag == nil {
			c.Check(FuncKey(mr)+"::all-veto-flag", mr.Pos(), false, "the 'all' case has no veto flag that a run lacking the descriptor can clear")
			return
		}
		// the flag is cleared only when the run checked the file and lacks the descriptor
		for _, vs := range vetoes {
			f := vs.fn
			checked := CondEdges(f, func(cond ssa.Value) (bool, bool) {
				e, ok := cond.(*ssa.Extract)
				if !ok || e.Index != 1 {
					return false, false
				}
				l, ok := e.Tuple.(*ssa.Lookup)
				return ok && DerivesLocal(l.X, IsFieldOf("run", "checkedFiles")) && DerivesLocal(l.Index, IsFieldOf("token.Position", "Filename")), true
			})
			lacks := ComplementEdges(CondEdges(f, func(cond ssa.Value) (bool, bool) {
				e, ok := cond.(*ssa.Extract)
				if !ok || e.Index != 1 {
					return false, false
				}
				l, ok := e.Tuple.(*ssa.Lookup)
				return ok && DerivesLocal(l.X, IsFieldOf("run", "diagnostics")) && Derives(l.Index, IsCallResult(lintcmdPkg+".diagnostic.descriptor")), true
			}))
			ok1, p1 := MustPassEdges(f, vs.at, checked)
			c.Check(FuncKey(mr)+"::veto-only-by-runs-that-checked-the-file", vs.at.Pos(), ok1 && len(checked) > 0, "the veto may be raised only for a run whose checkedFiles contains the problem's file; path: %s", PathString(f, p1))
			ok2, p2 := MustPassEdges(f, vs.at, lacks)
			c.Check(FuncKey(mr)+"::veto-only-if-descriptor-missing", vs.at.Pos(), ok2 && len(lacks) > 0, "the veto may be raised only if that run lacks the problem's descriptor; path: %s", PathString(f, p2))
		}
		// the quantification is over the whole runs parameter: the loop's bound is len(runs) of the parameter
		isRunsParam := func(v ssa.Value) bool {
			p, ok := v.(*ssa.Parameter)
			return ok && strings.Contains(p.Type().String(), "lintcmd.run")
		}
		whole := false
		Instrs(loopFn, false, func(in ssa.Instruction) {
			call, ok := in.(*ssa.Call)
			if !ok || !IsCallTo(call, "builtin.len") {
				return
			}
			if isRunsParam(call.Call.Args[0]) && (loopFn != mr || MustPassAny(mr, call, allE)) {
				whole = true
			}
		})
		if loopFn != mr {
			// the helper is handed mergeRuns' own runs parameter
			handed := false
			for _, ci := range Calls(mr, false) {
				if ci.Common().StaticCallee() == loopFn {
					for _, a := range ci.Common().Args {
						if isRunsParam(a) {
							handed = true
						}
					}
				}
			}
			whole = whole && handed
		}
		// and the looked-up run comes from indexing that parameter
		fromParam := false
		Instrs(loopFn, false, func(in ssa.Instruction) {
			l, ok := in.(*ssa.Lookup)
			if !ok || !DerivesLocal(l.X, IsFieldOf("run", "checkedFiles")) {
				return
			}
			fromParam = DerivesLocal(l.X, func(v ssa.Value) bool {
				ia, ok := v.(*ssa.IndexAddr)
				return ok && isRunsParam(ia.X)
			})
		})
		c.Check(FuncKey(mr)+"::all-quantifies-over-the-whole-runs-slice", mr.Pos(), whole && fromParam, "the 'all' test must consider every run passed to mergeRuns (bound len(runs): %v, elements of runs: %v); a sub-slice makes the result depend on the order of runs", whole, fromParam)
	})

	c.Rule("R12.4", func() {
		c.Floor("R12.4", 5)
		lint := c.Func("lintcmd", "(*Command).lint")
		dpaths, _ := descriptorPaths(c)
		// position-typed descriptor fields
		var posFields []string
		for _, d := range dpaths {
			if t := fieldTypeAt(elemTypeOf(c), d); t != nil && strings.HasSuffix(t.String(), "token.Position") {
				posFields = append(posFields, d)
			}
		}
		if len(posFields) == 0 {
			c.Undecided("descriptor has no position fields")
		}
		type st struct {
			closure ssa.Value
			zero    bool
		}
		found := map[string]st{}
		Instrs(lint, true, func(in ssa.Instruction) {
			s, ok := in.(*ssa.Store)
			if !ok {
				return
			}
			ap := AccessPath(s.Addr)
			for _, pf := range posFields {
				if strings.Contains(ap, ".Related") {
					continue
				}
				if strings.HasSuffix(ap, "."+pf+".Filename") {
					if call, ok := s.Val.(*ssa.Call); ok {
						if _, isMC := call.Call.Value.(*ssa.MakeClosure); isMC && len(call.Call.Args) == 1 && AccessPath(call.Call.Args[0]) == ap {
							found[pf+".Filename"] = st{closure: call.Call.Value}
						}
					}
				}
				if strings.HasSuffix(ap, "."+pf+".Offset") {
					if k, ok := ConstInt(s.Val); ok && k == 0 {
						found[pf+".Offset"] = st{zero: true}
					}
				}
			}
			if strings.HasSuffix(ap, ".CheckedFiles[]") {
				if call, ok := s.Val.(*ssa.Call); ok {
					if _, isMC := call.Call.Value.(*ssa.MakeClosure); isMC {
						found["CheckedFiles"] = st{closure: call.Call.Value}
					}
				}
			}
		})
		var norm ssa.Value
		if f, ok := found["CheckedFiles"]; ok {
			norm = f.closure
		}
		c.Check(FuncKey(lint)+"::CheckedFiles-normalised", lint.Pos(), norm != nil, "-f binary rewrites every checked file name with the path-normalising closure")
		for _, pf := range posFields {
			f, ok := found[pf+".Filename"]
			c.Check(FuncKey(lint)+"::"+pf+".Filename-normalised-like-CheckedFiles", lint.Pos(), ok && norm != nil && sameClosureFn(f.closure, norm),
				"%s.Filename must be rewritten with the same function as the checked files: mergeRuns looks the one up by the other, and descriptors from different machines must compare equal", pf)
			z := found[pf+".Offset"]
			c.Check(FuncKey(lint)+"::"+pf+".Offset-cleared", lint.Pos(), z.zero, "%s.Offset must be cleared: it is part of the descriptor and differs between checkouts with different line endings", pf)
		}
	})

	c.Rule("R12.5", func() {
		c.Floor("R12.5", 5)
		rf := c.Func("lintcmd", "runFromLintResult")
		keyed, files := false, false
		// the map that is (or becomes) run.<field>: the field itself, or a local map that is put into it
		isRunMap := func(m ssa.Value, field string) bool {
			if AddrFrom(m, IsFieldOf("run", field)) || DerivesLocal(m, IsFieldOf("run", field)) {
				return true
			}
			for _, v := range storedToField(rf, "lintcmd.run", field) {
				if v == m || Derives(v, func(x ssa.Value) bool { return x == m }) {
					return true
				}
				for x := range BackSlice(m, SliceOpts{}) {
					if x == v || Derives(v, func(y ssa.Value) bool { return y == x }) {
						if _, isMk := x.(*ssa.MakeMap); isMk {
							return true
						}
					}
				}
			}
			return false
		}
		Instrs(rf, false, func(in ssa.Instruction) {
			mu, ok := in.(*ssa.MapUpdate)
			if !ok {
				return
			}
			if isRunMap(mu.Map, "diagnostics") {
				if call, ok := mu.Key.(*ssa.Call); ok && IsCallTo(call, lintcmdPkg+".diagnostic.descriptor") && DerivesLocal(call.Call.Args[0], IsFieldOf("lintResult", "Diagnostics")) {
					if DerivesLocal(mu.Value, IsFieldOf("lintResult", "Diagnostics")) {
						keyed = true
					}
				}
			}
			if isRunMap(mu.Map, "checkedFiles") && DerivesLocal(mu.Key, IsFieldOf("lintResult", "CheckedFiles")) {
				files = true
			}
		})
		c.Check(FuncKey(rf)+"::keyed-by-descriptor", rf.Pos(), keyed, "a run's problems are keyed by descriptor() of the problem itself")
		c.Check(FuncKey(rf)+"::records-checked-files", rf.Pos(), files, "every checked file of the result is recorded in the run")
		run := c.Func("lintcmd", "(*linter).run")
		stamped := false
		Instrs(run, false, func(in ssa.Instruction) {
			if s, ok := in.(*ssa.Store); ok && IsFieldOf("diagnostic", "BuildName")(s.Addr) && DerivesLocal(s.Val, IsFieldOf("buildConfig", "Name")) {
				if _, isIdx := s.Addr.(*ssa.FieldAddr).X.(*ssa.IndexAddr); isIdx {
					stamped = true
				}
			}
		})
		c.Check(FuncKey(run)+"::BuildName-stamped", run.Pos(), stamped, "every problem of a run carries the build configuration's name")
		// merge strategy: documentation → problem
		lintFn := c.Func("lintcmd", "(*linter).lint")
		fromDoc, u1000All := false, false
		scope := c.Pkg("analysis/lint").Types.Scope()
		allK, _ := scope.Lookup("MergeIfAll").(*types.Const)
		Instrs(lintFn, false, func(in ssa.Instruction) {
			s, ok := in.(*ssa.Store)
			if !ok || !IsFieldOf("diagnostic", "MergeIf")(s.Addr) {
				return
			}
			if DerivesLocal(s.Val, IsFieldOf("RawDocumentation", "MergeIf")) || DerivesLocal(s.Val, IsFieldOf("Documentation", "MergeIf")) {
				fromDoc = true
			}
			if k, ok := ConstInt(s.Val); ok && allK != nil {
				if v, _ := constant.Int64Val(allK.Val()); v == k {
					u1000All = true
				}
			}
		})
		c.Check(FuncKey(lintFn)+"::MergeIf-from-check-documentation", lintFn.Pos(), fromDoc, "a problem's merge strategy is its check's documented MergeIf")
		c.Check(FuncKey(lintFn)+"::U1000-is-MergeIfAll", lintFn.Pos(), u1000All, "U1000 problems, which the linter synthesises itself, are merged with the 'all' strategy")
	})
	// R12.6: the union of build names. When a problem has the same descriptor
	// as the one kept before it, its build name must be recorded on every path;
	// it may be skipped only under an exact equality test of the name (==, map
	// membership) or when the two problems are equal in all fields. A test that
	// relates the strings in any other way (prefix/suffix/contains) drops names.
	c.Rule("R12.6", func() {
		c.Floor("R12.6", 2)
		pd := c.Func("lintcmd", "(*Command).printDiagnostics")
		same := descriptorEqEdges(pd)
		if len(same) == 0 {
			c.Undecided("printDiagnostics no longer compares the descriptors of neighbouring problems")
		}
		isBuildName := IsFieldOf("lintcmd.diagnostic", "BuildName")
		fromBuildName := func(v ssa.Value) bool { return Derives(v, isBuildName) }
		record := func(in ssa.Instruction) bool {
			switch x := in.(type) {
			case *ssa.MapUpdate:
				return fromBuildName(x.Key)
			case *ssa.Store:
				return isBuildName(x.Addr) && fromBuildName(x.Val)
			case *ssa.Call:
				if IsCallTo(x, "builtin.append") && len(x.Call.Args) == 2 {
					return fromBuildName(x.Call.Args[1])
				}
			}
			return false
		}
		// exact tests of the name that may legitimately skip the record
		exact := UnionEdges(
			EqEdges(pd, func(x, y ssa.Value) bool { return fromBuildName(x) && fromBuildName(y) }),
			CondEdges(pd, func(cond ssa.Value) (bool, bool) {
				e, ok := cond.(*ssa.Extract)
				if !ok || e.Index != 1 {
					return false, false
				}
				lk, ok := e.Tuple.(*ssa.Lookup)
				return ok && lk.CommaOk && fromBuildName(lk.Index), true
			}),
			CallTrueEdges(pd, func(call *ssa.Call) bool { return CalleeName(&call.Call) == Module+"/lintcmd.diagnostic.equal" }),
		)
		n := 0
		for e := range same {
			var blk *ssa.BasicBlock
			for _, b := range pd.Blocks {
				if b.Index == e.Block {
					blk = b.Succs[e.Succ]
				}
			}
			if blk == nil {
				continue
			}
			first := blk.Instrs[0]
			t, path := PathAvoiding(pd, first, func(in ssa.Instruction) bool {
				if _, ok := in.(*ssa.Return); ok {
					return true
				}
				b := in.Block()
				return in == b.Instrs[0] && b != blk && strings.HasPrefix(b.Comment, "range") && strings.HasSuffix(b.Comment, ".loop") && b.Dominates(blk)
			}, record, exact)
			if record(first) {
				t = nil
			}
			c.Check(FuncKey(pd)+"::same-descriptor-records-build-name#"+itoa(n), first.Pos(), t == nil, "a problem with the same descriptor as the kept one must add its build name on every path (only an exact equality test of the name, or equality of the whole problem, may skip it): otherwise the merged problem is annotated with fewer builds than it occurred under; path: %s", PathString(pd, path))
			n++
		}
		// the names that are printed are the recorded ones: the final BuildName derives from a join/concatenation of recorded names
		joined := false
		Instrs(pd, false, func(in ssa.Instruction) {
			if st, ok := in.(*ssa.Store); ok && isBuildName(st.Addr) {
				if Derives(st.Val, IsCallResult("strings.Join")) || fromBuildName(st.Val) {
					joined = true
				}
			}
		})
		c.Check(FuncKey(pd)+"::kept-problem-gets-the-recorded-names", pd.Pos(), joined, "the kept problem's BuildName is rebuilt from the recorded names")
	})
	// R12.7: the binary format is a concatenation of independent gob streams,
	// one per run, read back by one decoder per run from the SAME reader. A
	// gob.Decoder wraps a reader that is not an io.ByteReader in a private
	// bufio.Reader, which reads ahead: the next decoder then starts in the
	// middle of the stream (or at EOF) and later runs are silently lost. Every
	// reader that reaches a decoder created in a loop must therefore implement
	// io.ByteReader.
	c.Rule("R12.7", func() {
		c.Floor("R12.7", 1)
		n := 0
		hasReadByte := func(t types.Type) bool {
			ms := types.NewMethodSet(t)
			for i := 0; i < ms.Len(); i++ {
				if ms.At(i).Obj().Name() == "ReadByte" {
					return true
				}
			}
			return false
		}
		// concrete types that can reach value v (an interface), following parameters to the module's call sites
		var origins func(v ssa.Value, depth int, seen map[ssa.Value]bool) (concrete []types.Type, unknown []string)
		origins = func(v ssa.Value, depth int, seen map[ssa.Value]bool) ([]types.Type, []string) {
			var conc []types.Type
			var unk []string
			for x := range BackSlice(v, SliceOpts{}) {
				if seen[x] {
					continue
				}
				seen[x] = true
				switch x := x.(type) {
				case *ssa.MakeInterface:
					conc = append(conc, x.X.Type())
				case *ssa.Parameter:
					if !types.IsInterface(x.Type()) {
						continue
					}
					fn := x.Parent()
					idx := -1
					for i, p := range fn.Params {
						if p == x {
							idx = i
						}
					}
					sites := 0
					if depth < 3 {
						for _, caller := range c.ModuleFuncs() {
							for _, ci := range Calls(caller, false) {
								if ci.Common().StaticCallee() == fn && idx < len(ci.Common().Args) {
									sites++
									c2, u2 := origins(ci.Common().Args[idx], depth+1, seen)
									conc = append(conc, c2...)
									unk = append(unk, u2...)
								}
							}
						}
					}
					if sites == 0 {
						unk = append(unk, "parameter "+x.Name()+" of "+fn.String()+" (no call site found)")
					}
				case *ssa.Call:
					if types.IsInterface(x.Type()) {
						unk = append(unk, "result of "+CalleeName(&x.Call))
					} else if _, isTuple := x.Type().(*types.Tuple); !isTuple {
						// a concrete result used directly (bufio.NewReader(...)) is seen through MakeInterface
					}
				}
			}
			return conc, unk
		}
		for _, fn := range c.ModuleFuncs() {
			if FuncPkgPath(fn) != lintcmdPkg {
				continue
			}
			for _, ci := range CallsTo(fn, false, "encoding/gob.NewDecoder") {
				if !ReachesFrom(fn, ci, ci) {
					continue // a single decoder for the whole stream
				}
				n++
				arg := ci.Common().Args[0]
				conc, unk := origins(arg, 0, map[ssa.Value]bool{})
				var bad []string
				for _, t := range conc {
					if !hasReadByte(t) {
						bad = append(bad, TypeString(t))
					}
				}
				ok := len(bad) == 0 && len(unk) == 0 && len(conc) > 0
				c.Check(FuncKey(fn)+"::reader-shared-by-successive-gob-decoders-is-a-ByteReader", ci.Pos(), ok, "one gob.Decoder per run is created on the same reader; unless the reader implements io.ByteReader each decoder buffers ahead privately and the following runs of the stream are lost (readers without ReadByte: %v; undetermined: %v)", bad, unk)
			}
		}
		if n == 0 {
			c.Undecided("no gob.NewDecoder call in a loop found in lintcmd (the per-run decoding of -merge input)")
		}
	})
	// R12.8: -matrix is defined as merging one independent run per build
	// configuration. (*linter).run must therefore leave nothing behind in the
	// linter for the next configuration: it writes no field of the linter (an
	// environment list that is appended to and kept would carry GOOS/GOARCH of
	// one matrix line into the next one that does not set them).
	c.Rule("R12.8", func() {
		c.Floor("R12.8", 1)
		run := c.Func("lintcmd", "(*linter).run")
		bad := ""
		var badPos = run.Pos()
		for _, f := range append([]*ssa.Function{run}, run.AnonFuncs...) {
			for _, a := range FieldAccesses(f) {
				if a.Kind != "write" && a.Kind != "content" {
					continue
				}
				if st, ok := a.Instr.(*ssa.Store); ok {
					if AddrFrom(st.Addr, func(v ssa.Value) bool {
						fa, ok := v.(*ssa.FieldAddr)
						if !ok {
							return false
						}
						owner, _ := FieldOf(fa.X.Type(), fa.Field)
						return strings.HasSuffix(owner, "lintcmd.linter")
					}) {
						bad, badPos = a.Owner+"."+a.Field, st.Pos()
					}
				}
			}
		}
		c.Check(FuncKey(run)+"::leaves-no-state-in-the-linter", badPos, bad == "", "(*linter).run writes %s through the linter: state that survives a run makes the next build configuration of a -matrix depend on the previous one (and the result on the order of the matrix lines)", bad)
	})
	_ = lp
}

// MustPassAny reports whether every path to target uses one of the edges.
func MustPassAny(fn *ssa.Function, target ssa.Instruction, edges map[Edge]bool) bool {
	ok, _ := MustPassEdges(fn, target, edges)
	return ok && len(edges) > 0
}

func sameClosureFn(a, b ssa.Value) bool {
	ma, ok1 := a.(*ssa.MakeClosure)
	mb, ok2 := b.(*ssa.MakeClosure)
	return ok1 && ok2 && ma.Fn == mb.Fn

}

func elemTypeOf(c *Ctx) types.Type {
	return c.NamedType("lintcmd", "diagnostic")
}

// descriptorEqEdges returns the edges of fn on which two problems are known to
// have equal descriptors: a.descriptor() == b.descriptor(), spelled directly
// or through a helper of the package that returns that comparison.
func descriptorEqEdges(fn *ssa.Function) map[Edge]bool {
	isDesc := func(v ssa.Value) bool {
		return Derives(v, IsCallResult(lintcmdPkg+".diagnostic.descriptor"))
	}
	direct := EqEdges(fn, func(x, y ssa.Value) bool { return isDesc(x) && isDesc(y) })
	viaHelper := CondEdges(fn, func(cond ssa.Value) (bool, bool) {
		call, ok := cond.(*ssa.Call)
		if !ok {
			return false, false
		}
		h := call.Call.StaticCallee()
		if h == nil || h.Blocks == nil || FuncPkgPath(h) != lintcmdPkg || len(Returns(h)) != 1 {
			return false, false
		}
		r := Returns(h)[0]
		if len(r.Results) != 1 {
			return false, false
		}
		bo, ok := ReturnOperand(r, 0).(*ssa.BinOp)
		if !ok || (bo.Op != token.EQL && bo.Op != token.NEQ) || !isDesc(bo.X) || !isDesc(bo.Y) {
			return false, false
		}
		return true, bo.Op == token.EQL
	})
	return UnionEdges(direct, viaHelper)
}
