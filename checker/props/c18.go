package props

import (
	"go/ast"
	"go/token"
	"go/types"
	"strings"

	"golang.org/x/tools/go/packages"
	"golang.org/x/tools/go/ssa"

	. "verif/checker/engine"
)

const irPkg = Module + "/go/ir"

func init() {
	Register(&Property{
		ID:       "C18",
		Patterns: []string{"./go/ir/...", "./lintcmd/cache"},
		NeedSSA:  true,
		Explanation: "Decides the locking and once-only discipline of IR building: the guarded-by relation is read from the struct declarations (a mutex directly above the fields it guards) in go/ir and lintcmd/cache, and every access to a guarded field outside construction happens with that mutex held, here or at every call site (R18.1); " +
			"(*Package).build runs only through buildOnce.Do and Program.Build waits for every package (R18.2); each memo table of shared functions (method sets, on-demand methods, generic instances) is filled only on the miss edge of its own lookup with the function just created, which is tied to the creating builder's task and enqueued, while a hit registers a wait on the function found (R18.3); " +
			"every function that creates a builder iterates it on all paths, and iterate marks its task done before waiting and waits before returning (R18.4); Function.build is cleared only by done, which buildFunction calls after building and only for unbuilt functions (R18.5). " +
			"It does NOT decide equality of the IR across builds or the task-graph algorithm." +
			" Also decided: lookup and insertion of a memo are one critical section (the mutex held at the lookup is not released before the insertion).",
		RuleText:    "guarded-by pairs derived from declarations; lock-held dominance, guard-edge and must-pass-through path queries on the SSA CFG",
		Assumptions: []string{"sync.Mutex, sync.Once and channel close/receive give the happens-before edges of the Go memory model", "builders are used by one goroutine (documented: builders are not thread-safe)"},
		Run:         runC18,
		Mutants: []Mutant{
			{Name: "instance-created-outside-the-lock", File: "go/ir/instantiate.go", Rule: "R18.3", KeyPart: "generic.instances::lookup-and-insert-in-one-critical-section",
				Old: "\tinst, ok := gen.instances[key]\n\tif !ok {\n\t\tinst = createInstance(fn, rtargs, targs)\n", New: "\tinst, ok := gen.instances[key]\n\tif !ok {\n\t\tgen.instancesMu.Unlock()\n\t\tinst = createInstance(fn, rtargs, targs)\n\t\tgen.instancesMu.Lock()\n"},
			{Name: "edge-skipped-for-merely-done-task", File: "go/ir/task.go", Rule: "R18.6", KeyPart: "edge-omitted-only-if-target-transitively-done",
				Old: "\tif x == y || y.isTransitivelyDone() {\n", New: "\tif x == y || y.isDone() {\n",
				More: []Edit{{File: "go/ir/task.go", Old: "// addEdge creates an edge from x to y, indicating that\n", New: "func (x *task) isDone() bool {\n\tif x == nil {\n\t\treturn true\n\t}\n\tselect {\n\tcase <-x.done:\n\t\treturn true\n\tdefault:\n\t\treturn false\n\t}\n}\n\n// addEdge creates an edge from x to y, indicating that\n"}}},
			{Name: "transitively-done-means-done", File: "go/ir/task.go", Rule: "R18.6", KeyPart: "only-nil-or-transitive-flag",
				Old: "func (x *task) isTransitivelyDone() bool { return x == nil || x.transitive.Load() }\n", New: "func (x *task) isTransitivelyDone() bool {\n\tif x == nil || x.transitive.Load() {\n\t\treturn true\n\t}\n\tselect {\n\tcase <-x.done:\n\t\treturn true\n\tdefault:\n\t\treturn false\n\t}\n}\n"},
			{Name: "edges-read-before-task-done", File: "go/ir/task.go", Rule: "R18.6", KeyPart: "edges-read-after-done",
				Old: "\t\t<-u.done // wait for u to be marked done.\n", New: "",
				More: []Edit{{File: "go/ir/task.go", Old: "\t\t\t\twork = append(work, v)\n\t\t\t}\n\t\t}\n", New: "\t\t\t\twork = append(work, v)\n\t\t\t}\n\t\t}\n\t\t<-u.done\n"}}},
			{Name: "transitive-flag-set-during-bfs", File: "go/ir/task.go", Rule: "R18.6", KeyPart: "transitive-set-after-closure",
				Old: "\t\t<-u.done // wait for u to be marked done.\n", New: "\t\t<-u.done // wait for u to be marked done.\n\t\tu.transitive.Store(true)\n"},
			{Name: "successors-dropped-beyond-limit", File: "go/ir/task.go", Rule: "R18.6", KeyPart: "every-unseen-successor-enqueued",
				Old: "\t\t\t\tenqueued[v] = unit{}\n\t\t\t\twork = append(work, v)\n", New: "\t\t\t\tenqueued[v] = unit{}\n\t\t\t\tif len(work) < 4096 {\n\t\t\t\t\twork = append(work, v)\n\t\t\t\t}\n"},
			{Name: "instances-read-unlocked", File: "go/ir/instantiate.go", Rule: "R18.1", KeyPart: "generic.instances",
				Old: "\tgen.instancesMu.Lock()\n\tdefer gen.instancesMu.Unlock()\n\tinst, ok := gen.instances[key]\n", New: "\tinst, ok := gen.instances[key]\n\tgen.instancesMu.Lock()\n\tdefer gen.instancesMu.Unlock()\n"},
			{Name: "objectmethods-early-unlock", File: "go/ir/methods.go", Rule: "R18.1", KeyPart: "Program.objectMethods",
				Old: "\tprog.objectMethodsMu.Lock()\n\tdefer prog.objectMethodsMu.Unlock()\n\tfn, ok := prog.objectMethods[obj]\n", New: "\tprog.objectMethodsMu.Lock()\n\tfn, ok := prog.objectMethods[obj]\n\tprog.objectMethodsMu.Unlock()\n"},
			{Name: "filehash-read-unlocked", File: "lintcmd/cache/hash.go", Rule: "R18.1", KeyPart: "hashFileCache.m",
				Old: "\thashFileCache.Lock()\n\tout, ok := hashFileCache.m[file]\n\thashFileCache.Unlock()\n", New: "\tout, ok := hashFileCache.m[file]\n"},
			{Name: "build-without-once", File: "go/ir/builder.go", Rule: "R18.2", KeyPart: "Package.build",
				Old: "func (p *Package) Build() { p.buildOnce.Do(p.build) }", New: "func (p *Package) Build() { p.build() }"},
			{Name: "program-build-no-wait", File: "go/ir/builder.go", Rule: "R18.2", KeyPart: "waits-for-all",
				Old: "\t\t}\n\t}\n\twg.Wait()\n}", New: "\t\t}\n\t}\n}"},
			{Name: "instance-always-created", File: "go/ir/instantiate.go", Rule: "R18.3", KeyPart: "generic.instances",
				Old: "\tinst, ok := gen.instances[key]\n\tif !ok {\n", New: "\tinst, ok := gen.instances[key]\n\tif !ok || inst.build != nil {\n"},
			{Name: "hit-does-not-wait", File: "go/ir/instantiate.go", Rule: "R18.3", KeyPart: "hit-waits",
				Old: "\t} else {\n\t\tb.waitForSharedFunction(inst)\n\t}\n\treturn inst\n", New: "\t}\n\treturn inst\n"},
			{Name: "wrapper-not-shared", File: "go/ir/methods.go", Rule: "R18.3", KeyPart: "owned-by-this-builder",
				Old: "\t\t\t\tfn = createWrapper(prog, toSelection(sel), nil)\n\t\t\t\tfn.buildshared = b.shared()\n\t\t\t\tb.enqueue(fn)\n\t\t\t} else {\n\t\t\t\tfn = prog.objectMethod(obj, nil, &b)\n\t\t\t}",
				New: "\t\t\t\tfn = createWrapper(prog, toSelection(sel), nil)\n\t\t\t\tb.enqueue(fn)\n\t\t\t} else {\n\t\t\t\tfn = prog.objectMethod(obj, nil, &b)\n\t\t\t}"},
			{Name: "methodvalue-no-iterate", File: "go/ir/methods.go", Rule: "R18.4", KeyPart: "MethodValue",
				Old: "\t}()\n\n\tb.iterate()\n\n\treturn m\n", New: "\t}()\n\n\tif len(b.fns) > 0 {\n\t\tb.iterate()\n\t}\n\n\treturn m\n"},
			{Name: "wait-before-markdone", File: "go/ir/builder.go", Rule: "R18.4", KeyPart: "markDone-before-wait",
				Old: "\tb.buildshared.markDone()\n\tb.buildshared.wait()\n", New: "\tb.buildshared.wait()\n\tb.buildshared.markDone()\n"},
			{Name: "build-cleared-early", File: "go/ir/builder.go", Rule: "R18.5", KeyPart: "clears-Function.build",
				Old: "\t\tfn.build(b, fn)\n\t\tfn.done()\n", New: "\t\tbuild := fn.build\n\t\tfn.build = nil\n\t\tbuild(b, fn)\n\t\tfn.done()\n"},
			{Name: "done-skipped-on-external", File: "go/ir/builder.go", Rule: "R18.5", KeyPart: "done-after-build",
				Old: "\t\tfn.build(b, fn)\n\t\tfn.done()\n", New: "\t\tfn.build(b, fn)\n\t\tif fn.Blocks != nil {\n\t\t\tfn.done()\n\t\t}\n"},
		},
	})
}

// guardedFields derives (struct, mutex field) → guarded fields from the
// declaration convention "a mutex directly above the fields it guards".
type guardPair struct {
	Owner  string // pkgpath.Type or "global:pkgpath.var"
	Mutex  string
	Fields []string
}

func guardedFields(c *Ctx, p *packages.Package) []guardPair {
	var out []guardPair
	isMutex := func(t types.Type) bool {
		s := t.String()
		return s == "sync.Mutex" || s == "sync.RWMutex"
	}
	line := func(n ast.Node) int { return c.Fset.Position(n.Pos()).Line }
	endLine := func(n ast.Node) int { return c.Fset.Position(n.End()).Line }
	visitStruct := func(owner string, st *ast.StructType) {
		fields := st.Fields.List
		for i, f := range fields {
			t := p.TypesInfo.TypeOf(f.Type)
			if t == nil || !isMutex(t) {
				continue
			}
			mu := "Mutex"
			if len(f.Names) > 0 {
				mu = f.Names[0].Name
			} else if strings.HasSuffix(t.String(), "RWMutex") {
				mu = "RWMutex"
			}
			gp := guardPair{Owner: owner, Mutex: mu}
			prevEnd := endLine(f)
			for _, g := range fields[i+1:] {
				start := line(g)
				if g.Doc != nil {
					start = line(g.Doc)
				}
				if start != prevEnd+1 {
					break
				}
				// a comment group directly above counts as part of the run only if it is attached (Doc)
				for _, n := range g.Names {
					gp.Fields = append(gp.Fields, n.Name)
				}
				prevEnd = endLine(g)
			}
			if len(gp.Fields) > 0 {
				out = append(out, gp)
			}
		}
	}
	for _, file := range p.Syntax {
		ast.Inspect(file, func(n ast.Node) bool {
			switch n := n.(type) {
			case *ast.TypeSpec:
				if st, ok := n.Type.(*ast.StructType); ok {
					visitStruct(p.PkgPath+"."+n.Name.Name, st)
				}
			case *ast.ValueSpec:
				if st, ok := n.Type.(*ast.StructType); ok && len(n.Names) == 1 {
					visitStruct("global:"+p.PkgPath+"."+n.Names[0].Name, st)
				}
			}
			return true
		})
	}
	return out
}

func runC18(c *Ctx) {
	// all functions of the two packages, including closures
	var funcs []*ssa.Function
	for _, fn := range c.ModuleFuncs() {
		pp := FuncPkgPath(fn)
		if (pp == irPkg || pp == cachePkg) && len(fn.Blocks) > 0 {
			funcs = append(funcs, fn)
		}
	}

	c.Rule("R18.1", func() {
		c.Floor("R18.1", 20)
		var pairs []guardPair
		for _, rel := range []string{"go/ir", "lintcmd/cache"} {
			pairs = append(pairs, guardedFields(c, c.Pkg(rel))...)
		}
		if len(pairs) < 8 {
			c.Undecided("derived only %d mutex→fields groups from the struct declarations of go/ir and lintcmd/cache (expected the Program memo tables, generic.instances, canonizer, hashFileCache, hashDebug, ProgCache)", len(pairs))
		}
		for _, gp := range pairs {
			c.Note("R18.1: %s: %s guards %v", gp.Owner, gp.Mutex, gp.Fields)
		}
		// static callers, for "requires lock" helpers
		callers := map[*ssa.Function][]ssa.CallInstruction{}
		for _, fn := range funcs {
			for _, ci := range Calls(fn, false) {
				if callee := ci.Common().StaticCallee(); callee != nil {
					callers[callee] = append(callers[callee], ci)
				}
			}
		}
		for _, gp := range pairs {
			isGuarded := func(in ssa.Instruction) (string, ssa.Value, bool) {
				fa, ok := in.(*ssa.FieldAddr)
				if !ok {
					return "", nil, false
				}
				owner, f := FieldOf(fa.X.Type(), fa.Field)
				if f == nil {
					return "", nil, false
				}
				match := false
				if strings.HasPrefix(gp.Owner, "global:") {
					if g, ok := fa.X.(*ssa.Global); ok && "global:"+g.Pkg.Pkg.Path()+"."+g.Name() == gp.Owner {
						match = true
					}
				} else if owner == gp.Owner {
					match = true
				}
				if !match {
					return "", nil, false
				}
				for _, name := range gp.Fields {
					if name == f.Name() {
						return name, fa.X, true
					}
				}
				return "", nil, false
			}
			for _, fn := range funcs {
				Instrs(fn, false, func(in ssa.Instruction) {
					field, base, ok := isGuarded(in)
					if !ok {
						return
					}
					c.SawFunc(fn.String())
					short := gp.Owner[strings.LastIndex(gp.Owner, "/")+1:]
					key := FuncKey(fn) + "::" + short + "." + field + "::held-" + gp.Mutex
					// object under construction: not yet shared
					if DerivesLocal(base, func(v ssa.Value) bool { al, ok := v.(*ssa.Alloc); return ok && al.Heap }) && !DerivesLocal(base, func(v ssa.Value) bool { _, ok := v.(*ssa.Parameter); return ok }) {
						c.CheckTrivial(key, in.Pos(), true, "object under construction in this function (not yet shared)")
						return
					}
					if held, _ := HeldAt(fn, in, gp.Mutex); held {
						c.Check(key, in.Pos(), true, "accessed with %s held", gp.Mutex)
						return
					}
					// helper that requires its callers to hold the lock
					cs := callers[fn]
					okCallers := len(cs) > 0
					for _, ci := range cs {
						if held, _ := HeldAt(ci.Parent(), ci, gp.Mutex); !held {
							okCallers = false
						}
					}
					c.Check(key, in.Pos(), okCallers, "%s.%s is declared directly below %s and must only be read or written with that mutex held (neither held here nor at every call site of this function)", short, field, gp.Mutex)
				})
			}
		}
	})

	c.Rule("R18.2", func() {
		c.Floor("R18.2", 2)
		buildObj := c.FuncObj("go/ir", "(*Package).build")
		n := 0
		for _, fn := range funcs {
			Instrs(fn, false, func(in ssa.Instruction) {
				// direct calls
				if ci, ok := in.(ssa.CallInstruction); ok {
					if CalleeObj(ci.Common()) == buildObj && !strings.HasSuffix(fn.Name(), "$bound") {
						n++
						c.Check(FuncKey(fn)+"::direct-call-of-Package.build", in.Pos(), false, "(*Package).build must run only through buildOnce.Do; a direct call builds the package twice or concurrently")
					}
				}
				// method values
				mc, ok := in.(*ssa.MakeClosure)
				if !ok {
					return
				}
				bf, _ := mc.Fn.(*ssa.Function)
				if bf == nil || !strings.HasSuffix(bf.Name(), "build$bound") || !strings.Contains(bf.String(), "Package") {
					return
				}
				n++
				okUse := true
				for _, r := range *mc.Referrers() {
					ci, isCall := r.(ssa.CallInstruction)
					if !isCall || !IsCallTo(ci, "sync.Once.Do") {
						okUse = false
						continue
					}
					// the Once is the buildOnce field of the same package value
					recv := ci.Common().Args[0]
					if !AddrFrom(recv, IsFieldOf("ir.Package", "buildOnce")) || AccessPath(recv) != AccessPath(mc.Bindings[0])+".buildOnce" {
						okUse = false
					}
				}
				c.Check(FuncKey(fn)+"::build-only-through-buildOnce", in.Pos(), okUse, "the method value p.build may only be handed to p.buildOnce.Do")
			})
		}
		if n == 0 {
			c.Undecided("no reference to (*Package).build found")
		}
		// Program.Build waits for all package builds
		pb := c.Func("go/ir", "(*Program).Build")
		isWait := func(in ssa.Instruction) bool {
			ci, ok := in.(ssa.CallInstruction)
			return ok && IsCallTo(ci, "sync.WaitGroup.Wait")
		}
		for i, r := range Returns(pb) {
			t, path := PathAvoiding(pb, nil, func(in ssa.Instruction) bool { return in == ssa.Instruction(r) }, isWait, nil)
			c.Check(FuncKey(pb)+"::waits-for-all-packages#"+itoa(i), r.Pos(), t == nil, "Program.Build returns only after wg.Wait(); path: %s", PathString(pb, path))
		}
		for _, an := range pb.AnonFuncs {
			callsBuild, callsDone := false, false
			for _, ci := range Calls(an, false) {
				if IsCallTo(ci, irPkg+".Package.Build") {
					callsBuild = true
				}
				if IsCallTo(ci, "sync.WaitGroup.Done") {
					callsDone = true
				}
			}
			c.Check(FuncKey(an)+"::builds-then-Done", an.Pos(), callsBuild && callsDone, "each package goroutine builds its package through the once-guarded Build and signals the WaitGroup")
		}
	})

	c.Rule("R18.3", func() {
		c.Floor("R18.3", 9)
		type memo struct {
			fn    *ssa.Function
			name  string
			isMap func(v ssa.Value) bool
		}
		mv := c.Func("go/ir", "(*Program).MethodValue")
		if len(mv.AnonFuncs) == 0 {
			c.Undecided("MethodValue no longer has its locked closure")
		}
		memos := []memo{
			{mv.AnonFuncs[0], "methodSet.mapping", func(v ssa.Value) bool { return DerivesLocal(v, IsFieldOf("ir.methodSet", "mapping")) }},
			{c.Func("go/ir", "(*Program).objectMethod"), "Program.objectMethods", func(v ssa.Value) bool { return DerivesLocal(v, IsFieldOf("ir.Program", "objectMethods")) }},
			{c.Func("go/ir", "(*Function).instance"), "generic.instances", func(v ssa.Value) bool { return DerivesLocal(v, IsFieldOf("ir.generic", "instances")) }},
		}
		isCreate := func(v ssa.Value) bool {
			call, ok := v.(*ssa.Call)
			if !ok {
				return false
			}
			n := CalleeName(&call.Call)
			if n == irPkg+".Program.objectMethod" {
				// creation by delegation (MethodValue); objectMethod's own recursion for generic origins is not a creation
				return call.Parent().Name() != "objectMethod"
			}
			return strings.HasPrefix(n, irPkg+".create")
		}
		for _, m := range memos {
			fn := m.fn
			var lookups []*ssa.Lookup
			var updates []*ssa.MapUpdate
			Instrs(fn, false, func(in ssa.Instruction) {
				switch x := in.(type) {
				case *ssa.Lookup:
					if x.CommaOk && m.isMap(x.X) {
						lookups = append(lookups, x)
					}
				case *ssa.MapUpdate:
					if m.isMap(x.Map) {
						updates = append(updates, x)
					}
				}
			})
			if len(lookups) != 1 || len(updates) != 1 {
				c.Undecided("%s: expected one lookup and one insertion of %s, found %d/%d", fn, m.name, len(lookups), len(updates))
			}
			lk, up := lookups[0], updates[0]
			hit := CondEdges(fn, func(cond ssa.Value) (bool, bool) {
				e, ok := cond.(*ssa.Extract)
				return ok && e.Tuple == ssa.Value(lk) && e.Index == 1, true
			})
			miss := ComplementEdges(hit)
			key := FuncKey(fn) + "::" + m.name
			ok, path := MustPassEdges(fn, up, miss)
			c.Check(key+"::insert-only-on-miss", up.Pos(), ok && len(miss) > 0, "the memo table is filled only on the miss edge of its own lookup (create exactly once); path: %s", PathString(fn, path))
			// check-then-act is one critical section: no Unlock of a mutex held at
			// the lookup lies on a path from the lookup to the insertion (two
			// builders that both miss would each create their own function).
			{
				released := ""
				for _, op := range LockOps(fn) {
					if !op.Unlock || op.Deferred {
						continue
					}
					if held, _ := HeldAt(fn, lk, op.Path); !held {
						continue
					}
					if ReachesFrom(fn, lk, op.Instr) && ReachesFrom(fn, op.Instr, up) {
						released = op.Path
					}
				}
				c.Check(key+"::lookup-and-insert-in-one-critical-section", up.Pos(), released == "", "the mutex held at the lookup (%s) is released before the insertion: two builders can both miss and both create the function, so it is no longer created exactly once", released)
			}
			c.Check(key+"::same-key", up.Pos(), AddrKeyOfLoad(up.Key) == AddrKeyOfLoad(lk.Index) || up.Key == lk.Index, "the key inserted is the key that was looked up")
			c.Check(key+"::inserts-created-function", up.Pos(), DerivesLocal(up.Value, isCreate), "the value inserted is the function just created")
			// creation only on the miss edge
			Instrs(fn, false, func(in ssa.Instruction) {
				call, ok := in.(*ssa.Call)
				if !ok || !isCreate(call) {
					return
				}
				ok2, p2 := MustPassEdges(fn, call, miss)
				c.Check(key+"::create-only-on-miss::"+LastField(CalleeName(&call.Call)), call.Pos(), ok2, "a shared function is created only when the lookup missed; path: %s", PathString(fn, p2))
			})
			// on a miss the function is tied to this builder's task and enqueued before it is published
			var shared, enq bool
			Instrs(fn, false, func(in ssa.Instruction) {
				if st, ok := in.(*ssa.Store); ok && IsFieldOf("ir.Function", "buildshared")(st.Addr) && DerivesLocal(st.Val, IsCallResult(irPkg+".builder.shared")) {
					if ok, _ := MustPassEdges(fn, st, miss); ok {
						shared = true
					}
				}
				if ci, ok := in.(ssa.CallInstruction); ok && IsCallTo(ci, irPkg+".builder.enqueue") {
					if ok, _ := MustPassEdges(fn, ci, miss); ok {
						enq = true
					}
				}
			})
			// objectMethod delegates both to itself for instances; require them where a create* call exists
			c.Check(key+"::created-function-owned-by-this-builder", up.Pos(), shared && enq, "on a miss the new function gets buildshared = b.shared() and is enqueued, so other builders can wait for it (buildshared set: %v, enqueued: %v)", shared, enq)
			// on a hit the builder waits for the function
			waits := false
			for _, ci := range CallsTo(fn, false, irPkg+".builder.waitForSharedFunction") {
				if ok, _ := MustPassEdges(fn, ci, hit); ok && DerivesLocal(ci.Common().Args[1], func(v ssa.Value) bool { return v == ssa.Value(lk) }) {
					waits = true
				}
			}
			c.Check(key+"::hit-waits-for-shared-function", lk.Pos(), waits, "on a hit the builder registers a dependency on the function found, so it is fully built when Build returns")
		}
	})

	c.Rule("R18.4", func() {
		c.Floor("R18.4", 4)
		n := 0
		for _, fn := range funcs {
			Instrs(fn, false, func(in ssa.Instruction) {
				al, ok := in.(*ssa.Alloc)
				if !ok || !strings.HasSuffix(al.Type().String(), "ir.builder") {
					return
				}
				if al.Comment == "complit" && !al.Heap {
					// the temporary of a composite literal that is copied into the variable
					return
				}
				n++
				// the function that owns the builder: closures may use it, the owner must iterate
				isIter := func(x ssa.Instruction) bool {
					ci, ok := x.(ssa.CallInstruction)
					return ok && IsCallTo(ci, irPkg+".builder.iterate") && ci.Common().Args[0] == ssa.Value(al)
				}
				t, path := PathAvoiding(fn, al, func(x ssa.Instruction) bool { _, ok := x.(*ssa.Return); return ok }, isIter, nil)
				c.Check(FuncKey(fn)+"::builder-iterates-before-return", al.Pos(), t == nil, "a function that creates a builder must call iterate on it on every path, otherwise functions it enqueued (or shared functions it depends on) are not built when it returns; path: %s", PathString(fn, path))
			})
		}
		if n < 2 {
			c.Undecided("found %d builder values, expected (*Package).build and (*Program).MethodValue", n)
		}
		it := c.Func("go/ir", "(*builder).iterate")
		var md, wt ssa.Instruction
		for _, ci := range Calls(it, false) {
			if IsCallTo(ci, irPkg+".task.markDone") {
				md = ci
			}
			if IsCallTo(ci, irPkg+".task.wait") {
				wt = ci
			}
		}
		c.Check(FuncKey(it)+"::markDone-before-wait", it.Pos(), md != nil && wt != nil && InstrDominates(md, wt), "iterate marks its own task done before waiting (otherwise two builders waiting on each other deadlock) and waits before returning")
		for i, r := range Returns(it) {
			t, path := PathAvoiding(it, nil, func(x ssa.Instruction) bool { return x == ssa.Instruction(r) }, func(x ssa.Instruction) bool { return x == wt }, nil)
			c.Check(FuncKey(it)+"::waits-for-shared-functions#"+itoa(i), r.Pos(), wt != nil && t == nil, "iterate returns only after waiting for the shared functions it depends on; path: %s", PathString(it, path))
		}
		// all enqueued functions are built: the loop calls buildFunction
		c.Check(FuncKey(it)+"::builds-every-enqueued-function", it.Pos(), len(CallsTo(it, false, irPkg+".builder.buildFunction")) > 0, "iterate builds the enqueued functions")
		// wait blocks on the done channel of every reachable task
		w := c.Func("go/ir", "(*task).wait")
		recvDone := false
		Instrs(w, false, func(in ssa.Instruction) {
			if u, ok := in.(*ssa.UnOp); ok && u.Op.String() == "<-" && DerivesLocal(u.X, IsFieldOf("ir.task", "done")) {
				recvDone = true
			}
		})
		c.Check(FuncKey(w)+"::blocks-on-done", w.Pos(), recvDone, "wait receives from the done channel of the tasks it depends on")
	})

	c.Rule("R18.5", func() {
		c.Floor("R18.5", 3)
		for _, fn := range funcs {
			Instrs(fn, false, func(in ssa.Instruction) {
				st, ok := in.(*ssa.Store)
				if !ok || !IsFieldOf("ir.Function", "build")(st.Addr) || !IsNilConst(st.Val) {
					return
				}
				inDone := strings.Contains(fn.String(), "Function).done")
				c.Check(FuncKey(fn)+"::clears-Function.build", st.Pos(), inDone, "Function.build == nil means 'fully built'; it may be cleared only by (*Function).done")
			})
		}
		bf := c.Func("go/ir", "(*builder).buildFunction")
		// the dynamic call of fn.build
		var callBuild ssa.Instruction
		for _, ci := range Calls(bf, false) {
			if !ci.Common().IsInvoke() && ci.Common().StaticCallee() == nil && DerivesLocal(ci.Common().Value, IsFieldOf("ir.Function", "build")) {
				callBuild = ci
			}
		}
		if callBuild == nil {
			c.Undecided("buildFunction no longer calls fn.build")
		}
		isDone := func(x ssa.Instruction) bool {
			ci, ok := x.(ssa.CallInstruction)
			if !ok {
				return false
			}
			_, isDefer := x.(*ssa.Defer)
			return !isDefer && IsCallTo(ci, irPkg+".Function.done")
		}
		t, path := PathAvoiding(bf, callBuild, func(x ssa.Instruction) bool { _, ok := x.(*ssa.Return); return ok }, isDone, nil)
		c.Check(FuncKey(bf)+"::done-after-build", callBuild.Pos(), t == nil, "after fn.build ran, done() marks the function built on every path; path: %s", PathString(bf, path))
		nonNil := ComplementEdges(EqEdges(bf, func(x, y ssa.Value) bool { return IsNilConst(y) && DerivesLocal(x, IsFieldOf("ir.Function", "build")) }))
		ok, p2 := MustPassEdges(bf, callBuild, nonNil)
		c.Check(FuncKey(bf)+"::build-only-if-unbuilt", callBuild.Pos(), ok && len(nonNil) > 0, "a function is built only while its build field is non-nil (idempotence); path: %s", PathString(bf, p2))
	})
	// R18.6: the task graph. "x.wait() returns only when everything reachable
	// from x is done" needs: an edge is omitted only towards a task that is
	// itself transitively done; "transitively done" is only ever set after the
	// closure was waited for; wait reads a task's edges only after that task is
	// done (edges are added before markDone) and enqueues every unseen successor.
	c.Rule("R18.6", func() {
		c.Floor("R18.6", 5)
		addEdge := c.Func("go/ir", "(*task).addEdge")
		itd := c.Func("go/ir", "(*task).isTransitivelyDone")
		wait := c.Func("go/ir", "(*task).wait")
		isRet := func(in ssa.Instruction) bool { _, ok := in.(*ssa.Return); return ok }

		// (1) isTransitivelyDone: true only for nil or transitive.Load()
		{
			ok, why := true, ""
			Instrs(itd, false, func(in ssa.Instruction) {
				switch x := in.(type) {
				case *ssa.Select:
					ok, why = false, "it looks at a channel"
				case *ssa.UnOp:
					if x.Op == token.ARROW {
						ok, why = false, "it looks at a channel"
					}
				}
			})
			nilEdges := EqEdges(itd, func(x, y ssa.Value) bool { return IsNilConst(y) && x == ssa.Value(itd.Params[0]) })
			loads := 0
			for _, r := range Returns(itd) {
				var check func(v ssa.Value, from *ssa.BasicBlock)
				check = func(v ssa.Value, from *ssa.BasicBlock) {
					switch v := v.(type) {
					case *ssa.Phi:
						for i, e := range v.Edges {
							check(e, v.Block().Preds[i])
						}
					case *ssa.Const:
						if isBoolConst(v, true) {
							last := from.Instrs[len(from.Instrs)-1]
							if okp, _ := MustPassEdges(itd, last, nilEdges); !okp || len(nilEdges) == 0 {
								// the constant must be selected by the x == nil edge itself
								sel := false
								if iff, isIf := last.(*ssa.If); isIf {
									if b, isB := iff.Cond.(*ssa.BinOp); isB && b.Op == token.EQL && IsNilConst(b.Y) && b.X == ssa.Value(itd.Params[0]) {
										sel = true
									}
								}
								if !sel {
									ok, why = false, "returns true on a path that is not the nil-receiver case"
								}
							}
						}
					case *ssa.Call:
						if strings.HasSuffix(CalleeName(&v.Call), "atomic.Bool.Load") && DerivesLocal(v.Call.Args[0], IsFieldOf("ir.task", "transitive")) {
							loads++
						} else {
							ok, why = false, "returns the result of "+CalleeName(&v.Call)
						}
					default:
						ok, why = false, "returns a value that is neither the transitive flag nor the nil-receiver constant"
					}
				}
				check(ReturnOperand(r, 0), r.Block())
			}
			c.Check(FuncKey(itd)+"::only-nil-or-transitive-flag", itd.Pos(), ok && loads > 0, "isTransitivelyDone may answer true only for the nil task or when the transitive flag is set (a task whose own work is done may still be waiting for others): %s", why)
		}
		// (2) addEdge omits the edge only for x == y or a transitively done y
		{
			var upd ssa.Instruction
			Instrs(addEdge, false, func(in ssa.Instruction) {
				if mu, ok := in.(*ssa.MapUpdate); ok && DerivesLocal(mu.Map, IsFieldOf("ir.task", "edges")) && mu.Key == ssa.Value(addEdge.Params[1]) {
					upd = mu
				}
			})
			if upd == nil {
				c.Undecided("addEdge no longer records y in x.edges")
			}
			skip := UnionEdges(
				EqEdges(addEdge, func(x, y ssa.Value) bool {
					return x == ssa.Value(addEdge.Params[0]) && y == ssa.Value(addEdge.Params[1]) || y == ssa.Value(addEdge.Params[0]) && x == ssa.Value(addEdge.Params[1])
				}),
				CallTrueEdges(addEdge, func(call *ssa.Call) bool {
					return call.Call.StaticCallee() == itd && len(call.Call.Args) == 1 && call.Call.Args[0] == ssa.Value(addEdge.Params[1])
				}))
			t, path := PathAvoiding(addEdge, nil, isRet, func(in ssa.Instruction) bool { return in == upd }, skip)
			c.Check(FuncKey(addEdge)+"::edge-omitted-only-if-target-transitively-done", addEdge.Pos(), t == nil && len(skip) >= 2, "addEdge may drop the edge x→y only when x == y or y is transitively done; dropping it for a y that is merely done lets x.wait() return while y's own dependencies are still being built; path that returns without the edge: %s", PathString(addEdge, path))
		}
		// (3)-(5) wait
		{
			var recv *ssa.UnOp
			Instrs(wait, false, func(in ssa.Instruction) {
				if u, ok := in.(*ssa.UnOp); ok && u.Op == token.ARROW && DerivesLocal(u.X, IsFieldOf("ir.task", "done")) {
					recv = u
				}
			})
			if recv == nil {
				c.Undecided("wait no longer receives from a task's done channel")
			}
			// the task whose done channel is received from
			var cur ssa.Value
			for x := range BackSlice(recv.X, SliceOpts{NoMemory: true}) {
				if fa, ok := x.(*ssa.FieldAddr); ok && IsFieldOf("ir.task", "done")(fa) {
					cur = fa.X
				}
			}
			// (3) edges of u are read only after u is done
			nEdges := 0
			Instrs(wait, false, func(in ssa.Instruction) {
				fa, ok := in.(*ssa.FieldAddr)
				if !ok || !IsFieldOf("ir.task", "edges")(fa) {
					return
				}
				nEdges++
				c.Check(FuncKey(wait)+"::edges-read-after-done#"+itoa(nEdges-1), fa.Pos(), fa.X == cur && InstrDominates(recv, fa), "wait may look at u.edges only after <-u.done: edges are added until the task is marked done, so an earlier read misses dependencies (and races)")
			})
			if nEdges == 0 {
				c.Undecided("wait no longer reads task.edges")
			}
			// (4) transitive is set only after the whole closure was waited for: the store cannot be followed by another receive
			nStores := 0
			for _, ci := range Calls(wait, false) {
				if strings.HasSuffix(CalleeName(ci.Common()), "atomic.Bool.Store") && DerivesLocal(ci.Common().Args[0], IsFieldOf("ir.task", "transitive")) {
					nStores++
					c.Check(FuncKey(wait)+"::transitive-set-after-closure#"+itoa(nStores-1), ci.Pos(), !ReachesFrom(wait, ci, recv) && ReachesFrom(wait, recv, ci), "the transitive flag may be set only once every task reachable through edges has been waited for (no receive may follow it)")
				}
			}
			for _, fn := range funcs {
				if fn == wait {
					continue
				}
				for _, ci := range Calls(fn, false) {
					if strings.HasSuffix(CalleeName(ci.Common()), "atomic.Bool.Store") && DerivesLocal(ci.Common().Args[0], IsFieldOf("ir.task", "transitive")) {
						c.Check(FuncKey(fn)+"::sets-transitive-outside-wait", ci.Pos(), false, "only wait() may set a task's transitive flag")
					}
				}
			}
			// (5) every successor not seen before is appended to the work list, and the list that is iterated is the appended one
			var miss *ssa.Lookup
			Instrs(wait, false, func(in ssa.Instruction) {
				if lk, ok := in.(*ssa.Lookup); ok && lk.CommaOk {
					if _, isMap := lk.X.Type().Underlying().(*types.Map); isMap && Derives(lk.Index, func(v ssa.Value) bool { _, isNext := v.(*ssa.Next); return isNext }) {
						miss = lk
					}
				}
			})
			if miss == nil {
				c.Undecided("wait no longer tests whether a successor was already enqueued")
			}
			var app *ssa.Call
			Instrs(wait, false, func(in ssa.Instruction) {
				if call, ok := in.(*ssa.Call); ok && IsCallTo(call, "builtin.append") && Derives(call.Call.Args[1], func(v ssa.Value) bool { return v == miss.Index }) {
					app = call
				}
			})
			seenEdges := CondEdges(wait, func(cond ssa.Value) (bool, bool) {
				e, ok := cond.(*ssa.Extract)
				return ok && e.Index == 1 && e.Tuple == ssa.Value(miss), true
			})
			okApp := app != nil
			pathStr := ""
			if okApp {
				hdr := miss.Block()
				t, path := PathAvoiding(wait, miss, func(in ssa.Instruction) bool {
					return isRet(in) || in.Block() != hdr && ReachesFrom(wait, in, miss) && in.Block().Dominates(hdr) && in == in.Block().Instrs[0]
				}, func(in ssa.Instruction) bool { return in == ssa.Instruction(app) }, seenEdges)
				okApp = t == nil && len(seenEdges) > 0
				pathStr = PathString(wait, path)
				// the grown list is what the outer loop iterates
				flows := false
				Instrs(wait, false, func(in ssa.Instruction) {
					if ia, ok := in.(*ssa.IndexAddr); ok && ia.Block().Dominates(recv.Block()) && Derives(ia.X, func(v ssa.Value) bool { return v == ssa.Value(app) }) {
						flows = true
					}
				})
				if !flows {
					okApp, pathStr = false, "the list that wait iterates is not the one successors are appended to"
				}
			}
			c.Check(FuncKey(wait)+"::every-unseen-successor-enqueued", miss.Pos(), okApp, "every task in u.edges that was not enqueued before must be appended to the work list that wait iterates: %s", pathStr)
		}
	})
}
