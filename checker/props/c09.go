package props

import (
	"go/token"
	"go/types"
	"strings"

	"golang.org/x/tools/go/ssa"

	. "verif/checker/engine"
)

const patternPkg = Module + "/pattern"

func init() {
	Register(&Property{
		ID:       "C09",
		Patterns: []string{"./pattern"},
		NeedSSA:  true,
		Explanation: "Decides the structural discipline that makes pattern bindings atomic: every backtracking point (a sub-match whose failure can still be followed by success in the same function) is bracketed by (*Matcher).push and pop, and its success path by merge (R9.1); " +
			"every bit index handed out by the parser reaches the Binding value that is returned, for both spellings (R9.2); set/pop/merge maintain State and the per-frame masks consistently and merge hands the mask to the enclosing frame (R9.3); " +
			"Parse refuses more names than the mask has bits (R9.4); a name is bound only when its sub-pattern matched and a recalled name is matched against the stored subtree (R9.5). " +
			"It does NOT decide structural equality of recalled subtrees on all trees." +
			" Also decided: the pattern returned by Parse owns its index-to-name table (fresh storage, never the parser's own table, which the next Parse on the same parser rewrites)." +
			" Two node lists are compared element by element only after their lengths were found equal.",
		RuleText:    "obligation = (rule, function::call site text); evaluated on the SSA CFG with path queries (push dominates, pop on every failing path, merge on every succeeding path) and forward/backward value flow",
		Assumptions: []string{"failure of a sub-match that is returned unchanged to the caller is handled by the caller's frame (checked at the caller)"},
		Run:         runC09,
		Mutants: []Mutant{
			{Name: "stored-statement-list-may-be-a-prefix", File: "pattern/match.go", Rule: "R9.7", KeyPart: "element-wise-comparison-requires-equal-lengths",
				Old: "\t\t\tif len(ln) != len(rn) {\n\t\t\t\treturn nil, false\n\t\t\t}\n\t\t\tfor i, ll := range ln {\n\t\t\t\tif _, ok := match(m, ll, rn[i]); !ok {\n\t\t\t\t\treturn nil, false\n\t\t\t\t}\n\t\t\t}\n\t\t\treturn r, true\n\t\t}\n\t}\n\n\t{\n\t\tln, ok1 := l.([]*ast.Field)", New: "\t\t\tif len(ln) > len(rn) {\n\t\t\t\treturn nil, false\n\t\t\t}\n\t\t\tfor i, ll := range ln {\n\t\t\t\tif _, ok := match(m, ll, rn[i]); !ok {\n\t\t\t\t\treturn nil, false\n\t\t\t\t}\n\t\t\t}\n\t\t\treturn r, true\n\t\t}\n\t}\n\n\t{\n\t\tln, ok1 := l.([]*ast.Field)"},
			{Name: "pattern-shares-the-parsers-name-table", File: "pattern/parser.go", Rule: "R9.3", KeyPart: "Parse::pattern-owns-its-bindings-table",
				Old: "\tbindings := make([]string, len(p.bindings))\n\tfor name, idx := range p.bindings {\n\t\tbindings[idx] = name\n\t}\n", New: "\tif cap(p.names) < len(p.bindings) {\n\t\tp.names = make([]string, len(p.bindings))\n\t}\n\tbindings := p.names[:len(p.bindings)]\n\tfor name, idx := range p.bindings {\n\t\tbindings[idx] = name\n\t}\n",
				More: []Edit{{File: "pattern/parser.go", Old: "\tbindings map[string]int\n}", New: "\tbindings map[string]int\n\tnames    []string\n}"}}},
			{Name: "bound-decided-by-nil-test", File: "pattern/match.go", Rule: "R9.6", KeyPart: "Binding).Match::State-presence-by-comma-ok",
				Old: "\t\tv, ok := m.State[b.Name]\n\t\tif ok {\n", New: "\t\tv := m.State[b.Name]\n\t\tif v != nil {\n"},
			{Name: "or-no-pop", File: "pattern/match.go", Rule: "R9.1", KeyPart: "Or).Match",
				Old: "\t\t} else {\n\t\t\tm.pop()\n\t\t}\n", New: "\t\t} else {\n\t\t\tm.merge()\n\t\t}\n"},
			{Name: "not-no-frame", File: "pattern/match.go", Rule: "R9.1", KeyPart: "Not).Match",
				Old: "\tm.push()\n\t_, ok := match(m, not.Node, node)\n\tm.pop()\n", New: "\t_, ok := match(m, not.Node, node)\n"},
			{Name: "not-merge-instead-of-pop", File: "pattern/match.go", Rule: "R9.1", KeyPart: "Not).Match",
				Old: "\t_, ok := match(m, not.Node, node)\n\tm.pop()\n", New: "\t_, ok := match(m, not.Node, node)\n\tm.merge()\n"},
			{Name: "or-push-outside-loop", File: "pattern/match.go", Rule: "R9.1", KeyPart: "Or).Match",
				Old: "\tfor _, opt := range or.Nodes {\n\t\tm.push()\n", New: "\tm.push()\n\tfor _, opt := range or.Nodes {\n"},
			{Name: "binding-idx-shadow", File: "pattern/parser.go", Rule: "R9.2", KeyPart: "Parser).node",
				Old: "\tif b, ok := node.(Binding); ok {\n\t\tb.idx = p.bindingIndex(b.Name)\n\t\tnode = b\n\t}\n",
				New: "\tif node, ok := node.(Binding); ok {\n\t\tnode.idx = p.bindingIndex(node.Name)\n\t}\n"},
			{Name: "merge-drops-mask", File: "pattern/match.go", Rule: "R9.3", KeyPart: "merge",
				Old: "\t\tm.setBindings[n-1] |= set\n", New: "\t\t_ = set\n"},
			{Name: "set-no-mask", File: "pattern/match.go", Rule: "R9.3", KeyPart: "set",
				Old: "\tm.setBindings[len(m.setBindings)-1] |= 1 << b.idx\n", New: "\tm.setBindings[len(m.setBindings)-1] |= 1\n"},
			{Name: "too-many-bindings", File: "pattern/parser.go", Rule: "R9.4", KeyPart: "Parse",
				Old: "\tif len(p.bindings) > 64 {", New: "\tif len(p.bindings) > 128 {"},
			{Name: "bind-on-failure", File: "pattern/match.go", Rule: "R9.5", KeyPart: "Binding).Match",
				Old: "\tnew, ret := match(m, b.Node, node)\n\tif ret {\n\t\tm.set(b, new)\n\t}\n", New: "\tnew, ret := match(m, b.Node, node)\n\tm.set(b, new)\n"},
			{Name: "intlit-continue-after-failure", File: "pattern/match.go", Rule: "R9.1", KeyPart: "IntegerLiteral).Match",
				Old: "\tmatched, ok := match(m, integerLiteralQ.Root, node)\n\tif !ok {\n\t\treturn nil, false\n\t}\n",
				New: "\tmatched, ok := match(m, integerLiteralQ.Root, node)\n\tif !ok {\n\t\tif _, ok := node.(*ast.BasicLit); !ok {\n\t\t\treturn nil, false\n\t\t}\n\t\tmatched = node\n\t}\n"},
		},
	})
}

// matchFamily reports whether the call is a sub-match: a call to a function
// or method of package pattern (or the matcher interface) that takes a
// *Matcher and returns (any, bool).
func isSubMatch(cc *ssa.CallCommon) bool {
	sig := cc.Signature()
	if sig == nil || sig.Results().Len() != 2 {
		return false
	}
	if b, ok := sig.Results().At(1).Type().(*types.Basic); !ok || b.Kind() != types.Bool {
		return false
	}
	hasMatcher := false
	for p := range sig.Params().Variables() {
		if strings.HasSuffix(p.Type().String(), "pattern.Matcher") {
			hasMatcher = true
		}
	}
	return hasMatcher
}

func runC09(c *Ctx) {
	pkg := c.SSAPkg("pattern")
	const nPush, nPop, nMerge = patternPkg + ".Matcher.push", patternPkg + ".Matcher.pop", patternPkg + ".Matcher.merge"

	var funcs []*ssa.Function
	for _, fn := range c.ModuleFuncs() {
		if FuncPkgPath(fn) == patternPkg && len(fn.Blocks) > 0 {
			funcs = append(funcs, fn)
		}
	}
	_ = pkg

	// exemptions: backtracking points that need no frame, with the reason.
	exempt := map[string]string{
		"(honnef.co/go/tools/pattern.Symbol).Match::sub-match-against-a-string": "the subject is a string (a type name); no compound pattern can bind a name against a string and then fail, so there is nothing to undo",
	}

	c.Rule("R9.1", func() {
		c.Floor("R9.1", 3)
		points := 0
		for _, fn := range funcs {
			for _, ci := range Calls(fn, false) {
				call, ok := ci.(*ssa.Call)
				if !ok || !isSubMatch(&call.Call) {
					continue
				}
				c.SawFunc(fn.String())
				// the ok result and the Ifs that test it
				var okVal ssa.Value
				for _, r := range *call.Referrers() {
					if e, isE := r.(*ssa.Extract); isE && e.Index == 1 {
						okVal = e
					}
				}
				if okVal == nil {
					continue
				}
				trueEdges := CondEdges(fn, func(cond ssa.Value) (bool, bool) { return cond == okVal, true })
				if len(trueEdges) == 0 {
					continue
				}
				falseEdges := ComplementEdges(trueEdges)
				// backtracking point: after M failed, a (maybe-)true return is reachable
				if !trueReturnReachable(fn, falseEdges, okVal) {
					continue
				}
				points++
				key := FuncKey(fn) + "::" + c.CallText(call.Pos())
				// a sub-match whose subject is a string needs no frame: keyed by what it is, not by how it is spelled
				if args := CallArgs(&call.Call); len(args) >= 3 {
					subj := args[len(args)-1]
					if mi, isMI := subj.(*ssa.MakeInterface); isMI {
						if b, isB := mi.X.Type().Underlying().(*types.Basic); isB && b.Info()&types.IsString != 0 {
							key = FuncKey(fn) + "::sub-match-against-a-string"
						}
					}
				}
				if why, ok := exempt[key]; ok {
					c.CheckTrivial(key, call.Pos(), true, "backtracking point exempt from bracketing: %s", why)
					continue
				}
				isCallTo := func(names ...string) func(ssa.Instruction) bool {
					return func(in ssa.Instruction) bool {
						x, ok := in.(ssa.CallInstruction)
						return ok && IsCallTo(x, names...)
					}
				}
				// (1) a push dominates M and its frame is still open at M
				open := false
				why := "no (*Matcher).push dominates the sub-match"
				for _, p := range CallsTo(fn, false, nPush) {
					if !InstrDominates(p, call) {
						continue
					}
					closed := false
					for _, x := range CallsTo(fn, false, nPop, nMerge) {
						if !ReachesFrom(fn, p, x) {
							continue
						}
						t, _ := PathAvoiding(fn, x, func(in ssa.Instruction) bool { return in == ssa.Instruction(call) }, func(in ssa.Instruction) bool { return in == ssa.Instruction(p) }, nil)
						if t != nil {
							closed = true
							why = "the frame pushed at " + c.PosStr(p.Pos()) + " can already be popped/merged when the sub-match runs again (push is not per attempt)"
						}
					}
					if !closed {
						open = true
					}
				}
				c.Check(key+"::push-before", call.Pos(), open, "a backtracking point must run inside its own binding frame: %s", why)
				// (2) on failure: pop before any other sub-match or return
				t, path := PathAvoiding(fn, call, func(in ssa.Instruction) bool {
					if _, ok := in.(*ssa.Return); ok {
						return true
					}
					x, ok := in.(*ssa.Call)
					return ok && x != call && isSubMatch(&x.Call)
				}, isCallTo(nPop), trueEdges)
				c.Check(key+"::pop-on-failure", call.Pos(), t == nil, "when the sub-match fails its bindings must be undone with pop before the next attempt or return; path without pop: %s", PathString(fn, path))
				// (3) on success: the frame is closed (merge or pop) before returning
				t, path = PathAvoiding(fn, call, func(in ssa.Instruction) bool { _, ok := in.(*ssa.Return); return ok }, isCallTo(nMerge, nPop), falseEdges)
				c.Check(key+"::frame-closed-on-success", call.Pos(), t == nil, "when the sub-match succeeds the frame must be merged (or popped) before returning; path: %s", PathString(fn, path))
			}
		}
		if points < 2 {
			c.Undecided("found %d backtracking points in package pattern, expected at least Or.Match and the alias loop of Symbol.Match (and Not.Match unless its attempt lives in a helper)", points)
		}
	})

	c.Rule("R9.2", func() {
		c.Floor("R9.2", 3)
		for _, fn := range funcs {
			for _, ci := range CallsTo(fn, false, patternPkg+".Parser.bindingIndex") {
				call, ok := ci.(*ssa.Call)
				if !ok {
					c.Check(FuncKey(fn)+"::bindingIndex-result-discarded", ci.Pos(), false, "bindingIndex called in go/defer")
					continue
				}
				// stored into the idx field of a Binding …
				intoIdx := false
				for in := range ForwardFlow(call) {
					if st, ok := in.(*ssa.Store); ok {
						if fa, ok := st.Addr.(*ssa.FieldAddr); ok && IsFieldOf("Binding", "idx")(fa) {
							intoIdx = true
						}
					}
				}
				// … that is part of the value the function returns
				c.Check(FuncKey(fn)+"::bindingIndex→Binding.idx→return", call.Pos(), intoIdx && FlowsToReturn(call),
					"the bit index must be stored in the idx field of the Binding that is returned (stored in idx: %v, reaches a return: %v); an index kept only in a copy leaves the returned Binding with bit 0", intoIdx, FlowsToReturn(call))
			}
		}
		// every construction of a Binding (composite literal with fields) in
		// the parser sets idx
		for _, fn := range funcs {
			if !strings.Contains(fn.String(), "Parser") {
				continue
			}
			Instrs(fn, false, func(in ssa.Instruction) {
				al, ok := in.(*ssa.Alloc)
				if !ok || !strings.HasSuffix(al.Type().String(), "pattern.Binding") {
					return
				}
				// a Binding value that is built here: a literal, or a variable whose fields are assigned
				built, hasIdx := al.Comment == "complit", false
				var check func(v ssa.Value, depth int)
				check = func(v ssa.Value, depth int) {
					refs := v.Referrers()
					if refs == nil || depth > 2 {
						return
					}
					for _, r := range *refs {
						switch r := r.(type) {
						case *ssa.FieldAddr:
							for _, rr := range *r.Referrers() {
								if st, ok := rr.(*ssa.Store); ok && st.Addr == ssa.Value(r) {
									built = true
									if IsFieldOf("Binding", "idx")(r) {
										hasIdx = true
									}
								}
							}
						case *ssa.Store:
							// the literal is copied into a variable whose idx is set afterwards: b = Binding{…}; b.idx = …
							if u, ok := r.Val.(*ssa.UnOp); ok && u.X == v && r.Addr != v {
								if dst, ok := r.Addr.(*ssa.Alloc); ok {
									check(dst, depth+1)
								}
							}
						case *ssa.UnOp:
							for _, rr := range *r.Referrers() {
								if st, ok := rr.(*ssa.Store); ok && st.Val == ssa.Value(r) {
									if dst, ok := st.Addr.(*ssa.Alloc); ok && dst != al {
										check(dst, depth+1)
									}
								}
							}
						}
					}
				}
				check(al, 0)
				if !built {
					return
				}
				c.Check(FuncKey(fn)+"::Binding-literal-sets-idx", al.Pos(), hasIdx, "a Binding built by the parser must get its bit index")
			})
		}
	})

	c.Rule("R9.3", func() {
		c.Floor("R9.3", 6)
		set := c.Func("pattern", "(*Matcher).set")
		pop := c.Func("pattern", "(*Matcher).pop")
		merge := c.Func("pattern", "(*Matcher).merge")
		mm := c.Func("pattern", "(*Matcher).Match")
		parse := c.Func("pattern", "(*Parser).Parse")

		// set: State[b.Name] = v and mask |= 1 << b.idx
		stateUpd, maskUpd := false, false
		Instrs(set, false, func(in ssa.Instruction) {
			switch in := in.(type) {
			case *ssa.MapUpdate:
				if DerivesLocal(in.Map, IsFieldOf("Matcher", "State")) && DerivesLocal(in.Key, IsFieldOf("Binding", "Name")) {
					stateUpd = true
				}
			case *ssa.Store:
				if AddrFrom(in.Addr, IsFieldOf("Matcher", "setBindings")) {
					if DerivesLocal(in.Val, func(v ssa.Value) bool {
						bo, ok := v.(*ssa.BinOp)
						return ok && bo.Op == token.SHL && DerivesLocal(bo.Y, IsFieldOf("Binding", "idx"))
					}) {
						maskUpd = true
					}
				}
			}
		})
		c.Check(FuncKey(set)+"::state-by-name", set.Pos(), stateUpd, "set stores the value under the binding's name")
		c.Check(FuncKey(set)+"::mask-bit-by-idx", set.Pos(), maskUpd, "set records the binding in the top frame's mask at bit b.idx (1 << b.idx)")

		// pop: deletes State[bindingsMapping[i]] under a test of the popped mask, and drops the frame
		delOK, dropOK := false, false
		Instrs(pop, false, func(in ssa.Instruction) {
			switch in := in.(type) {
			case *ssa.Call:
				if IsCallTo(in, "builtin.delete") {
					if DerivesLocal(in.Call.Args[0], IsFieldOf("Matcher", "State")) && DerivesLocal(in.Call.Args[1], IsFieldOf("Matcher", "bindingsMapping")) {
						guard := IntCmpConstEdges(pop, func(v ssa.Value) bool {
							return DerivesLocal(v, func(x ssa.Value) bool {
								a, ok := x.(*ssa.BinOp)
								return ok && a.Op == token.AND && (DerivesLocal(a.X, IsFieldOf("Matcher", "setBindings")) || DerivesLocal(a.Y, IsFieldOf("Matcher", "setBindings")))
							})
						}, true, func(lo, hi int64) bool { return lo >= 1 })
						if ok, _ := MustPassEdges(pop, in, guard); ok {
							delOK = true
						}
					}
				}
			case *ssa.Store:
				if IsFieldOf("Matcher", "setBindings")(in.Addr) {
					if _, ok := in.Val.(*ssa.Slice); ok {
						dropOK = true
					}
				}
			}
		})
		c.Check(FuncKey(pop)+"::delete-by-mask-and-mapping", pop.Pos(), delOK, "pop deletes exactly the names whose bit is set in the popped frame, looked up through bindingsMapping")
		c.Check(FuncKey(pop)+"::frame-dropped", pop.Pos(), dropOK, "pop removes the frame")

		// merge: the popped mask is OR-ed into the enclosing frame
		handed := false
		Instrs(merge, false, func(in ssa.Instruction) {
			st, ok := in.(*ssa.Store)
			if !ok {
				return
			}
			if _, isIdx := st.Addr.(*ssa.IndexAddr); !isIdx || !AddrFrom(st.Addr, IsFieldOf("Matcher", "setBindings")) {
				return
			}
			bo, ok := st.Val.(*ssa.BinOp)
			if ok && bo.Op == token.OR && DerivesLocal(bo.X, IsFieldOf("Matcher", "setBindings")) && DerivesLocal(bo.Y, IsFieldOf("Matcher", "setBindings")) {
				handed = true
			}
		})
		c.Check(FuncKey(merge)+"::mask-handed-to-enclosing-frame", merge.Pos(), handed, "merge must OR the closed frame's mask into the enclosing frame; otherwise bindings of a successful inner alternative survive the failure of the enclosing alternative")

		// Matcher.Match: bindingsMapping = a.Bindings
		mapped := false
		Instrs(mm, false, func(in ssa.Instruction) {
			if st, ok := in.(*ssa.Store); ok && IsFieldOf("Matcher", "bindingsMapping")(st.Addr) && DerivesLocal(st.Val, IsFieldOf("Pattern", "Bindings")) {
				mapped = true
			}
		})
		c.Check(FuncKey(mm)+"::mapping-from-pattern", mm.Pos(), mapped, "Matcher.Match takes bindingsMapping from the pattern being matched")

		// Parse: Pattern.Bindings[idx] = name for (name, idx) in p.bindings
		filled := false
		for _, f := range DeepFuncs(parse, 2) {
			Instrs(f, false, func(in ssa.Instruction) {
				st, ok := in.(*ssa.Store)
				if !ok {
					return
				}
				ia, ok := st.Addr.(*ssa.IndexAddr)
				if !ok {
					return
				}
				if DerivesLocal(ia.Index, IsFieldOf("Parser", "bindings")) && DerivesLocal(st.Val, IsFieldOf("Parser", "bindings")) {
					filled = true
				}
			})
		}
		// … or the table already is a list ordered by index and Pattern.Bindings is a copy of it
		var stored []ssa.Value
		for _, f := range DeepFuncs(parse, 2) {
			Instrs(f, false, func(in ssa.Instruction) {
				if st, ok := in.(*ssa.Store); ok && IsFieldOf("Pattern", "Bindings")(st.Addr) {
					stored = append(stored, st.Val)
				}
			})
		}
		var fresh func(v ssa.Value, depth int) bool
		fresh = func(v ssa.Value, depth int) bool {
			if depth > 4 {
				return false
			}
			switch x := v.(type) {
			case *ssa.MakeSlice:
				return true
			case *ssa.Const:
				return true // nil
			case *ssa.Slice:
				if al, ok := x.X.(*ssa.Alloc); ok {
					_ = al
					return true // a literal's backing array
				}
				return fresh(x.X, depth+1)
			case *ssa.Phi:
				for _, e := range x.Edges {
					if !fresh(e, depth+1) {
						return false
					}
				}
				return true
			case *ssa.Call:
				switch CalleeName(&x.Call) {
				case "slices.Clone", "slices.Collect", "slices.Sorted", "strings.Fields", "strings.Split":
					return true
				case "builtin.append":
					return fresh(x.Call.Args[0], depth+1)
				}
				// a helper of the package that builds the table: fresh if every result it returns is
				if callee := x.Call.StaticCallee(); callee != nil && FuncInModule(callee) && len(callee.Blocks) > 0 {
					rets := Returns(callee)
					for _, r := range rets {
						if !fresh(ReturnOperand(r, 0), depth+1) {
							return false
						}
					}
					return len(rets) > 0
				}
			}
			return false
		}
		copied := false
		for _, v := range stored {
			if fresh(v, 0) && Derives(v, IsFieldOf("Parser", "bindings")) {
				copied = true
			}
		}
		c.Check(FuncKey(parse)+"::bindings-table-by-index", parse.Pos(), filled || copied, "Parse fills Pattern.Bindings[idx] = name from the same table bindingIndex allocates from (or copies the index-ordered list)")
		// the pattern owns its index→name table: a Parser can be used for several patterns, and
		// whatever it does to its own table afterwards must not reach patterns it returned earlier
		// (pop undoes failed alternatives by looking names up in that table)
		owns := len(stored) > 0
		for _, v := range stored {
			if !fresh(v, 0) {
				owns = false
			}
		}
		c.Check(FuncKey(parse)+"::pattern-owns-its-bindings-table", parse.Pos(), owns, "Pattern.Bindings must be storage allocated for this pattern (make, clone, a fresh append), not the parser's own table: the next Parse on the same Parser would rewrite the table of a pattern that is already in use, and Matcher.pop would then delete the wrong names")
	})

	c.Rule("R9.4", func() {
		c.Floor("R9.4", 1)
		parse := c.Func("pattern", "(*Parser).Parse")
		m := c.NamedType("pattern", "Matcher")
		bits := int64(0)
		st := m.Underlying().(*types.Struct)
		for f := range st.Fields() {
			if f.Name() == "setBindings" {
				if sl, ok := f.Type().Underlying().(*types.Slice); ok {
					if b, ok := sl.Elem().Underlying().(*types.Basic); ok {
						switch b.Kind() {
						case types.Uint64, types.Int64:
							bits = 64
						case types.Uint32, types.Int32:
							bits = 32
						}
					}
				}
			}
		}
		if bits == 0 {
			c.Undecided("cannot determine the width of the Matcher.setBindings masks")
		}
		var k int64
		bounded := CmpEdges(parse, func(x, y ssa.Value) bool {
			kk, ok := ConstInt(y)
			if !ok {
				return false
			}
			call, isCall := x.(*ssa.Call)
			if !isCall || !IsCallTo(call, "builtin.len") || !DerivesLocal(call.Call.Args[0], IsFieldOf("Parser", "bindings")) {
				return false
			}
			k = kk
			return true
		}, func(rel string, truth bool) bool {
			switch {
			case rel == ">" && !truth, rel == "<=" && truth:
				return k <= bits
			case rel == ">=" && !truth, rel == "<" && truth:
				return k <= bits+1
			}
			return false
		})
		for i, r := range SuccessReturns(parse, 1) {
			ok, path := MustPassEdges(parse, r, bounded)
			c.Check(FuncKey(parse)+"::at-most-"+itoa(int(bits))+"-bindings#"+itoa(i), r.Pos(), ok, "Parse may succeed only if the number of binding names fits the %d-bit frame mask; path: %s", bits, PathString(parse, path))
		}
	})

	c.Rule("R9.5", func() {
		c.Floor("R9.5", 2)
		bm := c.Func("pattern", "Binding.Match")
		sets := CallsTo(bm, false, patternPkg+".Matcher.set")
		if len(sets) == 0 {
			c.Undecided("Binding.Match no longer calls (*Matcher).set")
		}
		for _, s := range sets {
			okEdges := CondEdges(bm, func(cond ssa.Value) (bool, bool) {
				e, ok := cond.(*ssa.Extract)
				if !ok || e.Index != 1 {
					return false, false
				}
				call, ok := e.Tuple.(*ssa.Call)
				return ok && isSubMatch(&call.Call), true
			})
			ok, path := MustPassEdges(bm, s, okEdges)
			c.Check(FuncKey(bm)+"::bind-only-on-success", s.Pos(), ok, "a name is bound only on the success edge of matching its sub-pattern; path: %s", PathString(bm, path))
		}
		// recall: match(m, State[b.Name], node)
		recall := false
		for _, ci := range Calls(bm, false) {
			call, ok := ci.(*ssa.Call)
			if !ok || !isSubMatch(&call.Call) {
				continue
			}
			for _, a := range call.Call.Args {
				if DerivesLocal(a, func(v ssa.Value) bool {
					l, ok := v.(*ssa.Lookup)
					return ok && DerivesLocal(l.X, IsFieldOf("Matcher", "State")) && DerivesLocal(l.Index, IsFieldOf("Binding", "Name"))
				}) {
					recall = true
				}
			}
		}
		c.Check(FuncKey(bm)+"::recall-matches-stored-subtree", bm.Pos(), recall, "a name that is already bound is matched against the stored subtree State[b.Name]")
	})
	// R9.6: "is this name bound?" is decided by presence in State, never by the
	// stored value: a name legitimately binds the untyped nil when the matched
	// child is absent (no else branch, no init statement), so a lookup whose
	// result is compared with nil confuses "bound to nothing" with "unbound" and
	// lets a second occurrence of the name bind a different subtree.
	// R9.7: a recalled name matches only a structurally equal subtree. Where two
	// lists of nodes are compared element by element, the comparison must first
	// establish that the lists have the SAME length: with "the candidate is at
	// least as long" a stored list that is a proper prefix of the candidate
	// compares equal, and one name is bound to two different subtrees.
	c.Rule("R9.7", func() {
		c.Floor("R9.7", 2)
		matchFn := c.Func("pattern", "match")
		n := 0
		for _, f := range c.ModuleFuncs() {
			if FuncPkgPath(f) != FuncPkgPath(matchFn) || len(f.Blocks) == 0 {
				continue
			}
			elemOf := func(v ssa.Value) (slice, index ssa.Value) {
				for x := range BackSlice(v, SliceOpts{}) {
					if ld, ok := x.(*ssa.UnOp); ok && ld.Op == token.MUL {
						if ia, ok := ld.X.(*ssa.IndexAddr); ok {
							if _, isSlice := ia.X.Type().Underlying().(*types.Slice); isSlice {
								return ia.X, ia.Index
							}
						}
					}
				}
				return nil, nil
			}
			for _, ci := range Calls(f, false) {
				callee := ci.Common().StaticCallee()
				if callee == nil || (callee != matchFn && callee.Origin() != matchFn) {
					continue
				}
				args := ci.Common().Args
				if len(args) != 3 {
					continue
				}
				s1, i1 := elemOf(args[1])
				s2, i2 := elemOf(args[2])
				if s1 == nil || s2 == nil || s1 == s2 || i1 != i2 {
					continue
				}
				n++
				isLenOf := func(v, of ssa.Value) bool {
					call, ok := v.(*ssa.Call)
					if !ok {
						return false
					}
					b, ok := call.Call.Value.(*ssa.Builtin)
					return ok && b.Name() == "len" && call.Call.Args[0] == of
				}
				sameLen := EqEdges(f, func(x, y ssa.Value) bool { return isLenOf(x, s1) && isLenOf(y, s2) || isLenOf(x, s2) && isLenOf(y, s1) })
				ok, path := MustPassEdges(f, ci, sameLen)
				c.Check(FuncKey(f)+"::element-wise-comparison-requires-equal-lengths#"+itoa(n), ci.Pos(), ok && len(sameLen) > 0, "two node lists are matched element by element here; that is an equality test only after len(a) == len(b) was established (a weaker test lets a list that is a proper prefix of the other compare equal, so a recalled name matches a longer statement or argument list); path without the length test: %s", PathString(f, path))
			}
		}
		if n < 2 {
			c.Undecided("found only %d element-wise list comparisons in package pattern", n)
		}
	})

	c.Rule("R9.6", func() {
		c.Floor("R9.6", 1)
		n := 0
		for _, fn := range c.ModuleFuncs() {
			if FuncPkgPath(fn) != patternPkg {
				continue
			}
			Instrs(fn, false, func(in ssa.Instruction) {
				lk, ok := in.(*ssa.Lookup)
				if !ok || !DerivesLocal(lk.X, IsFieldOf("Matcher", "State")) {
					return
				}
				if _, isMap := lk.X.Type().Underlying().(*types.Map); !isMap {
					return
				}
				n++
				c.SawFunc(fn.String())
				// what decides on presence: the ok of a comma-ok lookup is fine; a nil test of the value is not
				bad := ""
				var val ssa.Value = lk
				if lk.CommaOk {
					val = nil
					for _, r := range *lk.Referrers() {
						if e, ok := r.(*ssa.Extract); ok && e.Index == 0 {
							val = e
						}
					}
				}
				if val != nil {
					for x := range ForwardFlow(val) {
						if bo, ok := x.(*ssa.BinOp); ok && (bo.Op == token.EQL || bo.Op == token.NEQ) && (IsNilConst(bo.X) || IsNilConst(bo.Y)) {
							other := bo.X
							if IsNilConst(bo.X) {
								other = bo.Y
							}
							if DerivesLocal(other, func(v ssa.Value) bool { return v == val }) {
								bad = "the looked-up value is compared with nil at " + c.PosStr(bo.Pos())
							}
						}
					}
				}
				c.Check(FuncKey(fn)+"::State-presence-by-comma-ok#"+itoa(n-1), lk.Pos(), bad == "", "whether a name is bound must be decided by presence in Matcher.State (the ok of a comma-ok lookup): nil is a legitimate bound value (an absent child); %s", bad)
			})
		}
		if n < 1 {
			c.Undecided("found only %d lookups in Matcher.State", n)
		}
	})
}

// trueReturnReachable reports whether, starting on one of the given edges, a
// return whose bool result may be true can be reached. Phi results located in
// the returning block are evaluated for the predecessor the path came from.
func trueReturnReachable(fn *ssa.Function, edges map[Edge]bool, knownFalse ssa.Value) bool {
	type st struct{ blk, pred *ssa.BasicBlock }
	var queue []st
	for _, b := range fn.Blocks {
		for si, s := range b.Succs {
			if edges[Edge{b.Index, si}] {
				queue = append(queue, st{s, b})
			}
		}
	}
	seen := map[[2]int]bool{}
	for len(queue) > 0 {
		s := queue[0]
		queue = queue[1:]
		k := [2]int{s.blk.Index, s.pred.Index}
		if seen[k] {
			continue
		}
		seen[k] = true
		if len(s.blk.Instrs) > 0 {
			if r, ok := s.blk.Instrs[len(s.blk.Instrs)-1].(*ssa.Return); ok && len(r.Results) >= 2 {
				v := ReturnOperand(r, len(r.Results)-1)
				if phi, ok := v.(*ssa.Phi); ok && phi.Block() == s.blk {
					for i, p := range s.blk.Preds {
						if p == s.pred {
							v = phi.Edges[i]
						}
					}
				}
				if k, ok := v.(*ssa.Const); ok && k.Value != nil && k.Value.String() == "false" {
					continue
				}
				if v == knownFalse {
					// the very result that was just tested to be false
					continue
				}
				return true
			}
		}
		// a flag set on the way here: `ok = false; break` … `if !ok { return nil, false }`. If the block's
		// condition is a φ of this block whose value on the edge we came in by is a constant, only the
		// corresponding successor is taken.
		if len(s.blk.Instrs) > 0 {
			if iff, ok := s.blk.Instrs[len(s.blk.Instrs)-1].(*ssa.If); ok {
				cond, neg := StripNot(iff.Cond)
				if phi, ok := cond.(*ssa.Phi); ok && phi.Block() == s.blk {
					for i, p := range s.blk.Preds {
						if p != s.pred {
							continue
						}
						var known *bool
						if k, ok := phi.Edges[i].(*ssa.Const); ok && k.Value != nil && (k.Value.String() == "true" || k.Value.String() == "false") {
							b := k.Value.String() == "true"
							known = &b
						} else if phi.Edges[i] == knownFalse {
							b := false
							known = &b
						}
						if known != nil {
							truth := *known
							if neg {
								truth = !truth
							}
							succ := s.blk.Succs[1]
							if truth {
								succ = s.blk.Succs[0]
							}
							queue = append(queue, st{succ, s.blk})
							goto next
						}
					}
				}
			}
		}
		for _, succ := range s.blk.Succs {
			queue = append(queue, st{succ, s.blk})
		}
	next:
	}
	return false
}
