package props

import (
	"bufio"
	"go/ast"
	"go/token"
	"go/types"
	"os"
	"path/filepath"
	"sort"
	"strings"

	"golang.org/x/tools/go/packages"
	"golang.org/x/tools/go/ssa"

	. "verif/checker/engine"
)

const runnerPkg = Module + "/lintcmd/runner"
const loaderPkg = Module + "/go/loader"

func init() {
	Register(&Property{
		ID:       "C04",
		Patterns: []string{"./..."},
		NeedSSA:  true,
		Explanation: "Decides key completeness: every field of the runner/loader state that is read on the miss path (functions reachable from (*subrunner).doUncached inside lintcmd/runner, go/loader, analysis/lint) is written into the action key, is covered by a hashed field through a checked coverage edge, or is listed with a reason in tables/c04_inputs.tsv (R4.1); " +
			"computeHash hashes every PackageSpec field the loader reads, on both the build-id and the fallback branch, and never inside a loop over a map (R4.2); analyzerNames is the sorted join of the very slice that is executed and dependency lists are sorted (R4.3); " +
			"the Config field removed from the key (Checks) is read by no analysis code (R4.4); code reachable from doUncached and from every analyzer's Run calls ambient-input APIs (environment, file system, clock, randomness) only at the frozen sites (R4.5); " +
			"result fields set on a miss are restored on a hit (R4.6); the salt is set from the executable before any hash (R4.7). " +
			"It does NOT decide that results are a function of these inputs, SHA-256 collision freedom, gob round-trip fidelity or go list's view of the world." +
			" Also decided: nothing on the runner's miss path reads Config.Checks; every other Config field is written into the key; user-provided configuration lists are rendered injectively (%#v/%q, never joined with a separator).",
		RuleText:    "obligation = (rule, Type.field | call site | function); effect sets (field reads/writes) over the CHA call graph (VTA in the thorough tier), value-origin slices of every hash write, guard-edge path rules",
		Assumptions: []string{"analysis results are a deterministic function of the inputs enumerated in the key (C06 covers determinism structurally)", "the environment is the same between the runs compared (stated in the property)"},
		Run:         runC04,
		Configs:     []string{"linux/amd64", "darwin/amd64", "windows/amd64"},
		Mutants: []Mutant{
			{Name: "goversion-not-hashed", File: "lintcmd/runner/runner.go", Rule: "R4.1", KeyPart: "Runner.GoVersion",
				Old: "\tfmt.Fprintf(h, \"go %s\\n\", r.GoVersion)\n", New: ""},
			{Name: "cfg-not-hashed", File: "lintcmd/runner/runner.go", Rule: "R4.1", KeyPart: "Runner.cfg",
				Old: "\tfmt.Fprintf(h, \"cfg %#v\\n\", hashCfg)\n", New: "\t_ = hashCfg\n"},
			{Name: "pkghash-not-hashed", File: "lintcmd/runner/runner.go", Rule: "R4.1", KeyPart: "PackageSpec.CompiledGoFiles",
				Old: "\tfmt.Fprintf(h, \"pkg %x\\n\", a.Package.Hash)\n", New: ""},
			{Name: "analyzers-not-hashed", File: "lintcmd/runner/runner.go", Rule: "R4.1", KeyPart: "subrunner.analyzers",
				Old: "\tfmt.Fprintf(h, \"analyzers %s\\n\", r.analyzerNames)\n", New: ""},
			{Name: "dep-vetx-not-hashed", File: "lintcmd/runner/runner.go", Rule: "R4.1", KeyPart: "baseAction.deps",
				Old: "\t\tfmt.Fprintf(h, \"vetout %q %x\\n\", dep.Package.PkgPath, vetxHash)\n", New: "\t\t_ = vetxHash\n"},
			{Name: "new-runner-option", File: "lintcmd/runner/runner.go", Rule: "R4.1", KeyPart: "Runner.Strict",
				Old:  "\tpkg, _, err := loader.Load(a.Package, &loader.Options{GoVersion: r.GoVersion})\n\tif err != nil {\n\t\treturn packageActionResult{}, err\n\t}\n",
				New:  "\tpkg, _, err := loader.Load(a.Package, &loader.Options{GoVersion: r.GoVersion})\n\tif err != nil {\n\t\treturn packageActionResult{}, err\n\t}\n\tif r.Strict && len(pkg.Syntax) > 100 {\n\t\treturn packageActionResult{lpkg: pkg, skipped: true}, nil\n\t}\n",
				More: []Edit{{File: "lintcmd/runner/runner.go", Old: "\t// If set to true, Runner will populate results with data relevant to testing analyzers\n\tTestMode bool\n", New: "\t// If set to true, Runner will populate results with data relevant to testing analyzers\n\tTestMode bool\n\tStrict   bool\n"}}},
			{Name: "gomod-not-hashed", File: "go/loader/hash.go", Rule: "R4.2", KeyPart: "Module",
				Old: "\t\t\t} else {\n\t\t\t\tfmt.Fprintf(key, \"file %s %x\\n\", pkg.Module.GoMod, h)\n\t\t\t}", New: "\t\t\t} else {\n\t\t\t\t_ = h\n\t\t\t}"},
			{Name: "config-lists-joined-into-the-key", File: "lintcmd/runner/runner.go", Rule: "R4.8", KeyPart: "config-lists-rendered-injectively",
				Old: "\tfmt.Fprintf(h, \"cfg %#v\\n\", hashCfg)\n", New: "\tfmt.Fprintf(h, \"cfg %s %s %s\\n\", hashCfg.Initialisms, hashCfg.DotImportWhitelist, hashCfg.HTTPStatusCodeWhitelist)\n"},
			{Name: "imports-not-hashed", File: "go/loader/hash.go", Rule: "R4.2", KeyPart: "Imports",
				Old: "\t\t\tid, err := getBuildid(dep.ExportFile)\n\t\t\tif err == nil {\n\t\t\t\tfmt.Fprintf(key, \"import %s %s\\n\", dep.PkgPath, id)\n\t\t\t} else {",
				New: "\t\t\tid, err := getBuildid(dep.ExportFile)\n\t\t\tif err == nil {\n\t\t\t\t_ = id\n\t\t\t\tfmt.Fprintf(key, \"import %s\\n\", dep.PkgPath)\n\t\t\t} else {"},
			{Name: "success-without-buildid", File: "go/loader/hash.go", Rule: "R4.2", KeyPart: "every-path",
				Old: "\t\t\tif idx := strings.IndexRune(id, '/'); idx > -1 {\n\t\t\t\tfmt.Fprintf(key, \"files %s\\n\", id[:idx])\n\t\t\t\tsuccess = true\n\t\t\t}",
				New: "\t\t\tif idx := strings.IndexRune(id, '/'); idx > -1 {\n\t\t\t\tfmt.Fprintf(key, \"files %s\\n\", id[:idx])\n\t\t\t}\n\t\t\tsuccess = true"},
			{Name: "imports-in-map-order", File: "go/loader/hash.go", Rule: "R4.2", KeyPart: "map-order",
				Old: "\tfor _, dep := range imps {\n", New: "\tfor _, dep := range pkg.Imports {\n"},
			{Name: "content-id-instead-of-action-id", File: "go/loader/hash.go", Rule: "R4.2", KeyPart: "build-id-part-contains-action-id",
				Old: "\t\t\tif idx := strings.IndexRune(id, '/'); idx > -1 {\n\t\t\t\tfmt.Fprintf(key, \"files %s\\n\", id[:idx])\n", New: "\t\t\tif idx := strings.LastIndexByte(id, '/'); idx > -1 {\n\t\t\t\tfmt.Fprintf(key, \"files %s\\n\", id[idx+1:])\n"},
			{Name: "goos-not-hashed", File: "go/loader/hash.go", Rule: "R4.2", KeyPart: "GOARCH",
				Old: "\tfmt.Fprintf(key, \"goos %s goarch %s\\n\", runtime.GOOS, runtime.GOARCH)\n", New: "\tfmt.Fprintf(key, \"goos %s\\n\", runtime.GOOS)\n"},
			{Name: "analyzer-names-unsorted", File: "lintcmd/runner/runner.go", Rule: "R4.3", KeyPart: "sorted",
				Old: "\tsort.Strings(analyzerNames)\n\n\tvar factAnalyzers", New: "\tvar factAnalyzers"},
			{Name: "deps-unsorted", File: "lintcmd/runner/runner.go", Rule: "R4.3", KeyPart: "deps-sorted",
				Old: "\tsort.Slice(a.deps, func(i, j int) bool {\n\t\treturn a.deps[i].(*packageAction).Package.ID < a.deps[j].(*packageAction).Package.ID\n\t})\n", New: ""},
			{Name: "check-reads-checks", File: "stylecheck/st1003/st1003.go", Rule: "R4.4", KeyPart: "Config.Checks",
				Old: "\tinitialisms := make(map[string]bool, len(il))", New: "\tif len(config.For(pass).Checks) == 1 {\n\t\treturn nil, nil\n\t}\n\tinitialisms := make(map[string]bool, len(il))"},
			{Name: "check-reads-env", File: "stylecheck/st1003/st1003.go", Rule: "R4.5", KeyPart: "os.Getenv",
				Old: "\tinitialisms := make(map[string]bool, len(il))", New: "\tif os.Getenv(\"ST1003_OFF\") != \"\" {\n\t\treturn nil, nil\n\t}\n\tinitialisms := make(map[string]bool, len(il))",
				More: []Edit{{File: "stylecheck/st1003/st1003.go", Old: "import (\n", New: "import (\n\t\"os\"\n"}}},
			{Name: "do-reads-env-unhashed", File: "lintcmd/runner/runner.go", Rule: "R4.5", KeyPart: "do calls os.Getenv",
				Old: "\ta.hash = cache.ActionID(h.Sum())\n", New: "\ta.hash = cache.ActionID(h.Sum())\n\tif os.Getenv(\"STATICCHECK_FACTS_ONLY\") != \"\" {\n\t\ta.factsOnly = true\n\t}\n"},
			{Name: "dep-facts-keyed-by-package-hash", File: "lintcmd/runner/runner.go", Rule: "R4.1", KeyPart: "packageAction.vetx",
				Old: "\t\tfmt.Fprintf(h, \"vetout %q %x\\n\", dep.Package.PkgPath, vetxHash)\n", New: "\t\t_ = vetxHash\n\t\tfmt.Fprintf(h, \"vetout %q %x\\n\", dep.Package.PkgPath, dep.Package.Hash)\n"},
			{Name: "loader-parses-unhashed-file-list", File: "go/loader/loader.go", Rule: "R4.5", KeyPart: "loadFromSource calls os.Open",
				Old: "\tfor i, file := range spec.CompiledGoFiles {\n\t\tf, err := os.Open(file)", New: "\tfor i, file := range spec.GoFiles {\n\t\tf, err := os.Open(file)"},
			{Name: "new-result-only-on-miss", File: "lintcmd/runner/runner.go", Rule: "R4.6", KeyPart: "baseAction.failed",
				Old: "\t\ta.skipped = result.skipped\n", New: "\t\ta.skipped = result.skipped\n\t\tif len(result.diags) > 10000 {\n\t\t\ta.failed = true\n\t\t}\n"},
			{Name: "salt-not-set", File: "lintcmd/lint.go", Rule: "R4.7", KeyPart: "SetSalt",
				Old: "\tcache.SetSalt(salt)\n", New: "\t_ = salt\n"},
		},
	})
}

// c04Table is the exemption/coverage table.
type c04Entry struct{ class, reason string }

func loadTable(c *Ctx, name string) map[string]map[string]c04Entry {
	f, err := os.Open(filepath.Join(c.VerifDir, "tables", name))
	if err != nil {
		c.Undecided("cannot read tables/%s: %v", name, err)
	}
	defer f.Close()
	out := map[string]map[string]c04Entry{}
	sc := bufio.NewScanner(f)
	sc.Buffer(make([]byte, 1<<20), 1<<20)
	for sc.Scan() {
		line := sc.Text()
		if line == "" || strings.HasPrefix(line, "#") {
			continue
		}
		parts := strings.SplitN(line, "\t", 4)
		if len(parts) != 4 {
			c.Undecided("malformed line in tables/%s: %q", name, line)
		}
		if out[parts[0]] == nil {
			out[parts[0]] = map[string]c04Entry{}
		}
		out[parts[0]][parts[1]] = c04Entry{parts[2], parts[3]}
	}
	return out
}

func shortOwner(owner string) string {
	return owner[strings.LastIndex(owner, "/")+1:]
}

// hashedFields returns the struct fields ("pkg.Type.field") and the ambient
// calls that the values written into a cache.Hash in fn derive from.
func hashedFields(fn *ssa.Function) (map[string]bool, []ssa.CallInstruction) {
	fields := map[string]bool{}
	var writes []ssa.CallInstruction
	fieldOfVal := func(x ssa.Value) string {
		var base ssa.Value
		var idx int
		switch x := x.(type) {
		case *ssa.FieldAddr:
			base, idx = x.X, x.Field
		case *ssa.Field:
			base, idx = x.X, x.Field
		default:
			return ""
		}
		if owner, f := FieldOf(base.Type(), idx); f != nil && owner != "" {
			return shortOwner(owner) + "." + f.Name()
		}
		return ""
	}
	note := func(v ssa.Value) {
		for x := range BackSlice(v, SliceOpts{ThroughCalls: true}) {
			if k := fieldOfVal(x); k != "" {
				fields[k] = true
			}
			// "filehash:<field>": the content hash of the file the field names is written;
			// "call:<api>#<n>": the result of that call is written.
			if call, ok := x.(*ssa.Call); ok {
				name := CalleeName(&call.Call)
				fields["call:"+name+"@"+itoa(InstrIndex(call))+"/"+itoa(call.Block().Index)] = true
				if name == cachePkg+".FileHash" && len(call.Call.Args) == 1 {
					for y := range BackSlice(call.Call.Args[0], SliceOpts{}) {
						if k := fieldOfVal(y); k != "" {
							fields["filehash:"+k] = true
						}
					}
				}
			}
		}
	}
	isHash := func(v ssa.Value) bool {
		if Derives(v, IsCallResult(cachePkg+".NewHash")) {
			return true
		}
		// a helper that is handed the hash
		return Derives(v, func(x ssa.Value) bool {
			p, ok := x.(*ssa.Parameter)
			return ok && strings.HasSuffix(p.Type().String(), "lintcmd/cache.Hash")
		})
	}
	var allCalls []ssa.CallInstruction
	for _, f := range DeepFuncs(fn, 2) {
		if f != fn && f.Parent() == nil {
			// a helper counts only if it is handed a hash
			takesHash := false
			for _, prm := range f.Params {
				if strings.HasSuffix(prm.Type().String(), "lintcmd/cache.Hash") {
					takesHash = true
				}
			}
			if !takesHash {
				continue
			}
		}
		allCalls = append(allCalls, Calls(f, false)...)
	}
	// what is handed to a hashing helper and written there counts as written here
	defer func() {
		for _, ci := range allCalls {
			h := ci.Common().StaticCallee()
			if h == nil || h.Blocks == nil || h == fn {
				continue
			}
			takesHash := false
			for _, prm := range h.Params {
				if strings.HasSuffix(prm.Type().String(), "lintcmd/cache.Hash") {
					takesHash = true
				}
			}
			if !takesHash {
				continue
			}
			for pi, prm := range h.Params {
				if pi >= len(ci.Common().Args) {
					continue
				}
				written := false
				for _, w := range Calls(h, true) {
					switch CalleeName(w.Common()) {
					case "fmt.Fprintf", "fmt.Fprint", "fmt.Fprintln", "io.WriteString", cachePkg + ".Hash.Write":
						for _, a := range w.Common().Args[1:] {
							if SliceHas(a, SliceOpts{ThroughCalls: true}, func(v ssa.Value) bool { return v == ssa.Value(prm) }) {
								written = true
							}
						}
					}
				}
				if written {
					note(ci.Common().Args[pi])
				}
			}
		}
	}()
	for _, ci := range allCalls {
		name := CalleeName(ci.Common())
		args := ci.Common().Args
		switch name {
		case cachePkg + ".NewHash":
			note(args[0])
			writes = append(writes, ci)
		case "fmt.Fprintf", "fmt.Fprint", "fmt.Fprintln", "io.WriteString":
			if len(args) > 0 && isHash(args[0]) {
				for _, a := range args[1:] {
					note(a)
				}
				writes = append(writes, ci)
			}
		case cachePkg + ".Hash.Write":
			note(args[1])
			writes = append(writes, ci)
		}
	}
	return fields, writes
}

// mustHashed reports whether field k ("pkg.Type.field") is written into the
// hash computed by fn on every path: some hash write has an argument that
// derives from the field on every alternative (φ edges, stores), and that
// write cannot be bypassed on the way to Hash.Sum (or, inside a loop whose
// header dominates Sum, cannot be bypassed within an iteration).
func mustHashed(fn *ssa.Function, writes []ssa.CallInstruction, k string) (bool, string) {
	isField := func(x ssa.Value) bool {
		var base ssa.Value
		var idx int
		switch x := x.(type) {
		case *ssa.FieldAddr:
			base, idx = x.X, x.Field
		case *ssa.Field:
			base, idx = x.X, x.Field
		default:
			return false
		}
		owner, f := FieldOf(base.Type(), idx)
		return f != nil && shortOwner(owner)+"."+f.Name() == k
	}
	var sum ssa.Instruction
	for _, ci := range Calls(fn, false) {
		if CalleeName(ci.Common()) == cachePkg+".Hash.Sum" {
			sum = ci
		}
	}
	if sum == nil {
		return false, "no call to Hash.Sum"
	}
	why := "no hash write derives from it"
	for _, w := range writes {
		if w.Parent() != fn {
			continue
		}
		args := w.Common().Args
		if CalleeName(w.Common()) != cachePkg+".NewHash" && len(args) > 1 {
			args = args[1:]
		}
		derives := false
		for _, a := range args {
			if MustDerive(a, isField, true) {
				derives = true
			}
		}
		if !derives {
			for _, a := range args {
				if Derives(a, isField) || SliceHas(a, SliceOpts{ThroughCalls: true}, isField) {
					why = "the value written at " + fn.Prog.Fset.Position(w.Pos()).String() + " depends on it only on some paths (another alternative of the written value does not)"
				}
			}
			continue
		}
		// unconditional?
		t, _ := PathAvoiding(fn, nil, func(in ssa.Instruction) bool { return in == sum }, func(in ssa.Instruction) bool { return in == ssa.Instruction(w) }, nil)
		if t == nil {
			return true, ""
		}
		// inside a loop over a list: unconditional per iteration
		for _, b := range fn.Blocks {
			if !(strings.HasPrefix(b.Comment, "rangeindex.loop") || strings.HasPrefix(b.Comment, "rangeiter.loop")) || !b.Dominates(w.Block()) || !b.Dominates(sum.Block()) {
				continue
			}
			var body *ssa.BasicBlock
			for _, sc := range b.Succs {
				if sc.Dominates(w.Block()) {
					body = sc
				}
			}
			if body == nil {
				continue
			}
			t, _ := PathAvoiding(fn, body.Instrs[0], func(in ssa.Instruction) bool { return in.Block() == b || in == sum }, func(in ssa.Instruction) bool { return in == ssa.Instruction(w) }, nil)
			if t == nil || body.Instrs[0] == ssa.Instruction(w) {
				return true, ""
			}
		}
		why = "the hash write at " + fn.Prog.Fset.Position(w.Pos()).String() + " can be bypassed"
	}
	return false, why
}

// keyFunctions finds, among do and the runner functions it calls, the function
// that computes the action key (creates the cache.Hash) and the one that looks
// the key up (calls getCachedFiles) — by what they do, not by name, so that
// extracting these steps into helpers does not change the analysis.
func keyFunctions(c *Ctx, entryDo *ssa.Function) (keyFn, lookupFn *ssa.Function) {
	calleesOf := func(root *ssa.Function, has func(*ssa.Function) bool) *ssa.Function {
		seen := map[*ssa.Function]bool{}
		var found *ssa.Function
		var walk func(fn *ssa.Function, depth int)
		walk = func(fn *ssa.Function, depth int) {
			if fn == nil || seen[fn] || depth > 3 || found != nil {
				return
			}
			seen[fn] = true
			if has(fn) {
				found = fn
				return
			}
			for _, ci := range Calls(fn, false) {
				if callee := ci.Common().StaticCallee(); callee != nil && FuncPkgPath(callee) == runnerPkg {
					walk(callee, depth+1)
				}
			}
		}
		walk(root, 0)
		return found
	}
	keyFn = calleesOf(entryDo, func(fn *ssa.Function) bool { return len(CallsTo(fn, false, cachePkg+".NewHash")) > 0 })
	if keyFn == nil {
		keyFn = entryDo
	}
	if keyFn != entryDo {
		c.Note("the action key is computed in %s (called from do)", keyFn)
	}
	lookupFn = calleesOf(entryDo, func(fn *ssa.Function) bool { return len(CallsTo(fn, false, runnerPkg+".getCachedFiles")) > 0 })
	if lookupFn == nil {
		lookupFn = entryDo
	}
	return keyFn, lookupFn
}

// linkedPackages returns the import closure of cmd/staticcheck.
func linkedPackages(c *Ctx) map[string]bool {
	root := c.Pkgs[Module+"/cmd/staticcheck"]
	if root == nil {
		c.Undecided("anchor-missing package cmd/staticcheck")
	}
	out := map[string]bool{}
	packages.Visit([]*packages.Package{root}, nil, func(p *packages.Package) { out[p.PkgPath] = true })
	return out
}

var ambientAPIs = map[string]bool{
	"os.Getenv": true, "os.LookupEnv": true, "os.Environ": true, "os.Open": true, "os.OpenFile": true, "os.ReadFile": true, "os.ReadDir": true,
	"os.Stat": true, "os.Lstat": true, "os.Getwd": true, "os.Hostname": true, "os.UserHomeDir": true, "os.UserCacheDir": true, "os.UserConfigDir": true, "os.Executable": true,
	"time.Now": true, "time.Since": true, "time.Until": true, "runtime.NumCPU": true, "runtime.GOMAXPROCS": true, "os/exec.Command": true, "os/exec.CommandContext": true,
	"path/filepath.Glob": true, "path/filepath.Walk": true, "path/filepath.WalkDir": true, "io/ioutil.ReadFile": true, "io/ioutil.ReadDir": true,
	"path/filepath.Abs": true, "os.CreateTemp": true, "os.MkdirTemp": true, "os.TempDir": true, "os.Getpid": true, "os.Getuid": true,
	"go/build.Import": true, "go/build.ImportDir": true, "net.Dial": true, "net/http.Get": true,
}

func isAmbient(name string) bool {
	return ambientAPIs[name] || strings.HasPrefix(name, "math/rand.") || strings.HasPrefix(name, "math/rand/v2.") || strings.HasPrefix(name, "crypto/rand.")
}

// analyzerRunFuncs finds the Run functions of all analysis.Analyzer values
// built in module packages.
func analyzerRunFuncs(c *Ctx) []*ssa.Function {
	seen := map[*ssa.Function]bool{}
	var out []*ssa.Function
	for _, fn := range c.ModuleFuncs() {
		Instrs(fn, false, func(in ssa.Instruction) {
			st, ok := in.(*ssa.Store)
			if !ok || !IsFieldOf("analysis.Analyzer", "Run")(st.Addr) {
				return
			}
			for v := range BackSlice(st.Val, SliceOpts{}) {
				var f *ssa.Function
				switch v := v.(type) {
				case *ssa.Function:
					f = v
				case *ssa.MakeClosure:
					f, _ = v.Fn.(*ssa.Function)
				}
				if f != nil && !seen[f] {
					seen[f] = true
					out = append(out, f)
				}
			}
		})
	}
	sort.Slice(out, func(i, j int) bool { return out[i].String() < out[j].String() })
	return out
}

// insideMapLoop reports whether instruction in executes inside a loop that
// ranges over a map.
func insideMapLoop(fn *ssa.Function, in ssa.Instruction) bool {
	found := false
	Instrs(fn, false, func(x ssa.Instruction) {
		nx, ok := x.(*ssa.Next)
		if !ok || nx.IsString {
			return
		}
		rg, ok := nx.Iter.(*ssa.Range)
		if !ok {
			return
		}
		if _, isMap := rg.X.Type().Underlying().(*types.Map); !isMap {
			return
		}
		if nx.Block().Dominates(in.Block()) && ReachesFrom(fn, in, nx) {
			found = true
		}
	})
	return found
}

func runC04(c *Ctx) {
	table := loadTable(c, "c04_inputs.tsv")
	do := c.Func("lintcmd/runner", "(*subrunner).do")
	unc := c.Func("lintcmd/runner", "(*subrunner).doUncached")
	ch := c.Func("go/loader", "computeHash")
	linked := linkedPackages(c)

	entryDo := do
	do, lookupFn := keyFunctions(c, entryDo)
	hashedDo, doWrites := hashedFields(do)
	hashedCH, chWrites := hashedFields(ch)

	c.Rule("R4.1", func() {
		c.Floor("R4.1", 20)
		if len(doWrites) < 5 {
			c.Undecided("(*subrunner).do writes fewer than 5 items into its hash (%d)", len(doWrites))
		}
		inScope := func(fn *ssa.Function) bool {
			p := FuncPkgPath(fn)
			return p == runnerPkg || p == loaderPkg || p == Module+"/analysis/lint"
		}
		reach, parent := c.Reachable([]*ssa.Function{unc}, inScope)
		owners := map[string]bool{"runner.Runner": true, "runner.subrunner": true, "runner.packageAction": true, "runner.baseAction": true, "loader.PackageSpec": true, "loader.Options": true}
		type site struct {
			pos token.Pos
			fn  *ssa.Function
		}
		reads := map[string]site{}
		var fns []*ssa.Function
		for fn := range reach {
			fns = append(fns, fn)
		}
		sort.Slice(fns, func(i, j int) bool { return fns[i].String() < fns[j].String() })
		for _, fn := range fns {
			c.SawFunc(fn.String())
			for _, a := range FieldAccesses(fn) {
				so := shortOwner(a.Owner)
				if !owners[so] || a.Kind == "write" || a.Kind == "via" {
					continue
				}
				k := so + "." + a.Field
				if _, ok := reads[k]; !ok {
					reads[k] = site{a.Instr.Pos(), fn}
				}
			}
		}
		c.Note("R4.1: fields hashed in do: %v", SortedKeys(hashedDo))
		for _, k := range SortedKeys(reads) {
			s := reads[k]
			key := k + "::input-in-key"
			e, listed := table["input"][k]
			if hashedDo[k] && !(listed && e.class == "filehash") {
				must, why := mustHashed(do, doWrites, k)
				if k == "runner.packageAction.Package" || k == "runner.subrunner.Runner" || k == "runner.packageAction.baseAction" {
					must = true // containers: their fields are accounted for individually
				}
				c.Check(key, s.pos, must, "read on the miss path and written into the action key on every path: %s", why)
				continue
			}
			switch {
			case listed && e.class == "exempt":
				c.CheckTrivial(key, s.pos, true, "exempt: %s", e.reason)
			case listed && e.class == "hashed":
				c.Check(key, s.pos, false, "%s must be written into the action key (%s)", k, e.reason)
			case listed && e.class == "filehash":
				c.Check(key, s.pos, hashedDo["filehash:"+k], "the content hash (cache.FileHash) of the file named by %s must be written into the key of the action that reads it (%s)", k, e.reason)
			case listed && strings.HasPrefix(e.class, "covered-by "):
				cover := strings.TrimPrefix(e.class, "covered-by ")
				ok := hashedDo[cover]
				why := ""
				if !ok {
					why = "covering field " + cover + " is no longer written into the key"
				} else if must, w := mustHashed(do, doWrites, cover); !must {
					ok = false
					why = "covering field " + cover + " is not written into the key on every path: " + w
				}
				if ok && cover == "loader.PackageSpec.Hash" && !hashedCH[k] {
					ok = false
					why = "computeHash no longer hashes " + k
				}
				c.Check(key, s.pos, ok, "covered by %s (%s) %s", cover, e.reason, why)
			default:
				c.Check(key, s.pos, false, "%s is read on the cache-miss path (first in %s, reached via %s) but is neither written into the action key nor listed in tables/c04_inputs.tsv: a change of it yields a stale hit", k, s.fn, CallChain(parent, s.fn))
			}
		}
		// Config: the whole struct is hashed except fields cleared on the copy
		cleared := map[string]bool{}
		Instrs(do, false, func(in ssa.Instruction) {
			st, ok := in.(*ssa.Store)
			if !ok {
				return
			}
			fa, ok := st.Addr.(*ssa.FieldAddr)
			if !ok {
				return
			}
			owner, f := FieldOf(fa.X.Type(), fa.Field)
			if f == nil || shortOwner(owner) != "config.Config" {
				return
			}
			if al, ok := fa.X.(*ssa.Alloc); ok && al.Comment == "hashCfg" || true {
				if IsNilConst(st.Val) {
					cleared[f.Name()] = true
				}
			}
		})
		c.Note("R4.1: Config fields cleared before hashing: %v", SortedKeys(cleared))
		cfgT := c.NamedType("config", "Config").Underlying().(*types.Struct)
		// the configuration is written as a whole (an operand of type config.Config), or field by field
		whole := false
		for _, w := range doWrites {
			for _, a := range w.Common().Args {
				if SliceHas(a, SliceOpts{ThroughCalls: true}, func(v ssa.Value) bool {
					mi, ok := v.(*ssa.MakeInterface)
					return ok && strings.HasSuffix(mi.X.Type().String(), "/config.Config")
				}) {
					whole = true
				}
			}
		}
		for f := range cfgT.Fields() {
			if f.Name() == "Checks" {
				c.Check("config.Config."+f.Name()+"::in-key", do.Pos(), true, "Checks is applied after loading cached results and is deliberately not part of the key")
				continue
			}
			ok := !cleared[f.Name()] && (whole || hashedDo["config.Config."+f.Name()])
			c.Check("config.Config."+f.Name()+"::in-key", do.Pos(), ok, "Config.%s must be part of the hashed configuration (only Checks may be left out: it is applied after loading cached results); whole struct written: %v, cleared: %v", f.Name(), whole, cleared[f.Name()])
		}
	})

	c.Rule("R4.2", func() {
		c.Floor("R4.2", 8)
		if len(chWrites) < 5 {
			c.Undecided("computeHash writes fewer than 5 items into its hash (%d)", len(chWrites))
		}
		c.Note("R4.2: fields hashed in computeHash: %v", SortedKeys(hashedCH))
		// required fields: what loader.Load reads of a PackageSpec (these are the table's covered-by PackageSpec.Hash entries)
		for _, k := range SortedKeys(table["input"]) {
			e := table["input"][k]
			if e.class != "covered-by loader.PackageSpec.Hash" {
				continue
			}
			c.Check(k+"::in-package-hash", ch.Pos(), hashedCH[k], "computeHash must hash %s (%s)", k, e.reason)
		}
		c.Check("packages.Module.GoMod::in-package-hash", ch.Pos(), hashedCH["packages.Module.GoMod"], "the go.mod file (language version) is hashed on the fallback branch")
		c.Check("loader.PackageSpec.PkgPath::in-package-hash", ch.Pos(), hashedCH["loader.PackageSpec.PkgPath"], "the import path is hashed")
		// the part of a Go build id (actionID/contentID) that is hashed must contain the action id, its first
		// component: the content id is a hash of the compiled archive and does not change with edits the
		// compiler ignores (doc comments such as "Deprecated:", //lint: directives), which do change results
		nBuildID := 0
		for _, w := range chWrites {
			args := w.Common().Args
			for _, a := range args {
				sl := BackSlice(a, SliceOpts{ThroughCalls: true})
				fromID := false
				for x := range sl {
					if call, ok := x.(*ssa.Call); ok && strings.HasSuffix(CalleeName(&call.Call), "loader.getBuildid") {
						fromID = true
					}
				}
				if !fromID {
					continue
				}
				suffixOnly := ""
				for x := range sl {
					switch x := x.(type) {
					case *ssa.Slice:
						if _, isStr := x.X.Type().Underlying().(*types.Basic); isStr && x.Low != nil {
							if k, ok := ConstInt(x.Low); !ok || k != 0 {
								suffixOnly = "a slice of the id that does not start at its beginning"
							}
						}
					case *ssa.Extract:
						if call, ok := x.Tuple.(*ssa.Call); ok && CalleeName(&call.Call) == "strings.Cut" && x.Index == 1 {
							suffixOnly = "the part after the separator (strings.Cut's second result)"
						}
					case *ssa.Call:
						switch CalleeName(&x.Call) {
						case "strings.TrimPrefix", "strings.CutPrefix", "path.Base", "path/filepath.Base":
							suffixOnly = "the result of " + CalleeName(&x.Call)
						}
					case *ssa.IndexAddr:
						if k, ok := ConstInt(x.Index); ok && k != 0 && Derives(x.X, IsCallResult("strings.Split", "strings.SplitN")) {
							suffixOnly = "a later component of the split id"
						}
					}
				}
				nBuildID++
				c.Check(FuncKey(w.Parent())+"::build-id-part-contains-action-id#"+itoa(nBuildID-1), w.Pos(), suffixOnly == "", "what is hashed of a build id must include its first component (the action id, which covers every input of the compilation including comments): found %s", suffixOnly)
			}
		}
		c.Check(FuncKey(ch)+"::hashes-build-ids-of-package-and-imports", ch.Pos(), nBuildID >= 2, "computeHash writes %d build ids into the package hash; the package's own and each import's are expected (the import's build id is what makes a package's key change when a dependency changes)", nBuildID)
		// GOOS / GOARCH (constants in SSA: use the AST)
		fd, p := c.FuncDecl(ch.Object().(*types.Func))
		seenSel := map[string]bool{}
		// locals that are plain copies of runtime.GOOS / runtime.GOARCH
		copies := map[types.Object]string{}
		runtimeSel := func(e ast.Expr) string {
			if se, ok := ast.Unparen(e).(*ast.SelectorExpr); ok {
				if obj := p.TypesInfo.Uses[se.Sel]; obj != nil && obj.Pkg() != nil && obj.Pkg().Path() == "runtime" {
					return obj.Name()
				}
			}
			if id, ok := ast.Unparen(e).(*ast.Ident); ok {
				return copies[p.TypesInfo.ObjectOf(id)]
			}
			return ""
		}
		ast.Inspect(fd.Body, func(n ast.Node) bool {
			switch n := n.(type) {
			case *ast.AssignStmt:
				if len(n.Lhs) == len(n.Rhs) {
					for i := range n.Lhs {
						if id, ok := n.Lhs[i].(*ast.Ident); ok {
							if nm := runtimeSel(n.Rhs[i]); nm != "" {
								copies[p.TypesInfo.ObjectOf(id)] = nm
							}
						}
					}
				}
			case *ast.ValueSpec:
				if len(n.Names) == len(n.Values) {
					for i := range n.Names {
						if nm := runtimeSel(n.Values[i]); nm != "" {
							copies[p.TypesInfo.ObjectOf(n.Names[i])] = nm
						}
					}
				}
			}
			return true
		})
		ast.Inspect(fd.Body, func(n ast.Node) bool {
			ce, ok := n.(*ast.CallExpr)
			if !ok {
				return true
			}
			for _, a := range ce.Args {
				if nm := runtimeSel(a); nm != "" {
					seenSel[nm] = true
				}
			}
			return true
		})
		c.Check("runtime.GOOS::in-package-hash", ch.Pos(), seenSel["GOOS"], "GOOS is hashed")
		c.Check("runtime.GOARCH::in-package-hash", ch.Pos(), seenSel["GOARCH"], "GOARCH is hashed")
		// every path to Sum passes the build-id write or enters the per-file fallback
		var sum ssa.Instruction
		for _, ci := range Calls(ch, false) {
			if IsCallTo(ci, cachePkg+".Hash.Sum") {
				sum = ci
			}
		}
		if sum == nil {
			c.Undecided("computeHash does not call Hash.Sum")
		}
		isFilesWrite := func(in ssa.Instruction) bool {
			ci, ok := in.(ssa.CallInstruction)
			if !ok || !IsCallTo(ci, "fmt.Fprintf") {
				return false
			}
			for _, a := range ci.Common().Args[1:] {
				if Derives(a, func(v ssa.Value) bool {
					call, ok := v.(*ssa.Call)
					return ok && IsCallTo(call, loaderPkg+".getBuildid") && DerivesLocal(call.Call.Args[0], func(x ssa.Value) bool {
						fa, ok := x.(*ssa.FieldAddr)
						if !ok {
							return false
						}
						_, isParam := fa.X.(*ssa.Parameter)
						return isParam && IsFieldOf("PackageSpec", "ExportFile")(fa)
					})
				}) {
					return true
				}
			}
			return false
		}
		isFileLoop := func(in ssa.Instruction) bool {
			// the load of pkg.CompiledGoFiles that starts the fallback loop
			u, ok := in.(*ssa.UnOp)
			return ok && u.Op == token.MUL && IsFieldOf("PackageSpec", "CompiledGoFiles")(u.X)
		}
		t, path := PathAvoiding(ch, nil, func(in ssa.Instruction) bool { return in == sum }, func(in ssa.Instruction) bool { return isFilesWrite(in) || isFileLoop(in) }, nil)
		c.Check(FuncKey(ch)+"::every-path-hashes-the-files", sum.Pos(), t == nil, "every path to Sum must either write the export file's build id or enter the per-file fallback (files + go.mod); path that does neither: %s", PathString(ch, path))
		// every import with an export file contributes its content (build id or file hash) on every path.
		// The per-import work may sit in computeHash's loop or in a helper that is handed the import.
		nImportRules := 0
		for _, F := range DeepFuncs(ch, 2) {
			F := F
			exportOfDep := func(v ssa.Value) bool {
				return DerivesLocal(v, func(x ssa.Value) bool {
					fa, ok := x.(*ssa.FieldAddr)
					if !ok || !IsFieldOf("PackageSpec", "ExportFile")(fa) {
						return false
					}
					_, isParam := fa.X.(*ssa.Parameter)
					return !isParam || F != ch // in computeHash itself the parameter is the package, not an import
				})
			}
			nonEmpty := ComplementEdges(EqEdges(F, func(x, y ssa.Value) bool {
				k, ok := y.(*ssa.Const)
				return ok && k.Value != nil && k.Value.ExactString() == `""` && exportOfDep(x)
			}))
			for e := range LenNonZeroEdges(F, exportOfDep) {
				nonEmpty[e] = true
			}
			if len(nonEmpty) == 0 {
				continue
			}
			contentWrite := func(in ssa.Instruction) bool {
				ci, ok := in.(ssa.CallInstruction)
				if !ok || !IsCallTo(ci, "fmt.Fprintf", "fmt.Fprint", "fmt.Fprintln", "io.WriteString", cachePkg+".Hash.Write") {
					return false
				}
				for _, a := range ci.Common().Args[1:] {
					if Derives(a, func(v ssa.Value) bool {
						call, ok := v.(*ssa.Call)
						return ok && IsCallTo(call, loaderPkg+".getBuildid", cachePkg+".FileHash") && exportOfDep(call.Call.Args[0])
					}) {
						return true
					}
				}
				return false
			}
			for e := range nonEmpty {
				var blk *ssa.BasicBlock
				var iff ssa.Instruction
				for _, b := range F.Blocks {
					if b.Index == e.Block {
						blk = b.Succs[e.Succ]
						iff = b.Instrs[len(b.Instrs)-1]
					}
				}
				first := blk.Instrs[0]
				isEnd := func(in ssa.Instruction) bool {
					if in == sum || in == iff {
						return true
					}
					if r, ok := in.(*ssa.Return); ok && F != ch {
						// the helper returns normally (no error)
						if len(r.Results) == 0 {
							return true
						}
						last := ReturnOperand(r, len(r.Results)-1)
						return last == nil || IsNilConst(last)
					}
					return false
				}
				t, path := PathAvoiding(F, first, isEnd, func(in ssa.Instruction) bool {
					if contentWrite(in) {
						return true
					}
					_, isRet := in.(*ssa.Return)
					return isRet && !isEnd(in)
				}, nil)
				if contentWrite(first) {
					t = nil
				}
				nImportRules++
				c.Check(FuncKey(ch)+"::loader.PackageSpec.Imports-content-on-every-path", first.Pos(), t == nil, "an import that has an export file must contribute that file's build id or hash to the key on every path; path that hashes only its name: %s", PathString(F, path))
			}
		}
		if nImportRules == 0 {
			c.Undecided("computeHash no longer distinguishes imports without an export file")
		}
		// no hash write inside a loop over a map
		for _, w := range append(append([]ssa.CallInstruction{}, chWrites...), doWrites...) {
			fn := w.Parent()
			c.Check(FuncKey(fn)+"::"+c.CallText(w.Pos())+"::not-in-map-order", w.Pos(), !insideMapLoop(fn, w), "a hash write inside a loop over a map makes the key depend on iteration order: equal inputs would miss (or, worse, different inputs would be written in a colliding order)")
		}
	})

	c.Rule("R4.3", func() {
		c.Floor("R4.3", 3)
		ns := c.Func("lintcmd/runner", "newSubrunner")
		var namesVal, joinArg ssa.Value
		for _, v := range storedToField(ns, "runner.subrunner", "analyzerNames") {
			namesVal = v
		}
		if call, ok := namesVal.(*ssa.Call); ok && IsCallTo(call, "strings.Join") {
			joinArg = call.Call.Args[0]
		}
		if joinArg == nil {
			c.Undecided("newSubrunner no longer builds analyzerNames with strings.Join")
		}
		fromParam := func(v ssa.Value) bool {
			return SliceHas(v, SliceOpts{ThroughCalls: true}, func(x ssa.Value) bool {
				p, ok := x.(*ssa.Parameter)
				return ok && strings.Contains(p.Type().String(), "analysis.Analyzer")
			})
		}
		c.Check(FuncKey(ns)+"::names-of-the-executed-analyzers", ns.Pos(), fromParam(joinArg) && SliceHas(joinArg, SliceOpts{ThroughCalls: true}, IsFieldOf("analysis.Analyzer", "Name")), "analyzerNames is built from the Name fields of the analyzers parameter")
		same := false
		for _, v := range storedToField(ns, "runner.subrunner", "analyzers") {
			if _, ok := v.(*ssa.Parameter); ok {
				same = true
			}
		}
		c.Check(FuncKey(ns)+"::same-slice-is-executed", ns.Pos(), same, "the analyzers that are run are exactly the parameter whose names are hashed")
		sorted := false
		for _, ci := range CallsTo(ns, false, "sort.Strings", "slices.Sort") {
			if ci.Common().Args[0] == joinArg && InstrDominates(ci, namesVal.(*ssa.Call)) {
				sorted = true
			}
		}
		c.Check(FuncKey(ns)+"::names-sorted-before-join", ns.Pos(), sorted, "the names are sorted before being joined, so the key does not depend on registration/map order")
		npa := c.Func("lintcmd/runner", "newPackageAction")
		depsSorted := false
		for _, ci := range CallsTo(npa, false, "sort.Slice", "sort.SliceStable", "slices.SortFunc") {
			if Derives(ci.Common().Args[0], IsFieldOf("baseAction", "deps")) {
				depsSorted = true
			}
		}
		c.Check(FuncKey(npa)+"::deps-sorted", npa.Pos(), depsSorted, "the dependency list, whose elements are hashed in order, is sorted when the action is built (Imports is a map)")
	})

	c.Rule("R4.4", func() {
		c.Floor("R4.4", 1)
		allowed := map[string]bool{Module + "/config": true, lintcmdPkg: true, runnerPkg: true}
		n := 0
		for _, fn := range c.ModuleFuncs() {
			if allowed[FuncPkgPath(fn)] {
				continue
			}
			for _, a := range FieldAccesses(fn) {
				if shortOwner(a.Owner) == "config.Config" && a.Field == "Checks" && a.Kind != "write" {
					n++
					c.Check(FuncKey(fn)+"::reads-Config.Checks", a.Instr.Pos(), false, "Config.Checks is excluded from the cache key (selection is applied after loading cached results), so analysis code must not read it")
				}
			}
		}
		c.Check("module::readers-of-Config.Checks", token.NoPos, n == 0, "%d readers of Config.Checks outside config, lintcmd and lintcmd/runner", n)
	})

	c.Rule("R4.4b", func() { checksReadOnMissPath(c) })

	// R4.8: user-controlled lists enter the key through an injective rendering.
	// The configuration's lists (initialisms, whitelists) are arbitrary strings
	// from staticcheck.conf. Written with %#v or %q every element is quoted, so
	// different lists give different key material; joined with a separator, or
	// printed with %s/%v, ["a,b"] and ["a","b"] (or ["a b"] and ["a","b"]) are
	// the same bytes, and editing one into the other is served from the cache
	// although the analyzers see different options.
	c.Rule("R4.8", func() {
		c.Floor("R4.8", 1)
		isCfgList := func(v ssa.Value) bool {
			t := v.Type()
			if p, ok := t.(*types.Pointer); ok {
				t = p.Elem()
			}
			if strings.HasSuffix(t.String(), "/config.Config") {
				return true
			}
			var base ssa.Value
			var idx int
			switch x := v.(type) {
			case *ssa.FieldAddr:
				base, idx = x.X, x.Field
			case *ssa.Field:
				base, idx = x.X, x.Field
			default:
				return false
			}
			owner, f := FieldOf(base.Type(), idx)
			if f == nil || shortOwner(owner) != "config.Config" {
				return false
			}
			_, isSlice := f.Type().Underlying().(*types.Slice)
			return isSlice
		}
		n := 0
		for _, w := range doWrites {
			args := w.Common().Args
			// fmt.Fprintf(h, format, a...): the variadic operands
			if CalleeName(w.Common()) != "fmt.Fprintf" || len(args) < 3 {
				for _, a := range args {
					if SliceHas(a, SliceOpts{ThroughCalls: true}, isCfgList) {
						n++
						c.Check(FuncKey(w.Parent())+"::config-lists-rendered-injectively#"+itoa(n), w.Pos(), false, "configuration lists are written into the key by %s; only fmt.Fprintf with %%#v or %%q is known to keep element boundaries", CalleeName(w.Common()))
					}
				}
				continue
			}
			format, isConst := constStringVal(args[1])
			var verbs []string
			if isConst {
				for i := 0; i < len(format); i++ {
					if format[i] != '%' {
						continue
					}
					j := i + 1
					for j < len(format) && strings.ContainsRune("#+- 0123456789.*[]", rune(format[j])) {
						j++
					}
					if j < len(format) {
						if format[j] != '%' {
							verbs = append(verbs, format[i:j+1])
						}
						i = j
					}
				}
			}
			// the operands: elements stored into the variadic slice, in order
			var operands []ssa.Value
			if sl, ok := args[2].(*ssa.Slice); ok {
				if al, ok := sl.X.(*ssa.Alloc); ok && al.Referrers() != nil {
					byIdx := map[int64]ssa.Value{}
					for _, r := range *al.Referrers() {
						ia, ok := r.(*ssa.IndexAddr)
						if !ok || ia.Referrers() == nil {
							continue
						}
						k, _ := ConstInt(ia.Index)
						for _, rr := range *ia.Referrers() {
							if st, ok := rr.(*ssa.Store); ok && st.Addr == ssa.Value(ia) {
								byIdx[k] = st.Val
							}
						}
					}
					for i := int64(0); i < int64(len(byIdx)); i++ {
						operands = append(operands, byIdx[i])
					}
				}
			}
			for i, op := range operands {
				if op == nil || !SliceHas(op, SliceOpts{ThroughCalls: true}, isCfgList) {
					continue
				}
				n++
				verb := "?"
				if i < len(verbs) {
					verb = verbs[i]
				}
				joined := SliceHas(op, SliceOpts{ThroughCalls: true}, func(v ssa.Value) bool {
					call, ok := v.(*ssa.Call)
					if !ok {
						return false
					}
					name := CalleeName(&call.Call)
					return name == "strings.Join" || strings.HasPrefix(name, "fmt.Sprint")
				})
				ok := !joined && (verb == "%#v" || verb == "%q")
				how := "with verb " + verb
				if joined {
					how = "joined into one string"
				}
				c.Check(FuncKey(w.Parent())+"::config-lists-rendered-injectively#"+itoa(n), w.Pos(), ok, "the configuration's lists are user-provided strings; they are written into the action key %s, which does not keep element boundaries ([\"a,b\"] and [\"a\",\"b\"] give the same key although analyzers see different options); use %%#v or %%q", how)
			}
		}
		if n == 0 {
			c.Undecided("no hash write of the configuration found in the key computation")
		}
	})

	c.Rule("R4.5", func() {
		c.Floor("R4.5", 10)
		roots := append([]*ssa.Function{entryDo, unc}, analyzerRunFuncs(c)...)
		if len(roots) < 100 {
			c.Undecided("found only %d analyzer Run functions", len(roots)-1)
		}
		reach, parent := c.Reachable(roots, func(fn *ssa.Function) bool { return FuncInModule(fn) && linked[FuncPkgPath(fn)] })
		c.Note("R4.5: %d worker roots (doUncached + analyzer Run functions), %d module functions reachable", len(roots), len(reach))
		var fns []*ssa.Function
		for fn := range reach {
			if FuncInModule(fn) {
				fns = append(fns, fn)
			}
		}
		sort.Slice(fns, func(i, j int) bool { return fns[i].String() < fns[j].String() })
		seen := map[string]bool{}
		// thin wrappers: a module function that passes one of its parameters straight to an ambient API
		// (func openSource(name string) (*os.File, error) { return os.Open(name) }) is judged at its call sites
		type wrap struct {
			api   string
			param int
		}
		wrappers := map[*ssa.Function]wrap{}
		for _, fn := range fns {
			for _, ci := range Calls(fn, false) {
				n := CalleeName(ci.Common())
				if !isAmbient(n) || len(ci.Common().Args) == 0 {
					continue
				}
				if _, listed := table["ambient"][fn.String()+" calls "+n]; listed {
					continue
				}
				for pi, prm := range fn.Params {
					if DerivesLocal(ci.Common().Args[0], func(v ssa.Value) bool { return v == ssa.Value(prm) }) && len(fn.Blocks) <= 3 {
						wrappers[fn] = wrap{n, pi}
					}
				}
			}
		}
		for _, fn := range fns {
			if _, isWrapper := wrappers[fn]; isWrapper {
				continue
			}
			for _, ci := range Calls(fn, false) {
				n := CalleeName(ci.Common())
				arg0 := ssa.Value(nil)
				if len(ci.Common().Args) > 0 {
					arg0 = ci.Common().Args[0]
				}
				if w, ok := wrappers[ci.Common().StaticCallee()]; ok && w.param < len(ci.Common().Args) {
					n, arg0 = w.api, ci.Common().Args[w.param]
				}
				if !isAmbient(n) {
					continue
				}
				k := fn.String() + " calls " + n
				e, ok := table["ambient"][k]
				// an ambient value that is written into the cache key computed by the same function is accounted for
				if call, isCall := ci.(*ssa.Call); isCall {
					if hf, hw := hashedFields(fn); len(hw) > 0 && hf["call:"+n+"@"+itoa(InstrIndex(call))+"/"+itoa(call.Block().Index)] {
						nth := 0
						for seen[k+"::hashed#"+itoa(nth)] {
							nth++
						}
						seen[k+"::hashed#"+itoa(nth)] = true
						c.Check("ambient value written into the key::"+n+"#"+itoa(nth), ci.Pos(), true, "the value read here flows into a hash write of %s", fn)
						continue
					}
				}
				if ok && (strings.HasPrefix(e.class, "filehash ") || strings.HasPrefix(e.class, "opens ")) {
					field := strings.TrimPrefix(strings.TrimPrefix(e.class, "filehash "), "opens ")
					covered, how := hashedDo["filehash:"+field], "written into the reader's action key as cache.FileHash"
					if strings.HasPrefix(e.class, "opens ") {
						covered, how = hashedCH[field], "hashed by computeHash"
					}
					fromField := false
					for y := range BackSlice(arg0, SliceOpts{}) {
						var base ssa.Value
						var idx int
						switch y := y.(type) {
						case *ssa.FieldAddr:
							base, idx = y.X, y.Field
						case *ssa.Field:
							base, idx = y.X, y.Field
						default:
							continue
						}
						if owner, f := FieldOf(base.Type(), idx); f != nil && shortOwner(owner)+"."+f.Name() == field {
							fromField = true
						}
					}
					nth := 0
					for seen[k+"#"+itoa(nth)] {
						nth++
					}
					seen[k+"#"+itoa(nth)] = true
					c.Check(k+"::file-content-is-hashed#"+itoa(nth), ci.Pos(), fromField && covered, "the file opened here must be the one named by %s (%v), whose content is %s (%v): %s", field, fromField, how, covered, e.reason)
					continue
				}
				if seen[k] {
					continue
				}
				seen[k] = true
				if ok {
					c.CheckTrivial(k, ci.Pos(), true, "listed: %s", e.reason)
				} else {
					c.Check(k, ci.Pos(), false, "analysis code reads an ambient input (%s) that is not part of the cache key and not in tables/c04_inputs.tsv; reached via %s", n, CallChain(parent, fn))
				}
			}
			// build.Default and os.Args are globals
			Instrs(fn, false, func(in ssa.Instruction) {
				u, ok := in.(*ssa.UnOp)
				if !ok {
					return
				}
				for x := range BackSlice(u.X, SliceOpts{NoMemory: true}) {
					if g, ok := x.(*ssa.Global); ok && g.Pkg != nil {
						full := g.Pkg.Pkg.Path() + "." + g.Name()
						if full == "os.Args" || full == "go/build.Default" && FuncPkgPath(fn) != loaderPkg {
							k := fn.String() + " reads " + full
							if !seen[k] {
								seen[k] = true
								_, listed := table["ambient"][k]
								c.Check(k, in.Pos(), listed, "analysis code reads ambient global %s", full)
							}
						}
					}
				}
			})
		}
		// R4.5b: nobody reads Pass.OtherFiles (non-Go files are not hashed)
		nOther := 0
		for _, fn := range c.ModuleFuncs() {
			if !linked[FuncPkgPath(fn)] || FuncPkgPath(fn) == runnerPkg {
				continue
			}
			for _, a := range FieldAccesses(fn) {
				if shortOwner(a.Owner) == "analysis.Pass" && (a.Field == "OtherFiles" || a.Field == "IgnoredFiles" || a.Field == "ReadFile") && a.Kind != "write" {
					nOther++
					c.Check(FuncKey(fn)+"::reads-Pass."+a.Field, a.Instr.Pos(), false, "non-Go files are not part of the package hash; an analyzer that reads them makes cached results stale")
				}
			}
		}
		c.Check("module::readers-of-Pass.OtherFiles", token.NoPos, nOther == 0, "%d readers of Pass.OtherFiles/IgnoredFiles/ReadFile in linked analysis code", nOther)
	})

	c.Rule("R4.6", func() {
		c.Floor("R4.6", 4)
		var lookups []*ssa.Call
		for _, ci := range CallsTo(lookupFn, false, runnerPkg+".getCachedFiles") {
			if call, ok := ci.(*ssa.Call); ok {
				lookups = append(lookups, call)
			}
		}
		if len(lookups) != 1 {
			c.Undecided("expected one getCachedFiles call in do")
		}
		lk := lookups[0]
		restored := map[string]bool{}
		for x := range BackSlice(lk.Call.Args[2], SliceOpts{}) {
			if fa, ok := x.(*ssa.FieldAddr); ok {
				if owner, f := FieldOf(fa.X.Type(), fa.Field); f != nil && strings.HasSuffix(owner, "runner.packageAction") {
					restored[f.Name()] = true
				}
			}
		}
		missEdges := ComplementEdges(ErrNilEdges(lookupFn, func(v ssa.Value) bool { return DerivesLocal(v, func(x ssa.Value) bool { return x == ssa.Value(lk) }) }))
		// fields written on the miss branch of lookupFn, and by doUncached
		written := map[string]token.Pos{}
		Instrs(lookupFn, false, func(in ssa.Instruction) {
			st, ok := in.(*ssa.Store)
			if !ok {
				return
			}
			fa, ok := st.Addr.(*ssa.FieldAddr)
			if !ok {
				return
			}
			owner, f := FieldOf(fa.X.Type(), fa.Field)
			if f == nil || !(strings.HasSuffix(owner, "runner.packageAction") || strings.HasSuffix(owner, "runner.baseAction")) {
				return
			}
			if ok, _ := MustPassEdges(lookupFn, st, missEdges); ok {
				written[shortOwner(owner)+"."+f.Name()] = st.Pos()
			}
		})
		Instrs(unc, false, func(in ssa.Instruction) {
			st, ok := in.(*ssa.Store)
			if !ok {
				return
			}
			fa, ok := st.Addr.(*ssa.FieldAddr)
			if !ok {
				return
			}
			owner, f := FieldOf(fa.X.Type(), fa.Field)
			if f == nil || !(strings.HasSuffix(owner, "runner.packageAction") || strings.HasSuffix(owner, "runner.baseAction")) {
				return
			}
			written[shortOwner(owner)+"."+f.Name()] = st.Pos()
		})
		// failing in doUncached means nothing is cached: the failed/errors writes must be followed by a return before any cache write
		for _, k := range SortedKeys(written) {
			name := k[strings.LastIndex(k, ".")+1:]
			key := k + "::miss-result-restored-on-hit"
			switch {
			case restored[name]:
				c.Check(key, written[k], true, "set on a miss and restored from the cache on a hit")
			case k == "runner.baseAction.failed" || k == "runner.baseAction.errors":
				// allowed only in doUncached on a path that ends without caching: do returns before writing when a.failed
				okFail := true
				Instrs(lookupFn, false, func(in ssa.Instruction) {
					st, ok := in.(*ssa.Store)
					if ok && (IsFieldOf("baseAction", "failed")(st.Addr) || IsFieldOf("baseAction", "errors")(st.Addr)) {
						okFail = false
					}
				})
				// and do() must test a.failed before any writeCache call
				failedEdges := CondEdges(lookupFn, func(cond ssa.Value) (bool, bool) {
					u, ok := cond.(*ssa.UnOp)
					return ok && u.Op == token.MUL && IsFieldOf("baseAction", "failed")(u.X), false
				})
				for _, w := range CallsTo(lookupFn, false, runnerPkg+".Runner.writeCacheReader", runnerPkg+".Runner.writeCacheGob") {
					if ok, _ := MustPassEdges(lookupFn, w, failedEdges); !ok {
						okFail = false
					}
				}
				c.Check(key, written[k], okFail, "a failure may be recorded on the miss path only by doUncached, and do must skip every cache write when the action failed (otherwise a later hit would report success for a package that failed)")
			default:
				e, listed := table["parity"][k]
				if listed {
					c.CheckTrivial(key, written[k], true, "exempt: %s", e.reason)
				} else {
					c.Check(key, written[k], false, "%s is set only when the package is recomputed; on a cache hit it keeps its zero value, so warm and cold runs differ", k)
				}
			}
		}
	})

	c.Rule("R4.7", func() {
		c.Floor("R4.7", 4)
		nl := c.Func("lintcmd", "newLinter")
		cs := c.Func("lintcmd", "computeSalt")
		nh := c.Func("lintcmd/cache", "NewHash")
		isSet := func(in ssa.Instruction) bool {
			ci, ok := in.(ssa.CallInstruction)
			return ok && IsCallTo(ci, cachePkg+".SetSalt") && Derives(ci.Common().Args[0], IsCallResult(lintcmdPkg+".computeSalt"))
		}
		for i, r := range SuccessReturns(nl, 1) {
			t, path := PathAvoiding(nl, nil, func(in ssa.Instruction) bool { return in == ssa.Instruction(r) }, isSet, nil)
			c.Check(FuncKey(nl)+"::SetSalt-before-success#"+itoa(i), r.Pos(), t == nil, "every linter is created after cache.SetSalt(computeSalt()); path: %s", PathString(nl, path))
		}
		fromExe := func(v ssa.Value) bool { return Derives(v, IsCallResult("os.Executable")) }
		for i, r := range SuccessReturns(cs, 1) {
			v := ReturnOperand(r, 0)
			ok := v != nil && fromExe(v)
			if !ok && v != nil {
				// h.Sum(nil) where io.Copy(h, f) and f opened from the executable
				if call, isCall := v.(*ssa.Call); isCall && call.Call.IsInvoke() && call.Call.Method.Name() == "Sum" {
					for _, ci := range CallsTo(cs, false, "io.Copy") {
						if DerivesLocal(ci.Common().Args[0], func(x ssa.Value) bool { return x == call.Call.Value }) && fromExe(ci.Common().Args[1]) {
							ok = true
						}
					}
				}
			}
			c.Check(FuncKey(cs)+"::salt-from-executable#"+itoa(i), r.Pos(), ok, "the salt is the build id or the content hash of the running executable, so a different staticcheck build never reuses entries")
		}
		// NewHash writes the salt
		wrote := false
		for _, ci := range Calls(nh, false) {
			cc := ci.Common()
			if strings.HasSuffix(CalleeName(cc), "Hash.Write") || (cc.IsInvoke() && cc.Method.Name() == "Write") {
				for _, a := range cc.Args {
					if DerivesLocal(a, func(x ssa.Value) bool { g, ok := x.(*ssa.Global); return ok && g.Name() == "hashSalt" }) {
						wrote = true
					}
				}
			}
		}
		c.Check(FuncKey(nh)+"::salt-is-first-write", nh.Pos(), wrote, "every Hash starts with the salt")
		// SetSalt is called from newLinter only
		callers := 0
		for _, fn := range c.ModuleFuncs() {
			if !linked[FuncPkgPath(fn)] {
				continue
			}
			for range CallsTo(fn, false, cachePkg+".SetSalt") {
				callers++
				if fn != nl {
					c.Check(FuncKey(fn)+"::calls-SetSalt", fn.Pos(), false, "the salt is set once, by newLinter")
				}
			}
		}
		c.Check("module::single-SetSalt", token.NoPos, callers == 1, "%d callers of cache.SetSalt", callers)
	})
}

// checksReadOnMissPath requires that nothing the runner executes when it has
// to analyse a package (the miss path: do → doUncached → analyzers, including
// function values it is handed) reads Config.Checks. The selection of checks
// is applied by lintcmd after results were loaded, from the cache or fresh —
// which is the reason Checks is left out of the cache key. A reader on the
// miss path makes what is cached depend on the selection of the run that
// happened to populate the cache.
func checksReadOnMissPath(c *Ctx) {
	do := c.Func("lintcmd/runner", "(*subrunner).do")
	unc := c.Func("lintcmd/runner", "(*subrunner).doUncached")
	linked := map[string]bool{}
	if c.Pkgs[Module+"/cmd/staticcheck"] != nil {
		linked = linkedPackages(c)
	} else {
		for path := range c.Pkgs {
			linked[path] = true
		}
	}
	roots := []*ssa.Function{do, unc}
	reach, parent := c.Reachable(roots, func(fn *ssa.Function) bool { return FuncInModule(fn) && linked[FuncPkgPath(fn)] })
	var fns []*ssa.Function
	for fn := range reach {
		if FuncInModule(fn) {
			fns = append(fns, fn)
		}
	}
	sort.Slice(fns, func(i, j int) bool { return fns[i].String() < fns[j].String() })
	if len(fns) < 20 {
		c.Undecided("only %d module functions reachable from (*subrunner).do", len(fns))
	}
	n := 0
	for _, fn := range fns {
		if FuncPkgPath(fn) == Module+"/config" {
			// package config loads, merges and prints whole configurations (Load, Merge, String): it transports
			// Checks as part of the value; what the runner does with the merged value is what is checked here
			continue
		}
		for _, a := range FieldAccesses(fn) {
			if shortOwner(a.Owner) == "config.Config" && a.Field == "Checks" && a.Kind != "write" {
				n++
				c.Check(FuncKey(fn)+"::miss-path-reads-Config.Checks", a.Instr.Pos(), false, "the runner's miss path reads Config.Checks (%s), but Checks is excluded from the cache key because the selection is applied after results were loaded; what is cached would depend on the selection of the run that populated the cache", CallChain(parent, fn))
			}
		}
	}
	c.Check("(*subrunner).do::miss-path-never-reads-Config.Checks", do.Pos(), n == 0, "%d readers of Config.Checks (outside package config, which only transports the value) among the %d module functions reachable from the runner's miss path", n, len(fns))
}
