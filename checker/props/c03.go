package props

import (
	"fmt"
	"go/ast"
	"go/token"
	"go/types"
	"os"
	"sort"
	"strings"

	"golang.org/x/tools/go/packages"
	"golang.org/x/tools/go/ssa"

	. "verif/checker/engine"
)

func init() {
	Register(&Property{
		ID:       "C03",
		Patterns: []string{"./..."},
		NeedSSA:  true,
		Explanation: "Decides that no 'unhandled kind' panic is reachable for the closed kinds the code switches on: every type switch with a panicking default (42 today, outside vendored x/tools code) is decided against (a) the full universe of implementors of its interface — all IR instructions that go/ir constructs, all go/ast statement/expression/declaration kinds, all go/types types — with per-(site,type) exemptions, (b) the node-type filter of the inspector traversal that feeds it, or (c) a frozen, individually justified case set where the universe follows from the Go grammar or a guard (loss of a case only) (R3.1); " +
			"switches over builtin names are decided against the builtins from go/types' universe that are lowered to calls with pointer-like results plus the IR builder's synthetic builtins (R3.2); unchecked type assertions on the node delivered to an inspector callback must name the only type of its filter (R3.3); the type checker's Go version on the default path is never a constant lower than what the compiler accepted (R3.4); no analyzer's Run returns a non-nil error except the config analyzer for a broken staticcheck.conf (R3.5). " +
			"It does NOT decide arbitrary panics (index/nil faults, unchecked assertions elsewhere), analyzer error returns, or termination." +
			" Also decided: lookups in go/ir's object-keyed tables use origin objects when the key comes out of a method set or selection; switches over operator tokens with a panicking default are complete for the operator universe of their source (an IR comparison handled only for == and != must be guarded by (*ir.Const).IsNil) — this found the crash on `x < zero` for a type parameter's zero value." +
			" A handler releases its worker slot before it blocks on the unbuffered package queue (termination with few workers).",
		RuleText:    "obligation = (switch site, type/builtin/filter element); universes computed from go/types (implementors), from the inspector call's typed-nil arguments, from types.Universe/types.Unsafe; tables/c03_switches.tsv holds one reviewed line per site or exemption",
		Assumptions: []string{"a package that reaches analysis parses and type-checks (no Bad* nodes)", "the Go grammar and go/types invariants quoted in tables/c03_switches.tsv"},
		Run:         runC03,
		Configs:     []string{"linux/amd64", "windows/amd64"},
		Mutants: []Mutant{
			{Name: "method-set-object-looked-up-without-origin", File: "go/ir/source.go", Rule: "R3.8", KeyPart: "findNamedFunc::object-table-key-is-origin",
				Old: "\t\t\t\t\tm := obj.Origin()\n\t\t\t\t\treturn pkg.values[m].(*Function)\n", New: "\t\t\t\t\treturn pkg.values[obj].(*Function)\n"},
			{Name: "coretype-result-asserted-unchecked", File: "staticcheck/sa9001/sa9001.go", Rule: "R3.6", KeyPart: "sa9001.run$1::CoreType-result-used-unchecked",
				Old: "\t\t_, ok := typeutil.CoreType(typ).(*types.Chan)\n\t\tif !ok {\n\t\t\treturn\n\t\t}\n", New: "\t\tif _, isMap := typeutil.CoreType(typ).Underlying().(*types.Map); isMap {\n\t\t\treturn\n\t\t}\n\t\t_, ok := typeutil.CoreType(typ).(*types.Chan)\n\t\tif !ok {\n\t\t\treturn\n\t\t}\n"},
			{Name: "nilness-array-length-from-core-type", File: "analysis/facts/nilness/nilness.go", Rule: "R3.6", KeyPart: "nilness.impl",
				Old: "\t\t\t\tallNonZero := typeutil.All(v.Type(), func(term *types.Term) bool {\n\t\t\t\t\treturn term.Type().Underlying().(*types.Array).Len() != 0\n\t\t\t\t})\n", New: "\t\t\t\tallNonZero := typeutil.CoreType(v.Type()).(*types.Array).Len() != 0\n"},
			{Name: "nilness-drops-instruction-case", File: "analysis/facts/nilness/nilness.go", Rule: "R3.1", KeyPart: "nilness.impl#1:go/ir.Instruction::*go/ir.SliceToArray",
				Old: "\t\t\tcase *ir.SliceToArray:\n\t\t\t\t// Pretty much the same logic as SliceToArrayPointer, minus the\n\t\t\t\t// pointer.\n", New: "\t\t\tcase *ir.SliceToArray2:\n\t\t\t\t// Pretty much the same logic as SliceToArrayPointer, minus the\n\t\t\t\t// pointer.\n",
				More: []Edit{{File: "go/ir/ssa.go", Old: "type Program struct {", New: "type SliceToArray2 struct{ SliceToArray }\n\ntype Program struct {"}}},
			{Name: "new-ir-instruction", File: "go/ir/ssa.go", Rule: "R3.1", KeyPart: "go/ir.Instruction::*go/ir.Fence",
				Old: "type Program struct {", New: "// A Fence orders memory accesses.\ntype Fence struct{ BlankStore }\n\nfunc newFence() *Fence { return &Fence{} }\n\ntype Program struct {"},
			{Name: "unused-stmt-drops-case", File: "unused/unused.go", Rule: "R3.1", KeyPart: "graph.stmt#1:go/ast.Stmt::*go/ast.SendStmt",
				Old: "\tcase *ast.SendStmt:\n\t\tg.read(stmt.Chan, by)\n\t\tg.read(stmt.Value, by)\n", New: ""},
			{Name: "inspector-filter-wider-than-switch", File: "staticcheck/sa4011/sa4011.go", Rule: "R3.1", KeyPart: "sa4011.run#1:go/ast.Node::*go/ast.SelectStmt",
				Old: "(*ast.ForStmt)(nil), (*ast.RangeStmt)(nil)", New: "(*ast.ForStmt)(nil), (*ast.RangeStmt)(nil), (*ast.SelectStmt)(nil)"},
			{Name: "caseset-loses-case", File: "stylecheck/st1020/st1020.go", Rule: "R3.1", KeyPart: "st1020.run#1:go/ast.Expr::*go/ast.IndexListExpr",
				Old: "\t\t\tcase *ast.IndexListExpr:\n\t\t\t\tident = T.X.(*ast.Ident)\n", New: ""},
			{Name: "new-unclassified-switch", File: "stylecheck/st1020/st1020.go", Rule: "R3.1", KeyPart: "classified",
				Old: "\t\tprefix := decl.Name.Name + \" \"\n", New: "\t\tswitch any(decl.Body).(type) {\n\t\tcase *ast.BlockStmt:\n\t\tdefault:\n\t\t\tpanic(\"unreachable\")\n\t\t}\n\t\tprefix := decl.Name.Name + \" \"\n"},
			{Name: "nilness-forgets-recover", File: "analysis/facts/nilness/nilness.go", Rule: "R3.2", KeyPart: "builtin-switch::recover",
				Old: "\t\t\t\tcase \"recover\":\n\t\t\t\t\t// recover returns nil unless the goroutine is panicking\n\t\t\t\t\t// and we're being called from a deferred function.\n\t\t\t\t\ts.set(v, ValueNilness{MaybeNil, MaybeNil})\n", New: ""},
			{Name: "assert-in-two-type-filter", File: "staticcheck/sa4011/sa4011.go", Rule: "R3.3", KeyPart: "sa4011",
				Old: "\t\tvar body *ast.BlockStmt\n\t\tswitch node := node.(type) {", New: "\t\tvar body *ast.BlockStmt\n\t\t_ = node.(*ast.ForStmt).Cond\n\t\tswitch node := node.(type) {"},
			{Name: "check-returns-internal-error", File: "stylecheck/st1003/st1003.go", Rule: "R3.5", KeyPart: "st1003",
				Old: "\tinitialisms := make(map[string]bool, len(il))", New: "\tif len(il) > 1000 {\n\t\treturn nil, fmt.Errorf(\"too many initialisms\")\n\t}\n\tinitialisms := make(map[string]bool, len(il))"},
			{Name: "loader-pins-go-version", File: "go/loader/loader.go", Rule: "R3.4", KeyPart: "types.Config.GoVersion",
				Old: "\t\t\ttags := build.Default.ReleaseTags\n\t\t\ttc.GoVersion = tags[len(tags)-1]\n", New: "\t\t\t_ = build.Default\n\t\t\ttc.GoVersion = \"go1.21\"\n"},
		},
	})
}

// panics reports whether the statement list unconditionally ends in a panic-like call.
func mustPanic(p *packages.Package, body []ast.Stmt) bool {
	if len(body) == 0 {
		return false
	}
	last := body[len(body)-1]
	es, ok := last.(*ast.ExprStmt)
	if !ok {
		return false
	}
	call, ok := es.X.(*ast.CallExpr)
	if !ok {
		return false
	}
	switch f := call.Fun.(type) {
	case *ast.Ident:
		return f.Name == "panic"
	case *ast.SelectorExpr:
		if obj, ok := p.TypesInfo.Uses[f.Sel].(*types.Func); ok && obj.Pkg() != nil {
			full := obj.Pkg().Path() + "." + obj.Name()
			switch full {
			case Module + "/analysis/lint.ExhaustiveTypeSwitch", "log.Fatal", "log.Fatalf", "log.Panicf", "log.Panic":
				return true
			}
		}
	}
	return false
}

type tswitch struct {
	p       *packages.Package
	fn      string
	fd      *ast.FuncDecl
	sw      *ast.TypeSwitchStmt
	tagExpr ast.Expr // the switched-on expression, seen through local copies and interface conversions
	tag     types.Type
	covered []types.Type
}

func findTypeSwitches(c *Ctx) []tswitch {
	var out []tswitch
	var paths []string
	for path := range c.Pkgs {
		if InModule(path) && !strings.Contains(path, "/internal/xtools-internal") {
			paths = append(paths, path)
		}
	}
	sort.Strings(paths)
	for _, path := range paths {
		p := c.Pkgs[path]
		for _, f := range p.Syntax {
			for _, d := range f.Decls {
				fd, ok := d.(*ast.FuncDecl)
				if !ok || fd.Body == nil {
					continue
				}
				name := fd.Name.Name
				if fd.Recv != nil && len(fd.Recv.List) == 1 {
					name = types.ExprString(fd.Recv.List[0].Type) + "." + name
				}
				ast.Inspect(fd.Body, func(n ast.Node) bool {
					sw, ok := n.(*ast.TypeSwitchStmt)
					if !ok {
						return true
					}
					var def *ast.CaseClause
					var cov []types.Type
					for _, cl := range sw.Body.List {
						cc := cl.(*ast.CaseClause)
						if cc.List == nil {
							def = cc
							continue
						}
						for _, e := range cc.List {
							if t := p.TypesInfo.TypeOf(e); t != nil {
								cov = append(cov, t)
							}
						}
					}
					if def == nil || !mustPanic(p, def.Body) {
						return true
					}
					var x ast.Expr
					switch a := sw.Assign.(type) {
					case *ast.AssignStmt:
						x = a.Rhs[0].(*ast.TypeAssertExpr).X
					case *ast.ExprStmt:
						x = a.X.(*ast.TypeAssertExpr).X
					}
					x = resolveLocal(p, fd, x)
					out = append(out, tswitch{p, path + "." + name, fd, sw, x, p.TypesInfo.TypeOf(x), cov})
					return true
				})
			}
		}
	}
	return out
}

// implementors returns the concrete pointer-to-struct (or named) types of
// package pkg that implement iface.
func implementors(pkg *types.Package, iface *types.Interface) []types.Type {
	var out []types.Type
	sc := pkg.Scope()
	for _, n := range sc.Names() {
		tn, ok := sc.Lookup(n).(*types.TypeName)
		if !ok || tn.IsAlias() {
			continue
		}
		t := tn.Type()
		if _, isIface := t.Underlying().(*types.Interface); isIface {
			continue
		}
		if types.Implements(t, iface) {
			out = append(out, t)
		} else if pt := types.NewPointer(t); types.Implements(pt, iface) {
			out = append(out, pt)
		}
	}
	return out
}

// siteKeys assigns a position-free key to every switch: function + ordinal + tag.
func siteKeys(sws []tswitch) []string {
	ord := map[string]int{}
	keys := make([]string, len(sws))
	for i, s := range sws {
		ord[s.fn]++
		keys[i] = strings.TrimPrefix(s.fn, Module+"/") + "#" + fmt.Sprint(ord[s.fn]) + ":" + TypeString(s.tag)
	}
	return keys
}

// inspectorFilter finds the node-type filter of the inspector traversal the
// switch's tag comes from: the switch must be on a parameter of a function
// literal that is handed (directly or through a local variable) to a call
// that also receives typed-nil node arguments ((*ast.X)(nil)) or a
// []ast.Node literal of them.
func inspectorFilter(p *packages.Package, fd *ast.FuncDecl, sw *ast.TypeSwitchStmt, tagExpr ast.Expr) []types.Type {
	var tagObj types.Object
	if id, ok := ast.Unparen(tagExpr).(*ast.Ident); ok {
		tagObj = p.TypesInfo.ObjectOf(id)
	}
	if tagObj == nil {
		return nil
	}
	// the function literal whose parameter the tag is
	var lit *ast.FuncLit
	ast.Inspect(fd.Body, func(n ast.Node) bool {
		fl, ok := n.(*ast.FuncLit)
		if !ok {
			return true
		}
		for _, f := range fl.Type.Params.List {
			for _, nm := range f.Names {
				if p.TypesInfo.ObjectOf(nm) == tagObj && fl.Pos() <= sw.Pos() && sw.End() <= fl.End() {
					lit = fl
				}
			}
		}
		return true
	})
	if lit == nil {
		return nil
	}
	return filterOfCallback(p, fd, lit)
}

// filterOfCallback returns the node-type filter of the inspector call that
// receives the function literal lit (directly or through a local variable).
func filterOfCallback(p *packages.Package, fd *ast.FuncDecl, lit *ast.FuncLit) []types.Type {
	var litVar types.Object
	ast.Inspect(fd.Body, func(n ast.Node) bool {
		as, ok := n.(*ast.AssignStmt)
		if !ok {
			return true
		}
		for i, r := range as.Rhs {
			if r == ast.Expr(lit) && i < len(as.Lhs) {
				if id, ok := as.Lhs[i].(*ast.Ident); ok {
					litVar = p.TypesInfo.ObjectOf(id)
				}
			}
		}
		return true
	})
	typedNil := func(e ast.Expr) types.Type {
		call, ok := ast.Unparen(e).(*ast.CallExpr)
		if !ok || len(call.Args) != 1 {
			return nil
		}
		if tv, ok := p.TypesInfo.Types[call.Fun]; !ok || !tv.IsType() {
			return nil
		}
		if id, ok := call.Args[0].(*ast.Ident); !ok || id.Name != "nil" {
			return nil
		}
		return p.TypesInfo.TypeOf(call.Fun)
	}
	var filter []types.Type
	ast.Inspect(fd.Body, func(n ast.Node) bool {
		call, ok := n.(*ast.CallExpr)
		if !ok {
			return true
		}
		uses := false
		for _, a := range call.Args {
			if a == ast.Expr(lit) {
				uses = true
			}
			if id, ok := a.(*ast.Ident); ok && litVar != nil && p.TypesInfo.ObjectOf(id) == litVar {
				uses = true
			}
		}
		if !uses {
			return true
		}
		for _, a := range call.Args {
			a = resolveLocal(p, fd, a)
			if t := typedNil(a); t != nil {
				filter = append(filter, t)
			}
			if cl, ok := a.(*ast.CompositeLit); ok {
				for _, e := range cl.Elts {
					if t := typedNil(e); t != nil {
						filter = append(filter, t)
					}
				}
			}
		}
		return true
	})
	return filter
}

// constructedIn lists the named struct types of package p that are
// instantiated in its non-test sources (composite literal, new, var).
func constructedIn(p *packages.Package) map[string]bool {
	out := map[string]bool{}
	note := func(t types.Type) {
		if t == nil {
			return
		}
		if ptr, ok := t.(*types.Pointer); ok {
			t = ptr.Elem()
		}
		if n, ok := types.Unalias(t).(*types.Named); ok && n.Obj().Pkg() == p.Types {
			out[n.Obj().Name()] = true
		}
	}
	for _, f := range p.Syntax {
		ast.Inspect(f, func(n ast.Node) bool {
			switch n := n.(type) {
			case *ast.CompositeLit:
				note(p.TypesInfo.TypeOf(n))
			case *ast.CallExpr:
				if id, ok := n.Fun.(*ast.Ident); ok && id.Name == "new" && len(n.Args) == 1 {
					note(p.TypesInfo.TypeOf(n.Args[0]))
				}
			case *ast.ValueSpec:
				if n.Type != nil && len(n.Values) == 0 {
					note(p.TypesInfo.TypeOf(n.Type))
				}
			}
			return true
		})
	}
	return out
}

func runC03(c *Ctx) {
	table := map[string]map[string][2]string{} // kind -> site -> (arg, reason)
	exempt := map[string]string{}              // site|type -> reason
	{
		f, err := os.Open(c.VerifDir + "/tables/c03_switches.tsv")
		if err != nil {
			c.Rule("R3.1", func() { c.Undecided("cannot read tables/c03_switches.tsv: %v", err) })
			return
		}
		b, _ := os.ReadFile(f.Name())
		f.Close()
		for _, line := range strings.Split(string(b), "\n") {
			if line == "" || strings.HasPrefix(line, "#") {
				continue
			}
			parts := strings.SplitN(line, "\t", 4)
			if len(parts) != 4 {
				continue
			}
			if parts[0] == "exempt" {
				exempt[parts[1]+"|"+parts[2]] = parts[3]
				continue
			}
			if table[parts[0]] == nil {
				table[parts[0]] = map[string][2]string{}
			}
			table[parts[0]][parts[1]] = [2]string{parts[2], parts[3]}
		}
	}
	sws := findTypeSwitches(c)
	keys := siteKeys(sws)
	irp := c.Pkg("go/ir")
	irConstructed := constructedIn(irp)

	lookupIface := func(spec string) (*types.Package, *types.Interface) {
		i := strings.LastIndex(spec, ".")
		path, name := spec[:i], spec[i+1:]
		var pkg *types.Package
		if pp := c.Pkgs[path]; pp != nil {
			pkg = pp.Types
		} else if pp := c.Pkgs[Module+"/"+path]; pp != nil {
			pkg = pp.Types
		}
		if pkg == nil {
			c.Undecided("universe package %s not loaded", path)
		}
		tn, _ := pkg.Scope().Lookup(name).(*types.TypeName)
		if tn == nil {
			c.Undecided("universe interface %s not found", spec)
		}
		iface, _ := tn.Type().Underlying().(*types.Interface)
		if iface == nil {
			c.Undecided("%s is not an interface", spec)
		}
		return pkg, iface
	}

	c.Rule("R3.1", func() {
		c.Floor("R3.1", 40)
		if len(sws) < 35 {
			c.Undecided("found only %d type switches with a panicking default", len(sws))
		}
		nFull, nFilter, nCase := 0, 0, 0
		present := map[string]bool{}
		for _, k := range keys {
			present[k] = true
		}
		pkgOfKey := func(k string) string {
			head := k
			if i := strings.Index(k, "#"); i >= 0 {
				head = k[:i]
			}
			slash := strings.LastIndex(head, "/")
			if dot := strings.Index(head[slash+1:], "."); dot >= 0 {
				return head[:slash+1+dot]
			}
			return head
		}
		tagOfKey := func(k string) string { return k[strings.Index(k, ":")+1:] }
		// lookup finds the reviewed table line of a switch. A switch that was moved
		// into another function of the same package (helper extracted, function
		// renamed) inherits the line of the site that disappeared, provided it
		// switches on the same static type and still has every reviewed case.
		lookup := func(kind, key string, have map[string]bool) ([2]string, string, bool) {
			if e, ok := table[kind][key]; ok {
				return e, key, true
			}
			for _, site := range SortedKeys(table[kind]) {
				if present[site] || pkgOfKey(site) != pkgOfKey(key) || tagOfKey(site) != tagOfKey(key) {
					continue
				}
				e := table[kind][site]
				if kind == "caseset" {
					all := true
					for _, want := range strings.Split(e[0], ",") {
						if !have[want] {
							all = false
						}
					}
					if !all {
						continue
					}
				}
				return e, site, true
			}
			return [2]string{}, "", false
		}
		for i, s := range sws {
			key := keys[i]
			// kinds excluded before the switch is reached (`if _, ok := x.(*T); ok { return }` in any spelling)
			pre := preNarrowed(c, s)
			covers := func(t types.Type) bool {
				for _, ct := range pre {
					if types.Identical(ct, t) {
						return true
					}
				}
				for _, ct := range s.covered {
					if types.Identical(ct, t) {
						return true
					}
					if ci, ok := ct.Underlying().(*types.Interface); ok && !types.IsInterface(t) && types.Implements(t, ci) {
						return true
					}
				}
				return false
			}
			// enclosing FuncDecl for the filter search
			var fd *ast.FuncDecl
			for _, f := range s.p.Syntax {
				if f.Pos() <= s.sw.Pos() && s.sw.Pos() < f.End() {
					for _, d := range f.Decls {
						if x, ok := d.(*ast.FuncDecl); ok && x.Pos() <= s.sw.Pos() && s.sw.Pos() < x.End() {
							fd = x
						}
					}
				}
			}
			if flt := inspectorFilter(s.p, fd, s.sw, s.tagExpr); len(flt) > 0 {
				nFilter++
				for _, t := range flt {
					c.Check(key+"::"+TypeString(t), s.sw.Pos(), covers(t), "the traversal delivers %s nodes to this callback (node-type filter of the inspector call), but the type switch has no case for it and its default panics", TypeString(t))
				}
				continue
			}
			have := map[string]bool{}
			for _, t := range s.covered {
				have[TypeString(t)] = true
			}
			if e, tkey, ok := lookup("full", key, have); ok {
				nFull++
				pkg, iface := lookupIface(e[0])
				for _, t := range implementors(pkg, iface) {
					ts := TypeString(t)
					okc := covers(t)
					why := ""
					if !okc {
						if r, ok := exempt[tkey+"|"+ts]; ok {
							okc, why = true, "exempt: "+r
						} else if r, ok := exempt["*|"+ts]; ok {
							okc, why = true, "exempt: "+r
						} else if pkg == irp.Types {
							name := strings.TrimPrefix(strings.TrimPrefix(ts, "*"), "go/ir.")
							if !irConstructed[name] {
								okc, why = true, "exempt: declared but never constructed by go/ir"
							}
						}
					}
					c.Check(key+"::"+ts, s.sw.Pos(), okc, "%s implements %s and can reach this switch (%s), but there is no case for it and the default panics: analysing code that produces it crashes the linter. %s", ts, e[0], e[1], why)
				}
				continue
			}
			if e, _, ok := lookup("caseset", key, have); ok {
				nCase++
				for _, want := range strings.Split(e[0], ",") {
					c.CheckTrivial(key+"::"+want, s.sw.Pos(), have[want], "case %s was confirmed necessary when this switch was triaged (%s); it is gone, so such a value now reaches the panicking default", want, e[1])
				}
				continue
			}
			c.Check(key+"::classified", s.sw.Pos(), false, "a type switch with a panicking default that is neither inside an inspector callback with a node filter nor listed in tables/c03_switches.tsv: its universe has not been triaged (cases: %d)", len(s.covered))
		}
		c.Note("R3.1: %d must-panic type switches: %d decided against a full universe, %d against their inspector filter, %d against a frozen case set (loss of a case only)", len(sws), nFull, nFilter, nCase)
		// stale table entries
		for _, kind := range []string{"full", "caseset"} {
			for site := range table[kind] {
				if !present[site] {
					c.Note("R3.1: table entry for %s no longer matches a switch (stale)", site)
				}
			}
		}
	})

	c.Rule("R3.2", func() {
		c.Floor("R3.2", 5)
		// builtin-name switches with a panicking default on (*ir.Builtin).Name()
		np := c.Pkg("analysis/facts/nilness")
		type bsw struct {
			sw    *ast.SwitchStmt
			cases map[string]bool
			fn    string
		}
		var found []bsw
		for path, p := range c.Pkgs {
			if !InModule(path) || strings.Contains(path, "/internal/xtools-internal") {
				continue
			}
			for _, f := range p.Syntax {
				for _, d := range f.Decls {
					fd, ok := d.(*ast.FuncDecl)
					if !ok || fd.Body == nil {
						continue
					}
					ast.Inspect(fd.Body, func(n ast.Node) bool {
						sw, ok := n.(*ast.SwitchStmt)
						if !ok || sw.Tag == nil {
							return true
						}
						call, ok := resolveLocal(p, fd, sw.Tag).(*ast.CallExpr)
						if !ok {
							return true
						}
						sel, ok := call.Fun.(*ast.SelectorExpr)
						if !ok || sel.Sel.Name != "Name" {
							return true
						}
						t := p.TypesInfo.TypeOf(sel.X)
						if t == nil || !strings.HasSuffix(t.String(), "go/ir.Builtin") {
							return true
						}
						b := bsw{sw: sw, cases: map[string]bool{}, fn: path + "." + fd.Name.Name}
						var def *ast.CaseClause
						for _, cl := range sw.Body.List {
							cc := cl.(*ast.CaseClause)
							if cc.List == nil {
								def = cc
							}
							for _, e := range cc.List {
								if tv, ok := p.TypesInfo.Types[e]; ok && tv.Value != nil {
									b.cases[strings.Trim(tv.Value.ExactString(), `"`)] = true
								}
							}
						}
						if def != nil && mustPanic(p, def.Body) {
							found = append(found, b)
						}
						return true
					})
				}
			}
		}
		_ = np
		if len(found) == 0 {
			c.Undecided("no switch over (*ir.Builtin).Name() with a panicking default found (nilness.handleReturnValue)")
		}
		// result kinds of builtins: "ptr" = pointer-like result possible, "" = no result or never pointer-like
		spec := map[string]string{
			"append": "ptr", "recover": "ptr", "cap": "", "len": "", "copy": "", "clear": "", "close": "", "delete": "", "complex": "", "real": "", "imag": "",
			"print": "", "println": "", "min": "", "max": "", "make": "expr", "new": "expr", "panic": "expr",
			"Add": "ptr", "Slice": "ptr", "SliceData": "ptr", "StringData": "ptr", "String": "", "Alignof": "const", "Offsetof": "const", "Sizeof": "const",
		}
		universe := map[string]string{} // IR builtin name -> go builtin
		for _, scope := range []*types.Scope{types.Universe, types.Unsafe.Scope()} {
			for _, n := range scope.Names() {
				if _, ok := scope.Lookup(n).(*types.Builtin); !ok {
					continue
				}
				kind, known := spec[n]
				irName := n
				if scope != types.Universe {
					irName = "Unsafe" + n
				}
				if !known {
					c.Check("go-builtin::"+n+"::classified", 0, false, "builtin %s is not in the checker's result-kind table: extend the table in checker/props/c03.go so that switches over builtin names can be decided", n)
					continue
				}
				if kind == "ptr" {
					universe[irName] = n
				}
			}
		}
		// synthetic builtins created by the IR builder with pointer-like results
		for _, f := range irp.Syntax {
			ast.Inspect(f, func(n ast.Node) bool {
				cl, ok := n.(*ast.CompositeLit)
				if !ok {
					return true
				}
				t := irp.TypesInfo.TypeOf(cl)
				if t == nil || !strings.HasSuffix(t.String(), "go/ir.Builtin") {
					return true
				}
				for _, e := range cl.Elts {
					kv, ok := e.(*ast.KeyValueExpr)
					if !ok {
						continue
					}
					if id, ok := kv.Key.(*ast.Ident); ok && id.Name == "name" {
						if tv, ok := irp.TypesInfo.Types[kv.Value]; ok && tv.Value != nil {
							name := strings.Trim(tv.Value.ExactString(), `"`)
							if strings.HasPrefix(name, "ssa:") {
								universe[name] = name
							}
						}
					}
				}
				return true
			})
		}
		for _, b := range found {
			for _, name := range SortedKeys(universe) {
				c.Check(strings.TrimPrefix(b.fn, Module+"/")+"::builtin-switch::"+name, b.sw.Pos(), b.cases[name],
					"builtin %s is lowered to a call whose result can be pointer-like, so it reaches this switch; without a case the default panics with 'unhandled builtin' on any function that returns such a result", name)
			}
		}
	})

	c.Rule("R3.3", func() {
		c.Floor("R3.3", 20)
		n := 0
		var paths []string
		for path := range c.Pkgs {
			if InModule(path) && !strings.Contains(path, "/internal/xtools-internal") {
				paths = append(paths, path)
			}
		}
		sort.Strings(paths)
		for _, path := range paths {
			p := c.Pkgs[path]
			for _, f := range p.Syntax {
				for _, d := range f.Decls {
					fd, ok := d.(*ast.FuncDecl)
					if !ok || fd.Body == nil {
						continue
					}
					// callbacks: function literals whose first parameter is an ast.Node
					ast.Inspect(fd.Body, func(x ast.Node) bool {
						lit, ok := x.(*ast.FuncLit)
						if !ok || len(lit.Type.Params.List) == 0 || len(lit.Type.Params.List[0].Names) == 0 {
							return true
						}
						param := p.TypesInfo.ObjectOf(lit.Type.Params.List[0].Names[0])
						if param == nil || TypeString(param.Type()) != "go/ast.Node" {
							return true
						}
						// a fake switch positioned in the literal to reuse the filter search
						flt := filterOfCallback(p, fd, lit)
						if len(flt) == 0 {
							return true
						}
						// unchecked assertions on the parameter, decided on the SSA form of the
						// callback: the kinds that can still arrive at the assertion are the
						// filter minus those that a comma-ok assertion or type-switch test on
						// the same value has sent elsewhere (any spelling), or exactly the one
						// kind whose test succeeded on every path to it.
						fn := c.FuncOfSyntax(lit)
						if fn == nil || len(fn.Params) == 0 {
							c.Undecided("no SSA body for the inspector callback in %s.%s", path, fd.Name.Name)
						}
						prm := fn.Params[0]
						same := func(v ssa.Value) bool { return paramValue(v, prm) }
						Instrs(fn, false, func(in ssa.Instruction) {
							ta, ok := in.(*ssa.TypeAssert)
							if !ok || ta.CommaOk || !same(ta.X) {
								return
							}
							t := ta.AssertedType
							remaining := flt
							if st := succeededAssertType(fn, same, ta); st != nil {
								remaining = []types.Type{st}
							} else if gone := failedAssertTypesOf(fn, same, ta, nil); len(gone) > 0 {
								remaining = nil
								for _, ft := range flt {
									out := false
									for _, g := range gone {
										if types.Identical(g, ft) {
											out = true
										}
									}
									if !out {
										remaining = append(remaining, ft)
									}
								}
							}
							okA := len(remaining) == 1 && types.Identical(remaining[0], t)
							if types.IsInterface(t) {
								okA = true
								for _, ft := range remaining {
									if !types.Implements(ft, t.Underlying().(*types.Interface)) {
										okA = false
									}
								}
							}
							n++
							var fs []string
							for _, ft := range remaining {
								fs = append(fs, TypeString(ft))
							}
							c.Check(strings.TrimPrefix(path, Module+"/")+"."+fd.Name.Name+"::assert-"+TypeString(t), ta.Pos(), okA,
								"the callback receives nodes of types %v here but asserts %s without checking: another delivered kind panics", fs, TypeString(t))
						})
						return true
					})
				}
			}
		}
		if n < 20 {
			c.Undecided("found only %d unchecked assertions in inspector callbacks", n)
		}
	})

	c.Rule("R3.4", func() {
		c.Floor("R3.4", 2)
		lfs := c.Func("go/loader", "(*program).loadFromSource")
		n := 0
		// string-building calls of the standard library are looked through ("go"+v, fmt.Sprintf("go%s", v))
		opts := SliceOpts{ThroughCalls: true, Stop: func(v ssa.Value) bool {
			call, ok := v.(*ssa.Call)
			if !ok {
				return false
			}
			name := CalleeName(call.Common())
			return !(strings.HasPrefix(name, "fmt.Sprint") || strings.HasPrefix(name, "strings."))
		}}
		from := func(v ssa.Value, pred func(ssa.Value) bool) bool { return SliceHas(v, opts, pred) }
		Instrs(lfs, false, func(in ssa.Instruction) {
			st, ok := in.(*ssa.Store)
			if !ok || !IsFieldOf("types.Config", "GoVersion")(st.Addr) {
				return
			}
			// every alternative of the stored value (one store per branch, or one store of a φ)
			var leaves []ssa.Value
			seen := map[ssa.Value]bool{}
			var expand func(v ssa.Value)
			expand = func(v ssa.Value) {
				if seen[v] {
					return
				}
				seen[v] = true
				if phi, ok := v.(*ssa.Phi); ok {
					for _, e := range phi.Edges {
						expand(e)
					}
					return
				}
				leaves = append(leaves, v)
			}
			expand(st.Val)
			for _, leaf := range leaves {
				n++
				okSrc := from(leaf, IsFieldOf("loader.Options", "GoVersion")) || from(leaf, IsFieldOf("packages.Module", "GoVersion")) ||
					from(leaf, IsFieldOf("build.Context", "ReleaseTags"))
				_, isConst := leaf.(*ssa.Const)
				c.Check(FuncKey(lfs)+"::types.Config.GoVersion::source#"+itoa(n), st.Pos(), okSrc && !isConst,
					"the Go version handed to the type checker comes from the -go flag, the module's go directive, or the toolchain's newest release tag; a fixed version makes go/types reject code the compiler accepted (a compile-category problem on buildable code)")
			}
		})
		if n < 2 {
			c.Undecided("loadFromSource no longer sets types.Config.GoVersion on both paths")
		}
	})

	c.Rule("R3.5", func() {
		c.Floor("R3.5", 100)
		// analyzers whose Run may return a non-nil error (which marks the package failed)
		allowedErr := map[string]string{
			Module + "/config.init$1": "the config analyzer reports an unreadable or malformed staticcheck.conf — a configuration problem of the user's tree, not an internal error",
		}
		runs := analyzerRunFuncs(c)
		if len(runs) < 100 {
			c.Undecided("found only %d analyzer Run functions", len(runs))
		}
		for _, fn := range runs {
			c.SawFunc(fn.String())
			bad := ""
			var badPos = fn.Pos()
			for _, r := range Returns(fn) {
				if len(r.Results) < 2 {
					continue
				}
				v := ReturnOperand(r, 1)
				if v == nil || alwaysNilValue(v, 0) {
					continue
				}
				bad, badPos = "returns a possibly non-nil error", r.Pos()
			}
			if bad != "" {
				if why, ok := allowedErr[fn.String()]; ok {
					c.CheckTrivial(strings.TrimPrefix(fn.String(), Module+"/")+"::Run-returns-no-internal-error", badPos, true, "listed: %s", why)
					continue
				}
			}
			c.Check(strings.TrimPrefix(fn.String(), Module+"/")+"::Run-returns-no-internal-error", badPos, bad == "", "an analyzer's Run must return a nil error on code that compiles: a non-nil error marks the whole package failed (%s)", bad)
		}
	})
	// R3.6: typeutil.CoreType returns nil for a type parameter whose type set
	// has no core type — valid Go. In analysis code (everything linked into
	// staticcheck except the IR builder, whose uses follow the spec's "must
	// have a core type" operations) every use of its result must be nil-safe.
	c.Rule("R3.6", func() {
		c.Floor("R3.6", 8)
		uncheckedOK := map[string]string{
			"(*honnef.co/go/tools/unused.graph).read::CoreType-result-used-unchecked#0":          "walks the embedded-field path of a key in a struct literal; Go does not allow promoted fields as literal keys, so the path has one element and the loop body never runs",
			"honnef.co/go/tools/simple/s1019.run$1::CoreType-result-used-unchecked#0":            "the type argument of make: the spec requires it to have a core type",
			"honnef.co/go/tools/simple/s1019.run$1::CoreType-result-used-unchecked#1":            "the type argument of make: the spec requires it to have a core type",
			"(*honnef.co/go/tools/go/ir.CallCommon).Signature::CoreType-result-used-unchecked#0": "the callee of a call: the spec requires the called value to have a core type of function type",
		}
		linked := linkedPackages(c)
		nCalls := 0
		for _, fn := range c.ModuleFuncs() {
			pp := FuncPkgPath(fn)
			if !linked[pp] || strings.Contains(pp, "/internal/xtools-internal") || pp == Module+"/go/types/typeutil" {
				continue
			}
			isBuilder := pp == Module+"/go/ir" && fn.String() != "(*"+Module+"/go/ir.CallCommon).Signature"
			n, nu := 0, 0
			for _, ci := range Calls(fn, false) {
				name := CalleeName(ci.Common())
				if name != Module+"/go/types/typeutil.CoreType" && name != Module+"/go/types/typeutil.TypeSet.CoreType" {
					continue
				}
				call, ok := ci.(*ssa.Call)
				if !ok {
					continue
				}
				if isBuilder {
					continue // go/ir: lowering of operations for which the spec demands a core type; covered by the builder's own tests
				}
				nCalls++
				c.SawFunc(fn.String())
				// uses of the result
				unchecked, nilTested := "", false
				var visit func(v ssa.Value, depth int)
				visit = func(v ssa.Value, depth int) {
					refs := v.Referrers()
					if refs == nil || depth > 3 {
						return
					}
					for _, r := range *refs {
						switch r := r.(type) {
						case *ssa.TypeAssert:
							if !r.CommaOk {
								unchecked = "asserted to " + r.AssertedType.String() + " without comma-ok"
							}
						case *ssa.BinOp:
							if IsNilConst(r.X) || IsNilConst(r.Y) {
								nilTested = true
							}
						case *ssa.Call:
							if r.Call.IsInvoke() && r.Call.Value == v {
								unchecked = "method " + r.Call.Method.Name() + " called on it"
							}
						case *ssa.ChangeInterface:
							visit(r, depth+1)
						case *ssa.Phi:
							visit(r, depth+1)
						}
					}
				}
				visit(call, 0)
				key := FuncKey(fn) + "::CoreType-result-used-unchecked#" + itoa(nu)
				if unchecked == "" || nilTested {
					c.Check(FuncKey(fn)+"::CoreType-result-nil-safe#"+itoa(n), call.Pos(), true, "the result is only used through comma-ok assertions, type switches or after a nil test")
					n++
					continue
				}
				if why, ok := uncheckedOK[key]; ok {
					c.CheckTrivial(key, call.Pos(), true, "reviewed: %s", why)
				} else {
					c.Check(key, call.Pos(), false, "typeutil.CoreType returns nil for a type parameter without a core type (valid Go), and here its result is %s: staticcheck panics on such a program; use a comma-ok assertion, a type switch, a nil test, or iterate over the type set's terms", unchecked)
				}
				nu++
			}
		}
		if nCalls < 8 {
			c.Undecided("found only %d uses of typeutil.CoreType in analysis code", nCalls)
		}
	})
	// R3.8: tables keyed by go/types objects are keyed by ORIGIN objects. The
	// method objects found in a method set or selection of an instantiated
	// generic type are copies (same position, different identity); looking one
	// up without Origin() misses, and the unchecked use of the missing entry
	// panics inside whatever analyzer asked (ir.EnclosingFunction, …).
	c.Rule("R3.8", func() {
		c.Floor("R3.8", 3)
		isObjKey := func(t types.Type) bool {
			m, ok := t.Underlying().(*types.Map)
			if !ok {
				return false
			}
			ks := m.Key().String()
			return ks == "go/types.Object" || ks == "*go/types.Func" || ks == "*go/types.Var"
		}
		fromInstantiable := func(v ssa.Value) bool {
			call, ok := v.(*ssa.Call)
			if !ok {
				return false
			}
			switch CalleeName(&call.Call) {
			case "go/types.Selection.Obj", "go/types.MethodSet.At", "go/types.MethodSet.Lookup", "go/types.LookupFieldOrMethod", "go/types.Named.Method":
				return true
			}
			return false
		}
		isOrigin := func(v ssa.Value) bool {
			call, ok := v.(*ssa.Call)
			return ok && (CalleeName(&call.Call) == "go/types.Func.Origin" || CalleeName(&call.Call) == "go/types.Var.Origin")
		}
		n := 0
		for _, fn := range c.ModuleFuncs() {
			if FuncPkgPath(fn) != irPkg || len(fn.Blocks) == 0 {
				continue
			}
			k := 0
			Instrs(fn, false, func(in ssa.Instruction) {
				lk, ok := in.(*ssa.Lookup)
				if !ok || !isObjKey(lk.X.Type()) {
					return
				}
				n++
				// an origin-normalised key: Origin() directly below conversions
				key := lk.Index
				normalised := SliceHas(key, SliceOpts{Stop: isOrigin}, isOrigin) && !SliceHas(key, SliceOpts{Stop: isOrigin}, fromInstantiable)
				risky := SliceHas(key, SliceOpts{Stop: isOrigin}, fromInstantiable)
				k++
				c.Check(FuncKey(fn)+"::object-table-key-is-origin#"+itoa(k), lk.Pos(), normalised || !risky, "the key of this lookup in a table keyed by go/types objects comes out of a method set or selection, which for instantiated generic types yields copies of the declared method; without Origin() the lookup misses and the entry is used unchecked")
			})
		}
		if n < 3 {
			c.Undecided("found only %d lookups in object-keyed tables of go/ir", n)
		}
	})
	// R3.9: switches over a token with a panicking default. The universe of a
	// token depends on where it comes from: the Tok of a GenDecl is one of four
	// keywords; the Op of an IR comparison is any of the six comparison
	// operators unless one operand is known to be nil, for which the language
	// allows only == and != — and "known to be nil" must be established with
	// (*ir.Const).IsNil, because a constant without a value is also how the zero
	// value of a type parameter is represented (x < zero is valid Go).
	c.Rule("R3.9", func() {
		c.Floor("R3.9", 3)
		cmpOps := []string{"EQL", "NEQ", "LSS", "LEQ", "GTR", "GEQ"}
		genDeclToks := []string{"IMPORT", "CONST", "TYPE", "VAR"}
		unaryOps := []string{"ADD", "SUB", "NOT", "XOR", "AND", "ARROW"} // ~ occurs only in constraints, * is a StarExpr
		binaryOps := []string{"ADD", "SUB", "MUL", "QUO", "REM", "AND", "OR", "XOR", "SHL", "SHR", "AND_NOT", "LAND", "LOR", "EQL", "NEQ", "LSS", "LEQ", "GTR", "GEQ"}
		reviewed := map[string]string{
			"go/ir.emitArith":                "the operator is a parameter: called by expr0 under its case list of arithmetic and shift operators, and by assignOp with the operator of x op= y / x++ / x-- (arithmetic, shift or bitwise by the grammar)",
			"simple/s1004.CheckBytesCompare": "the token is bound by the pattern (Or \"==\" \"!=\"), which admits exactly the two handled operators",
		}
		// nil tests: functions all of whose results are false or (*ir.Const).IsNil()
		isNilTest := func(f *ssa.Function) bool {
			if f == nil || len(f.Blocks) == 0 {
				return false
			}
			rets := Returns(f)
			if len(rets) == 0 {
				return false
			}
			sawIsNil := false
			for _, r := range rets {
				v := ReturnOperand(r, 0)
				if k, ok := v.(*ssa.Const); ok && k.Value != nil && k.Value.String() == "false" {
					continue
				}
				if call, ok := v.(*ssa.Call); ok && CalleeName(&call.Call) == irPkg+".Const.IsNil" {
					sawIsNil = true
					continue
				}
				return false
			}
			return sawIsNil
		}
		n := 0
		var paths []string
		for path := range c.Pkgs {
			if InModule(path) && !strings.Contains(path, "/internal/xtools-internal") {
				paths = append(paths, path)
			}
		}
		sort.Strings(paths)
		for _, path := range paths {
			p := c.Pkgs[path]
			for _, f := range p.Syntax {
				for _, d := range f.Decls {
					fd, ok := d.(*ast.FuncDecl)
					if !ok || fd.Body == nil {
						continue
					}
					ord := 0
					ast.Inspect(fd.Body, func(x ast.Node) bool {
						sw, ok := x.(*ast.SwitchStmt)
						if !ok || sw.Tag == nil {
							return true
						}
						tt := p.TypesInfo.TypeOf(sw.Tag)
						if tt == nil || tt.String() != "go/token.Token" {
							return true
						}
						var def *ast.CaseClause
						have := map[string]bool{}
						for _, cl := range sw.Body.List {
							cc := cl.(*ast.CaseClause)
							if cc.List == nil {
								def = cc
							}
							for _, e := range cc.List {
								if se, ok := ast.Unparen(e).(*ast.SelectorExpr); ok {
									have[se.Sel.Name] = true
								} else if id, ok := ast.Unparen(e).(*ast.Ident); ok {
									have[id.Name] = true
								}
							}
						}
						if def == nil || !mustPanic(p, def.Body) {
							return true
						}
						n++
						ord++
						site := strings.TrimPrefix(path, Module+"/") + "." + fd.Name.Name
						key := site + "::token-switch#" + itoa(ord)
						missing := func(universe []string) []string {
							var out []string
							for _, u := range universe {
								if !have[u] {
									out = append(out, u)
								}
							}
							return out
						}
						tag := resolveLocal(p, fd, sw.Tag)
						// where the token comes from: follow one more local (op := binop.Op; op is reassigned when negated, so look at all definitions)
						origin := ""
						var visit func(e ast.Expr, depth int)
						visit = func(e ast.Expr, depth int) {
							e = ast.Unparen(e)
							switch e := e.(type) {
							case *ast.SelectorExpr:
								xt := p.TypesInfo.TypeOf(e.X)
								if xt != nil {
									switch {
									case strings.HasSuffix(xt.String(), "go/ir.BinOp") && e.Sel.Name == "Op":
										origin = "ir.BinOp.Op"
									case strings.HasSuffix(xt.String(), "go/ast.GenDecl") && e.Sel.Name == "Tok":
										origin = "ast.GenDecl.Tok"
									case strings.HasSuffix(xt.String(), "go/ast.UnaryExpr") && e.Sel.Name == "Op":
										origin = "ast.UnaryExpr.Op"
									case strings.HasSuffix(xt.String(), "go/ast.BinaryExpr") && e.Sel.Name == "Op":
										origin = "ast.BinaryExpr.Op"
									}
								}
							case *ast.Ident:
								if depth > 3 {
									return
								}
								obj := p.TypesInfo.ObjectOf(e)
								ast.Inspect(fd.Body, func(y ast.Node) bool {
									as, ok := y.(*ast.AssignStmt)
									if !ok || len(as.Lhs) != len(as.Rhs) {
										return true
									}
									for i, l := range as.Lhs {
										if id, ok := l.(*ast.Ident); ok && p.TypesInfo.ObjectOf(id) == obj {
											if _, isSel := ast.Unparen(as.Rhs[i]).(*ast.SelectorExpr); isSel {
												visit(as.Rhs[i], depth+1)
											}
										}
									}
									return true
								})
							}
						}
						visit(tag, 0)
						switch origin {
						case "ast.GenDecl.Tok":
							m := missing(genDeclToks)
							c.Check(key, sw.Pos(), len(m) == 0, "a declaration's Tok is one of import/const/type/var; %v has no case and the default panics", m)
						case "ast.UnaryExpr.Op":
							m := missing(unaryOps)
							c.Check(key, sw.Pos(), len(m) == 0, "a unary expression's operator is one of + - ! ^ & <-; %v has no case and the default panics", m)
						case "ast.BinaryExpr.Op":
							m := missing(binaryOps)
							c.Check(key, sw.Pos(), len(m) == 0, "a binary expression's operator is one of the 19 binary operators; %v has no case and the default panics", m)
						case "ir.BinOp.Op":
							if m := missing(cmpOps); len(m) == 0 {
								c.Check(key, sw.Pos(), true, "all comparison operators handled")
								return true
							}
							// only == and != handled: one operand must be nil, established with (*ir.Const).IsNil
							fn := c.FuncOfSyntax(InnermostFuncSyntax(fd, sw.Pos()))
							if fn == nil {
								c.Undecided("no SSA function for the token switch in %s", site)
							}
							nilEdges := CallTrueEdges(fn, func(call *ssa.Call) bool {
								if CalleeName(&call.Call) == irPkg+".Const.IsNil" {
									return true
								}
								if callee := call.Call.StaticCallee(); callee != nil {
									return isNilTest(callee)
								}
								// a local closure called through its variable
								for x := range BackSlice(call.Call.Value, SliceOpts{}) {
									if mc, ok := x.(*ssa.MakeClosure); ok {
										if f, ok := mc.Fn.(*ssa.Function); ok && isNilTest(f) {
											return true
										}
									}
									if f, ok := x.(*ssa.Function); ok && isNilTest(f) {
										return true
									}
								}
								return false
							})
							// the first comparison of the switch
							var first ssa.Instruction
							Instrs(fn, false, func(in ssa.Instruction) {
								b, ok := in.(*ssa.BinOp)
								if !ok || b.Pos() < sw.Pos() || b.Pos() >= sw.End() || b.X.Type().String() != "go/token.Token" {
									return
								}
								if first == nil || InstrDominates(b, first) {
									first = b
								}
							})
							// or: the operator itself was tested against exactly the handled operators before
							opEdges := EqEdges(fn, func(x, y ssa.Value) bool {
								k, ok := y.(*ssa.Const)
								if !ok || k.Type().String() != "go/token.Token" || !DerivesLocal(x, IsFieldOf("ir.BinOp", "Op")) {
									return false
								}
								if b := x.Referrers(); b != nil {
									for _, r := range *b {
										if bo, ok := r.(*ssa.BinOp); ok && (bo.Pos() >= sw.Pos() && bo.Pos() < sw.End()) {
											_ = bo
										}
									}
								}
								// only tests against operators the switch handles count
								kv, _ := ConstInt(k)
								return (kv == int64(token.EQL) && have["EQL"]) || (kv == int64(token.NEQ) && have["NEQ"])
							})
							// the switch's own comparisons are not guards
							for e := range opEdges {
								blk := fn.Blocks[e.Block]
								if iff, ok := blk.Instrs[len(blk.Instrs)-1].(*ssa.If); ok {
									cond, _ := StripNot(iff.Cond)
									if bo, ok := cond.(*ssa.BinOp); ok && bo.Pos() >= sw.Pos() && bo.Pos() < sw.End() {
										delete(opEdges, e)
									}
								}
							}
							okGuard := false
							why := "the switch could not be located in the IR of the function"
							if first != nil && len(opEdges) > 0 {
								if okOp, _ := MustPassEdges(fn, first, opEdges); okOp {
									c.Check(key, sw.Pos(), true, "the operator was tested against the handled operators before the switch")
									return true
								}
							}
							if first != nil {
								okGuard, _ = MustPassEdges(fn, first, nilEdges)
								why = "no test through (*ir.Const).IsNil guards the switch"
								if len(nilEdges) > 0 && !okGuard {
									why = "a path reaches the switch without passing the nil test"
								}
							}
							c.Check(key, sw.Pos(), okGuard && have["EQL"] && have["NEQ"], "this switch handles only == and != of an IR comparison and panics otherwise; that is complete only if one operand is nil, and nil-ness must be decided by (*ir.Const).IsNil — a constant without a value also represents the zero value of a type parameter, for which <, <=, >, >= are valid (%s)", why)
						default:
							why, ok := reviewed[site]
							c.CheckTrivial(key, sw.Pos(), ok, "a switch over a token with a panicking default whose token source is not derived by the checker must be reviewed (%s)", why)
						}
						return true
					})
				}
			}
		}
		if n < 3 {
			c.Undecided("found only %d token switches with a panicking default", n)
		}
	})
	// R3.10: the run terminates: a handler releases its worker slot before it
	// blocks on the unbuffered package queue (same obligation as C06 R6.8).
	c.Rule("R3.10", func() {
		c.Floor("R3.10", 1)
		slotReleasedBeforeSendObligations(c)
	})
}

// alwaysNilValue reports whether v is nil on every path: the constant nil, a φ
// of such values, or the result of a module function all of whose returns
// yield nil for that result (helpers a Run body was extracted into).
func alwaysNilValue(v ssa.Value, depth int) bool {
	if IsNilConst(v) {
		return true
	}
	if depth > 3 {
		return false
	}
	switch v := v.(type) {
	case *ssa.Phi:
		for _, e := range v.Edges {
			if !alwaysNilValue(e, depth+1) {
				return false
			}
		}
		return true
	case *ssa.Call:
		return calleeResultAlwaysNil(v, 0, depth)
	case *ssa.Extract:
		if call, ok := v.Tuple.(*ssa.Call); ok {
			return calleeResultAlwaysNil(call, v.Index, depth)
		}
	}
	return false
}

func calleeResultAlwaysNil(call *ssa.Call, idx, depth int) bool {
	callee := call.Call.StaticCallee()
	if callee == nil || !FuncInModule(callee) || len(callee.Blocks) == 0 {
		return false
	}
	rets := Returns(callee)
	if len(rets) == 0 {
		return false
	}
	for _, r := range rets {
		rv := ReturnOperand(r, idx)
		if rv == nil || !alwaysNilValue(rv, depth+1) {
			return false
		}
	}
	return true
}
