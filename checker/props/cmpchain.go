package props

import (
	"go/ast"
	"go/token"
	"go/types"
	"strings"

	"golang.org/x/tools/go/packages"
	"golang.org/x/tools/go/ssa"

	. "verif/checker/engine"
)

// symEnv resolves expressions inside a comparator or equality function to
// "root.path" strings, where root is "L" or "R" (the two elements compared).
type symEnv struct {
	p    *packages.Package
	vars map[types.Object]string
	// slice element roots: slice object -> index object -> root
	idx map[types.Object]string
}

func (e *symEnv) resolve(x ast.Expr) (string, bool) {
	switch x := ast.Unparen(x).(type) {
	case *ast.Ident:
		if s, ok := e.vars[e.p.TypesInfo.ObjectOf(x)]; ok {
			return s, true
		}
	case *ast.SelectorExpr:
		base, ok := e.resolve(x.X)
		if !ok {
			return "", false
		}
		// skip embedded steps so that d.Diagnostic.Position == d.Position
		if sel := e.p.TypesInfo.Selections[x]; sel != nil {
			if f, ok := sel.Obj().(*types.Var); ok && f.Embedded() {
				return base, true
			}
			if sel.Kind() != types.FieldVal {
				// a method of the value: counts as a use of the value itself
				return base, true
			}
		}
		return base + "." + x.Sel.Name, true
	case *ast.IndexExpr:
		if id, ok := ast.Unparen(x.Index).(*ast.Ident); ok {
			if r, ok := e.idx[e.p.TypesInfo.ObjectOf(id)]; ok {
				return r, true
			}
		}
	case *ast.StarExpr:
		return e.resolve(x.X)
	case *ast.UnaryExpr:
		if x.Op == token.AND {
			return e.resolve(x.X)
		}
	case *ast.CallExpr:
		// a one-argument wrapper (case folding, conversion) still compares that field
		if len(x.Args) == 1 {
			return e.resolve(x.Args[0])
		}
		// method call on a resolvable receiver with no args: x.f.String()
		if sel, ok := x.Fun.(*ast.SelectorExpr); ok && len(x.Args) == 0 {
			return e.resolve(sel.X)
		}
	}
	return "", false
}

func (e *symEnv) bind(lhs []ast.Expr, rhs []ast.Expr) {
	if len(lhs) != len(rhs) {
		return
	}
	for i, l := range lhs {
		id, ok := l.(*ast.Ident)
		if !ok {
			continue
		}
		if s, ok := e.resolve(rhs[i]); ok {
			e.vars[e.p.TypesInfo.ObjectOf(id)] = s
		}
	}
}

// pairPath takes two resolved operands "L.x.y" / "R.x.y" and returns "x.y" if
// they select the same path of the two elements.
func pairPath(a, b string) (string, bool) {
	ra, pa, ok1 := strings.Cut(a, ".")
	rb, pb, ok2 := strings.Cut(b, ".")
	if !ok1 || !ok2 || pa != pb || ra == rb {
		return "", false
	}
	if !(ra == "L" && rb == "R") && !(ra == "R" && rb == "L") {
		return "", false
	}
	return pa, true
}

// comparatorChain extracts the ordered list of field paths a comparator
// (less-style func(i, j int) bool over slice elements, or func(a, b T) int)
// compares lexicographically. It aborts the rule if the comparator uses an
// idiom it does not know.
func comparatorChain(c *Ctx, p *packages.Package, lit *ast.FuncLit) []string {
	env := &symEnv{p: p, vars: map[types.Object]string{}, idx: map[types.Object]string{}}
	params := lit.Type.Params.List
	var names []*ast.Ident
	for _, f := range params {
		names = append(names, f.Names...)
	}
	if len(names) != 2 {
		c.Undecided("comparator does not have two parameters")
	}
	isInt := func(id *ast.Ident) bool {
		b, ok := p.TypesInfo.TypeOf(id).Underlying().(*types.Basic)
		return ok && b.Kind() == types.Int
	}
	if isInt(names[0]) && isInt(names[1]) {
		env.idx[p.TypesInfo.ObjectOf(names[0])] = "L"
		env.idx[p.TypesInfo.ObjectOf(names[1])] = "R"
	} else {
		env.vars[p.TypesInfo.ObjectOf(names[0])] = "L"
		env.vars[p.TypesInfo.ObjectOf(names[1])] = "R"
	}
	var chain []string
	cmpCall := func(x ast.Expr) (string, bool) {
		call, ok := ast.Unparen(x).(*ast.CallExpr)
		if !ok || len(call.Args) != 2 {
			return "", false
		}
		a, ok1 := env.resolve(call.Args[0])
		b, ok2 := env.resolve(call.Args[1])
		if !ok1 || !ok2 {
			return "", false
		}
		return pairPath(a, b)
	}
	relation := func(x ast.Expr) (string, bool) {
		be, ok := ast.Unparen(x).(*ast.BinaryExpr)
		if !ok {
			return "", false
		}
		switch be.Op {
		case token.LSS, token.GTR, token.LEQ, token.GEQ, token.NEQ, token.EQL:
		default:
			return "", false
		}
		// cmp.Compare(a, b) < 0
		if pth, ok := cmpCall(be.X); ok {
			return pth, true
		}
		a, ok1 := env.resolve(be.X)
		b, ok2 := env.resolve(be.Y)
		if !ok1 || !ok2 {
			return "", false
		}
		return pairPath(a, b)
	}
	for _, st := range lit.Body.List {
		switch st := st.(type) {
		case *ast.AssignStmt:
			env.bind(st.Lhs, st.Rhs)
		case *ast.DeclStmt:
			if gd, ok := st.Decl.(*ast.GenDecl); ok {
				for _, sp := range gd.Specs {
					if vs, ok := sp.(*ast.ValueSpec); ok {
						var lhs []ast.Expr
						for _, n := range vs.Names {
							lhs = append(lhs, n)
						}
						env.bind(lhs, vs.Values)
					}
				}
			}
		case *ast.IfStmt:
			var pth string
			var ok bool
			if st.Init != nil {
				// if c := cmp.Compare(a.f, b.f); c != 0 { return c … }
				as, isAs := st.Init.(*ast.AssignStmt)
				if !isAs || len(as.Rhs) != 1 {
					c.Undecided("unrecognised comparator idiom at %s", c.PosStr(st.Pos()))
				}
				pth, ok = cmpCall(as.Rhs[0])
			} else {
				pth, ok = relation(st.Cond)
			}
			if !ok || st.Else != nil || len(st.Body.List) != 1 {
				c.Undecided("unrecognised comparator idiom at %s", c.PosStr(st.Pos()))
			}
			if _, isRet := st.Body.List[0].(*ast.ReturnStmt); !isRet {
				c.Undecided("unrecognised comparator idiom at %s", c.PosStr(st.Pos()))
			}
			chain = append(chain, pth)
		case *ast.ReturnStmt:
			if len(st.Results) != 1 {
				c.Undecided("unrecognised comparator return at %s", c.PosStr(st.Pos()))
			}
			if pth, ok := relation(st.Results[0]); ok {
				chain = append(chain, pth)
			} else if pth, ok := cmpCall(st.Results[0]); ok {
				chain = append(chain, pth)
			} else if k, isK := p.TypesInfo.Types[st.Results[0]]; isK && k.Value != nil {
				// return false / return 0: nothing more compared
			} else {
				c.Undecided("unrecognised comparator return at %s", c.PosStr(st.Pos()))
			}
		default:
			c.Undecided("unrecognised statement in comparator at %s", c.PosStr(st.Pos()))
		}
	}
	return chain
}

// leaves expands a field path of struct type T into the paths of its basic
// leaves ("Position" → Position.Filename, …).
func leaves(t types.Type, path string) []string {
	t = types.Unalias(t)
	if p, ok := t.Underlying().(*types.Pointer); ok {
		t = p.Elem()
	}
	st, ok := t.Underlying().(*types.Struct)
	if !ok {
		return []string{path}
	}
	var out []string
	for f := range st.Fields() {
		sub := path + "." + f.Name()
		if f.Embedded() {
			sub = path
		}
		if path == "" {
			sub = f.Name()
		}
		out = append(out, leaves(f.Type(), sub)...)
	}
	return out
}

// fieldTypeAt resolves a dotted path of field names (embedded fields are
// looked through) starting at struct type t.
func fieldTypeAt(t types.Type, path string) types.Type {
	for _, name := range strings.Split(path, ".") {
		obj, _, _ := types.LookupFieldOrMethod(t, true, nil, name)
		v, ok := obj.(*types.Var)
		if !ok {
			// unexported fields need the package; retry by scanning
			v = findField(t, name)
			if v == nil {
				return nil
			}
		}
		t = v.Type()
	}
	return t
}

func findField(t types.Type, name string) *types.Var {
	t = types.Unalias(t)
	if p, ok := t.Underlying().(*types.Pointer); ok {
		t = p.Elem()
	}
	st, ok := t.Underlying().(*types.Struct)
	if !ok {
		return nil
	}
	for f := range st.Fields() {
		if f.Name() == name {
			return f
		}
	}
	for f := range st.Fields() {
		if f.Embedded() {
			if v := findField(f.Type(), name); v != nil {
				return v
			}
		}
	}
	return nil
}

func expandLeaves(elem types.Type, paths []string) []string {
	var out []string
	for _, p := range paths {
		ft := fieldTypeAt(elem, p)
		if ft == nil {
			out = append(out, p)
			continue
		}
		out = append(out, leaves(ft, p)...)
	}
	return out
}

// findFuncLitArg finds, inside body, a call to one of the sort functions and
// returns its comparator literal.
func findSortComparator(p *packages.Package, body ast.Node) (*ast.FuncLit, *ast.CallExpr) {
	var lit *ast.FuncLit
	var call *ast.CallExpr
	ast.Inspect(body, func(n ast.Node) bool {
		ce, ok := n.(*ast.CallExpr)
		if !ok || lit != nil {
			return true
		}
		sel, ok := ce.Fun.(*ast.SelectorExpr)
		if !ok {
			return true
		}
		fn, ok := p.TypesInfo.Uses[sel.Sel].(*types.Func)
		if !ok || fn.Pkg() == nil {
			return true
		}
		full := fn.Pkg().Path() + "." + fn.Name()
		switch full {
		case "sort.Slice", "sort.SliceStable", "slices.SortFunc", "slices.SortStableFunc":
			if fl, ok := ce.Args[len(ce.Args)-1].(*ast.FuncLit); ok {
				lit, call = fl, ce
			}
		}
		return true
	})
	return lit, call
}

// ---------------------------------------------------------------------------
// SSA-based extraction (independent of how the comparator is spelled: if
// chains, tagless switches, negated conditions, a comparator bound to a name)

// sortComparatorSSA finds a call to sort.Slice / sort.SliceStable /
// slices.SortFunc / slices.SortStableFunc in fn and returns the comparator
// function and the call.
func sortComparatorSSA(fn *ssa.Function) (*ssa.Function, ssa.CallInstruction) {
	for _, ci := range Calls(fn, false) {
		switch CalleeName(ci.Common()) {
		case "sort.Slice", "sort.SliceStable", "slices.SortFunc", "slices.SortStableFunc":
			args := ci.Common().Args
			for x := range BackSlice(args[len(args)-1], SliceOpts{}) {
				switch x := x.(type) {
				case *ssa.MakeClosure:
					if f, ok := x.Fn.(*ssa.Function); ok {
						return f, ci
					}
				case *ssa.Function:
					return x, ci
				}
			}
		}
	}
	return nil, nil
}

// comparatorChainSSA walks a comparator's control flow from its entry along
// the "equal so far" edges and returns the field paths compared, in order.
// why is non-empty when the comparator has a shape it does not understand.
func comparatorChainSSA(cmp *ssa.Function) (chain []string, why string) {
	if len(cmp.Params) != 2 {
		return nil, "comparator does not have two parameters"
	}
	isIntParam := func(p *ssa.Parameter) bool {
		b, ok := p.Type().Underlying().(*types.Basic)
		return ok && b.Info()&types.IsInteger != 0
	}
	byIndex := isIntParam(cmp.Params[0]) && isIntParam(cmp.Params[1])
	var path func(v ssa.Value, depth int) (string, bool)
	path = func(v ssa.Value, depth int) (string, bool) {
		if depth > 12 {
			return "", false
		}
		field := func(x ssa.Value, idx int) (string, bool) {
			base, ok := path(x, depth+1)
			if !ok {
				return "", false
			}
			_, f := FieldOf(x.Type(), idx)
			if f == nil {
				return "", false
			}
			if f.Embedded() {
				return base, true
			}
			return base + "." + f.Name(), true
		}
		switch x := v.(type) {
		case *ssa.Alloc:
			// a local variable holding (a part of) an element: di := diagnostics[i]; pi := di.Position
			var src ssa.Value
			n := 0
			for _, r := range *x.Referrers() {
				if st, ok := r.(*ssa.Store); ok && st.Addr == ssa.Value(x) {
					src = st.Val
					n++
				}
			}
			if n == 1 {
				return path(src, depth+1)
			}
			return "", false
		case *ssa.Parameter:
			if !byIndex {
				if x == cmp.Params[0] {
					return "L", true
				}
				if x == cmp.Params[1] {
					return "R", true
				}
			}
		case *ssa.IndexAddr:
			if byIndex {
				if x.Index == ssa.Value(cmp.Params[0]) {
					return "L", true
				}
				if x.Index == ssa.Value(cmp.Params[1]) {
					return "R", true
				}
			}
		case *ssa.Index:
			if byIndex {
				if x.Index == ssa.Value(cmp.Params[0]) {
					return "L", true
				}
				if x.Index == ssa.Value(cmp.Params[1]) {
					return "R", true
				}
			}
		case *ssa.UnOp:
			if x.Op == token.MUL {
				// a load; a load from a local cell that was assigned an element (di := diagnostics[i])
				if al, ok := x.X.(*ssa.Alloc); ok {
					var src ssa.Value
					n := 0
					for _, r := range *al.Referrers() {
						if st, ok := r.(*ssa.Store); ok && st.Addr == ssa.Value(al) {
							src = st.Val
							n++
						}
					}
					if n == 1 {
						return path(src, depth+1)
					}
					return "", false
				}
				return path(x.X, depth+1)
			}
		case *ssa.FieldAddr:
			return field(x.X, x.Field)
		case *ssa.Field:
			return field(x.X, x.Field)
		case *ssa.ChangeType:
			return path(x.X, depth+1)
		case *ssa.Convert:
			return path(x.X, depth+1)
		case *ssa.MakeInterface:
			return path(x.X, depth+1)
		case *ssa.Call:
			args := CallArgs(&x.Call)
			if x.Call.IsInvoke() && len(x.Call.Args) == 0 {
				return path(x.Call.Value, depth+1)
			}
			if len(args) == 1 {
				return path(args[0], depth+1) // a wrapper: case folding, String()
			}
		}
		return "", false
	}
	pair := func(a, b ssa.Value) (string, bool) {
		pa, ok1 := path(a, 0)
		pb, ok2 := path(b, 0)
		if !ok1 || !ok2 {
			return "", false
		}
		return pairPath(pa, pb)
	}
	// a comparison of the same path of both elements: a.f OP b.f, or cmp.Compare(a.f, b.f) OP 0
	compared := func(v ssa.Value) (string, token.Token, bool) {
		bo, ok := v.(*ssa.BinOp)
		if !ok {
			if call, isCall := v.(*ssa.Call); isCall && len(call.Call.Args) == 2 {
				if p, ok := pair(call.Call.Args[0], call.Call.Args[1]); ok {
					return p, token.ILLEGAL, true
				}
			}
			return "", 0, false
		}
		if call, isCall := bo.X.(*ssa.Call); isCall && len(call.Call.Args) == 2 {
			if _, isK := ConstInt(bo.Y); isK {
				if p, ok := pair(call.Call.Args[0], call.Call.Args[1]); ok {
					return p, bo.Op, true
				}
			}
		}
		if p, ok := pair(bo.X, bo.Y); ok {
			return p, bo.Op, true
		}
		return "", 0, false
	}
	blk := cmp.Blocks[0]
	seen := map[*ssa.BasicBlock]bool{}
	for steps := 0; steps < 200; steps++ {
		if seen[blk] {
			return nil, "the comparator loops"
		}
		seen[blk] = true
		switch t := blk.Instrs[len(blk.Instrs)-1].(type) {
		case *ssa.Jump:
			blk = blk.Succs[0]
		case *ssa.Return:
			if len(t.Results) != 1 {
				return nil, "unexpected return"
			}
			r := ReturnOperand(t, 0)
			if phi, ok := r.(*ssa.Phi); ok {
				_ = phi
				return nil, "the comparator returns a merged value"
			}
			if _, isConst := r.(*ssa.Const); isConst {
				return chain, ""
			}
			if p, _, ok := compared(r); ok {
				chain = append(chain, p)
				return chain, ""
			}
			return nil, "unrecognised final comparison " + r.String()
		case *ssa.If:
			cond, neg := StripNot(t.Cond)
			p, op, ok := compared(cond)
			if !ok {
				return nil, "unrecognised condition " + cond.String()
			}
			chain = append(chain, p)
			// follow the edge on which the two are equal
			var eqOnTrue bool
			switch op {
			case token.EQL:
				eqOnTrue = true
			case token.NEQ:
				eqOnTrue = false
			default:
				return nil, "an ordering test (<, >) used as a branch condition"
			}
			if neg {
				eqOnTrue = !eqOnTrue
			}
			if eqOnTrue {
				blk = blk.Succs[0]
			} else {
				blk = blk.Succs[1]
			}
		default:
			return nil, "unexpected control flow in the comparator"
		}
	}
	return nil, "comparator too long"
}

// sortChainOf returns the comparator chain of the sort in fn (named rel in
// package pkgRel), preferring the SSA extraction and falling back to the
// syntactic one (which aborts the rule on idioms it does not know).
func sortChainOf(c *Ctx, pkgRel, name string) ([]string, token.Pos) {
	fn := c.Func(pkgRel, name)
	if cmp, call := sortComparatorSSA(fn); cmp != nil {
		if chain, why := comparatorChainSSA(cmp); why == "" {
			return chain, call.Pos()
		} else {
			c.Note("comparator of %s: SSA extraction gave up (%s); using the syntactic extraction", name, why)
		}
	}
	fd, p := c.Decl(pkgRel, name)
	lit, call := findSortComparator(p, fd.Body)
	if lit == nil {
		c.Undecided("%s no longer sorts with a recognisable comparator", name)
	}
	return comparatorChain(c, p, lit), call.Pos()
}
