package props

import (
	"go/ast"
	"go/token"
	"go/types"
	"strings"

	"golang.org/x/tools/go/packages"

	. "verif/checker/engine"
)

// symEnv resolves expressions inside a comparator or equality function to
// "root.path" strings, where root is "L" or "R" (the two elements compared).
type symEnv struct {
	p    *packages.Package
	vars map[types.Object]string
	// slice element roots: slice object -> index object -> root
	idx map[types.Object]string
}

func (e *symEnv) resolve(x ast.Expr) (string, bool) {
	switch x := ast.Unparen(x).(type) {
	case *ast.Ident:
		if s, ok := e.vars[e.p.TypesInfo.ObjectOf(x)]; ok {
			return s, true
		}
	case *ast.SelectorExpr:
		base, ok := e.resolve(x.X)
		if !ok {
			return "", false
		}
		// skip embedded steps so that d.Diagnostic.Position == d.Position
		if sel := e.p.TypesInfo.Selections[x]; sel != nil {
			if f, ok := sel.Obj().(*types.Var); ok && f.Embedded() {
				return base, true
			}
			if sel.Kind() != types.FieldVal {
				// a method of the value: counts as a use of the value itself
				return base, true
			}
		}
		return base + "." + x.Sel.Name, true
	case *ast.IndexExpr:
		if id, ok := ast.Unparen(x.Index).(*ast.Ident); ok {
			if r, ok := e.idx[e.p.TypesInfo.ObjectOf(id)]; ok {
				return r, true
			}
		}
	case *ast.StarExpr:
		return e.resolve(x.X)
	case *ast.UnaryExpr:
		if x.Op == token.AND {
			return e.resolve(x.X)
		}
	case *ast.CallExpr:
		// a one-argument wrapper (case folding, conversion) still compares that field
		if len(x.Args) == 1 {
			return e.resolve(x.Args[0])
		}
		// method call on a resolvable receiver with no args: x.f.String()
		if sel, ok := x.Fun.(*ast.SelectorExpr); ok && len(x.Args) == 0 {
			return e.resolve(sel.X)
		}
	}
	return "", false
}

func (e *symEnv) bind(lhs []ast.Expr, rhs []ast.Expr) {
	if len(lhs) != len(rhs) {
		return
	}
	for i, l := range lhs {
		id, ok := l.(*ast.Ident)
		if !ok {
			continue
		}
		if s, ok := e.resolve(rhs[i]); ok {
			e.vars[e.p.TypesInfo.ObjectOf(id)] = s
		}
	}
}

// pairPath takes two resolved operands "L.x.y" / "R.x.y" and returns "x.y" if
// they select the same path of the two elements.
func pairPath(a, b string) (string, bool) {
	ra, pa, ok1 := strings.Cut(a, ".")
	rb, pb, ok2 := strings.Cut(b, ".")
	if !ok1 || !ok2 || pa != pb || ra == rb {
		return "", false
	}
	if !(ra == "L" && rb == "R") && !(ra == "R" && rb == "L") {
		return "", false
	}
	return pa, true
}

// comparatorChain extracts the ordered list of field paths a comparator
// (less-style func(i, j int) bool over slice elements, or func(a, b T) int)
// compares lexicographically. It aborts the rule if the comparator uses an
// idiom it does not know.
func comparatorChain(c *Ctx, p *packages.Package, lit *ast.FuncLit) []string {
	env := &symEnv{p: p, vars: map[types.Object]string{}, idx: map[types.Object]string{}}
	params := lit.Type.Params.List
	var names []*ast.Ident
	for _, f := range params {
		names = append(names, f.Names...)
	}
	if len(names) != 2 {
		c.Undecided("comparator does not have two parameters")
	}
	isInt := func(id *ast.Ident) bool {
		b, ok := p.TypesInfo.TypeOf(id).Underlying().(*types.Basic)
		return ok && b.Kind() == types.Int
	}
	if isInt(names[0]) && isInt(names[1]) {
		env.idx[p.TypesInfo.ObjectOf(names[0])] = "L"
		env.idx[p.TypesInfo.ObjectOf(names[1])] = "R"
	} else {
		env.vars[p.TypesInfo.ObjectOf(names[0])] = "L"
		env.vars[p.TypesInfo.ObjectOf(names[1])] = "R"
	}
	var chain []string
	cmpCall := func(x ast.Expr) (string, bool) {
		call, ok := ast.Unparen(x).(*ast.CallExpr)
		if !ok || len(call.Args) != 2 {
			return "", false
		}
		a, ok1 := env.resolve(call.Args[0])
		b, ok2 := env.resolve(call.Args[1])
		if !ok1 || !ok2 {
			return "", false
		}
		return pairPath(a, b)
	}
	relation := func(x ast.Expr) (string, bool) {
		be, ok := ast.Unparen(x).(*ast.BinaryExpr)
		if !ok {
			return "", false
		}
		switch be.Op {
		case token.LSS, token.GTR, token.LEQ, token.GEQ, token.NEQ, token.EQL:
		default:
			return "", false
		}
		// cmp.Compare(a, b) < 0
		if pth, ok := cmpCall(be.X); ok {
			return pth, true
		}
		a, ok1 := env.resolve(be.X)
		b, ok2 := env.resolve(be.Y)
		if !ok1 || !ok2 {
			return "", false
		}
		return pairPath(a, b)
	}
	for _, st := range lit.Body.List {
		switch st := st.(type) {
		case *ast.AssignStmt:
			env.bind(st.Lhs, st.Rhs)
		case *ast.DeclStmt:
			if gd, ok := st.Decl.(*ast.GenDecl); ok {
				for _, sp := range gd.Specs {
					if vs, ok := sp.(*ast.ValueSpec); ok {
						var lhs []ast.Expr
						for _, n := range vs.Names {
							lhs = append(lhs, n)
						}
						env.bind(lhs, vs.Values)
					}
				}
			}
		case *ast.IfStmt:
			var pth string
			var ok bool
			if st.Init != nil {
				// if c := cmp.Compare(a.f, b.f); c != 0 { return c … }
				as, isAs := st.Init.(*ast.AssignStmt)
				if !isAs || len(as.Rhs) != 1 {
					c.Undecided("unrecognised comparator idiom at %s", c.PosStr(st.Pos()))
				}
				pth, ok = cmpCall(as.Rhs[0])
			} else {
				pth, ok = relation(st.Cond)
			}
			if !ok || st.Else != nil || len(st.Body.List) != 1 {
				c.Undecided("unrecognised comparator idiom at %s", c.PosStr(st.Pos()))
			}
			if _, isRet := st.Body.List[0].(*ast.ReturnStmt); !isRet {
				c.Undecided("unrecognised comparator idiom at %s", c.PosStr(st.Pos()))
			}
			chain = append(chain, pth)
		case *ast.ReturnStmt:
			if len(st.Results) != 1 {
				c.Undecided("unrecognised comparator return at %s", c.PosStr(st.Pos()))
			}
			if pth, ok := relation(st.Results[0]); ok {
				chain = append(chain, pth)
			} else if pth, ok := cmpCall(st.Results[0]); ok {
				chain = append(chain, pth)
			} else if k, isK := p.TypesInfo.Types[st.Results[0]]; isK && k.Value != nil {
				// return false / return 0: nothing more compared
			} else {
				c.Undecided("unrecognised comparator return at %s", c.PosStr(st.Pos()))
			}
		default:
			c.Undecided("unrecognised statement in comparator at %s", c.PosStr(st.Pos()))
		}
	}
	return chain
}

// leaves expands a field path of struct type T into the paths of its basic
// leaves ("Position" → Position.Filename, …).
func leaves(t types.Type, path string) []string {
	t = types.Unalias(t)
	if p, ok := t.Underlying().(*types.Pointer); ok {
		t = p.Elem()
	}
	st, ok := t.Underlying().(*types.Struct)
	if !ok {
		return []string{path}
	}
	var out []string
	for f := range st.Fields() {
		sub := path + "." + f.Name()
		if f.Embedded() {
			sub = path
		}
		if path == "" {
			sub = f.Name()
		}
		out = append(out, leaves(f.Type(), sub)...)
	}
	return out
}

// fieldTypeAt resolves a dotted path of field names (embedded fields are
// looked through) starting at struct type t.
func fieldTypeAt(t types.Type, path string) types.Type {
	for _, name := range strings.Split(path, ".") {
		obj, _, _ := types.LookupFieldOrMethod(t, true, nil, name)
		v, ok := obj.(*types.Var)
		if !ok {
			// unexported fields need the package; retry by scanning
			v = findField(t, name)
			if v == nil {
				return nil
			}
		}
		t = v.Type()
	}
	return t
}

func findField(t types.Type, name string) *types.Var {
	t = types.Unalias(t)
	if p, ok := t.Underlying().(*types.Pointer); ok {
		t = p.Elem()
	}
	st, ok := t.Underlying().(*types.Struct)
	if !ok {
		return nil
	}
	for f := range st.Fields() {
		if f.Name() == name {
			return f
		}
	}
	for f := range st.Fields() {
		if f.Embedded() {
			if v := findField(f.Type(), name); v != nil {
				return v
			}
		}
	}
	return nil
}

func expandLeaves(elem types.Type, paths []string) []string {
	var out []string
	for _, p := range paths {
		ft := fieldTypeAt(elem, p)
		if ft == nil {
			out = append(out, p)
			continue
		}
		out = append(out, leaves(ft, p)...)
	}
	return out
}

// findFuncLitArg finds, inside body, a call to one of the sort functions and
// returns its comparator literal.
func findSortComparator(p *packages.Package, body ast.Node) (*ast.FuncLit, *ast.CallExpr) {
	var lit *ast.FuncLit
	var call *ast.CallExpr
	ast.Inspect(body, func(n ast.Node) bool {
		ce, ok := n.(*ast.CallExpr)
		if !ok || lit != nil {
			return true
		}
		sel, ok := ce.Fun.(*ast.SelectorExpr)
		if !ok {
			return true
		}
		fn, ok := p.TypesInfo.Uses[sel.Sel].(*types.Func)
		if !ok || fn.Pkg() == nil {
			return true
		}
		full := fn.Pkg().Path() + "." + fn.Name()
		switch full {
		case "sort.Slice", "sort.SliceStable", "slices.SortFunc", "slices.SortStableFunc":
			if fl, ok := ce.Args[len(ce.Args)-1].(*ast.FuncLit); ok {
				lit, call = fl, ce
			}
		}
		return true
	})
	return lit, call
}
