package props

import (
	"go/ast"
	"go/constant"
	"go/token"
	"go/types"
	"sort"
	"strings"

	"golang.org/x/tools/go/packages"
	"golang.org/x/tools/go/ssa"

	. "verif/checker/engine"
)

// structuralDefault lists matcher kinds whose handling by the reflective
// default of collectSymbols (requirements of all Node fields, And-ed) is
// sound: their Match succeeds only if every Node field matched.
var structuralDefault = map[string]string{
	"Builtin":                 "Match first matches Ident(name) and then only restricts further",
	"Object":                  "Match first matches Ident(name) and then only restricts further",
	"IntegerLiteral":          "Match requires Value to match the constant",
	"TrulyConstantExpression": "Match requires Value to match the constant",
	"Nil":                     "has no fields: no requirement",
}

// entryTableExempt: pattern node kinds that have no entry in nodeToASTTypes.
var entryTableExempt = map[string]string{
	"Ellipsis":      "no check uses it as the root of a pattern (a root use panics at parse time, i.e. at program start, and cannot go unnoticed)",
	"IndexListExpr": "no check uses it as the root of a pattern (a root use panics at parse time, i.e. at program start, and cannot go unnoticed)",
	"Binding":       "handled by an explicit case of collectEntryNodes",
	"Or":            "handled by an explicit case of collectEntryNodes",
	"Not":           "handled by an explicit case of collectEntryNodes",
	"Nil":           "handled by an explicit case of collectEntryNodes",
	"And":           "not produced by the parser: only occurs in Pattern.SymbolsPattern",
	"IndexSymbol":   "not produced by the parser: only occurs in Pattern.SymbolsPattern",
}

func init() {
	Register(&Property{
		ID:       "C08",
		Patterns: []string{"./pattern", "./analysis/code", "./..."},
		NeedSSA:  true,
		Explanation: "Decides the over-approximation structure of pattern pre-filtering: the entry-node table (evaluated from the nodeToASTTypes literal) maps every pattern node kind that mirrors a go/ast kind to at least that AST kind, 'Any' covers the union, and a negated or unconstrained root yields all kinds (R8.1); every matcher kind is classified in collectSymbols/collectEntryNodes by an explicit case or a reviewed 'structural default is sound' entry (R8.2); " +
			"requirements are never derived from a Not operand, an Or yields 'no requirement' as soon as one alternative has none, and only Strings below a Symbol become index symbols (R8.3); CouldMatchAny handles every kind collectSymbols can return (R8.4); the call-index path is used only when every alternative of the root call's function is a Symbol over plain names, and both candidate sources end in the same Match call (R8.5); " +
			"every Symbol name that the fast package rejection actually requires, in all pattern constants of the module, splits into a well-formed (package path, type, name) triple with a non-empty package path — a name the index can never resolve rejects every package (R8.6). " +
			"It does NOT decide equivalence of the two search strategies on all programs (aliases declared in third packages, wrapper nodes such as ExprStmt/ParenExpr that the matcher looks through)." +
			" Also decided: the type index's package table, from which every symbol lookup starts, covers the package of every used object (methods and fields of packages that are not imported directly), not only the imports." +
			" Index.Calls' ascent from the callee's name to the call is cumulative (selector step, then instantiation step), so qualified and explicitly instantiated callees are enumerated.",
		RuleText:    "table literals evaluated from the AST; type-switch case sets; SSA value origins of recursive calls; a reader for the pattern language applied to every pattern.MustParse constant",
		Assumptions: []string{"typeindex.Index.Object/Selection/Calls find every direct reference to an object of another package"},
		Run:         runC08,
		Configs:     []string{"linux/amd64"},
		Mutants: []Mutant{
			{Name: "calls-ascends-selector-or-instantiation", File: "internal/xtools-internal/typesinternal/typeindex/typeindex.go", Rule: "R8.9", KeyPart: "Calls::selector-and-instantiation-steps-are-cumulative",
				Old: "\t\t\t\tcur = astutil.UnparenEnclosingCursor(cur.Parent())\n\t\t\t}\n\n\t\t\t// ascend typeparams: f -> f[T]; f -> f[T1, T2]\n\t\t\tif ek := cur.ParentEdgeKind(); ek == edge.IndexExpr_X || ek == edge.IndexListExpr_X {", New: "\t\t\t\tcur = astutil.UnparenEnclosingCursor(cur.Parent())\n\t\t\t} else if ek := cur.ParentEdgeKind(); ek == edge.IndexExpr_X || ek == edge.IndexListExpr_X {"},
			{Name: "index-covers-methods-but-not-fields-of-indirect-packages", File: "internal/xtools-internal/typesinternal/typeindex/typeindex.go", Rule: "R8.8", KeyPart: "package-of-every-used-object-is-indexed",
				Old: "\t\t\t\tif !typesinternal.IsPackageLevel(obj) {\n", New: "\t\t\t\tif _, isFunc := obj.(*types.Func); isFunc && !typesinternal.IsPackageLevel(obj) {\n"},
			{Name: "prefilter-requires-use-of-symbol", File: "analysis/code/visit.go", Rule: "R8.7", KeyPart: "filters-on-use",
				Old: "\t\t\t\treturn index.Object(node.Path, node.Ident) != nil\n", New: "\t\t\t\treturn index.Used(index.Object(node.Path, node.Ident))\n"},
			{Name: "entry-table-wrong-kind", File: "pattern/parser.go", Rule: "R8.1", KeyPart: "SliceExpr",
				Old: "reflect.TypeFor[SliceExpr]():               {reflect.TypeFor[*ast.SliceExpr]()},", New: "reflect.TypeFor[SliceExpr]():               {reflect.TypeFor[*ast.IndexExpr]()},"},
			{Name: "any-misses-kind", File: "pattern/parser.go", Rule: "R8.1", KeyPart: "allTypes",
				Old: "\treflect.TypeFor[*ast.SendStmt](),\n\treflect.TypeFor[*ast.SelectStmt](),\n", New: "\treflect.TypeFor[*ast.SelectStmt](),\n"},
			{Name: "not-restricts-entry-nodes", File: "pattern/parser.go", Rule: "R8.1", KeyPart: "Not",
				Old: "\tcase Binding:\n\t\tcollectEntryNodes(node.Node, m)\n\tcase Not, Nil, nil:", New: "\tcase Binding:\n\t\tcollectEntryNodes(node.Node, m)\n\tcase Not:\n\t\tcollectEntryNodes(node.Node, m)\n\tcase Nil, nil:"},
			{Name: "symbols-from-not", File: "pattern/parser.go", Rule: "R8.3", KeyPart: "Not",
				Old: "\tcase Not, Token, nil:\n\t\treturn Any{}\n\tcase Symbol:", New: "\tcase Token, nil:\n\t\treturn Any{}\n\tcase Not:\n\t\treturn collectSymbols(node.Node, inSymbol)\n\tcase Symbol:"},
			{Name: "or-ignores-unconstrained-alternative", File: "pattern/parser.go", Rule: "R8.3", KeyPart: "Or",
				Old: "\t\t\tcase Any:\n\t\t\t\treturn Any{}\n\t\t\tcase nil:\n\t\t\tdefault:\n\t\t\t\ts.Nodes = append(s.Nodes, c)", New: "\t\t\tcase Any, nil:\n\t\t\tdefault:\n\t\t\t\ts.Nodes = append(s.Nodes, c)"},
			{Name: "every-string-is-a-symbol", File: "pattern/parser.go", Rule: "R8.3", KeyPart: "String",
				Old: "\t\tif !inSymbol {\n\t\t\treturn Any{}\n\t\t}\n", New: ""},
			{Name: "couldmatch-drops-and", File: "analysis/code/visit.go", Rule: "R8.4", KeyPart: "pattern.And",
				Old: "\t\tcase pattern.And:\n\t\t\tfor _, child := range node.Nodes {\n\t\t\t\tif !do(child) {\n\t\t\t\t\treturn false\n\t\t\t\t}\n\t\t\t}\n\t\t\treturn true\n", New: ""},
			{Name: "root-calls-with-non-symbol-alternative", File: "pattern/parser.go", Rule: "R8.5", KeyPart: "collectRootCallSymbols",
				Old: "\t\t\t\tif sym, ok := node.(Symbol); !ok || !handleSymName(sym.Name) {\n\t\t\t\t\treturn false\n\t\t\t\t}", New: "\t\t\t\tif sym, ok := node.(Symbol); ok && !handleSymName(sym.Name) {\n\t\t\t\t\treturn false\n\t\t\t\t}"},
			{Name: "index-path-always", File: "analysis/code/visit.go", Rule: "R8.5", KeyPart: "Matches",
				Old: "\t\t\tif len(q.RootCallSymbols) != 0 {", New: "\t\t\tif len(q.RootCallSymbols) != 0 || q.SymbolsPattern != nil {"},
			{Name: "builtin-symbol-required", File: "simple/s1001/s1001.go", Rule: "R8.6", KeyPart: "s1001",
				Old: "\t\t(Or\n\t\t\t(RangeStmt\n\t\t\t\tkey@(Ident _) value@(Ident _) \":=\" src\n\t\t\t\t[(AssignStmt (IndexExpr dst key) \"=\" value)])\n\t\t\t(RangeStmt\n\t\t\t\tkey@(Ident _) nil \":=\" src\n\t\t\t\t[(AssignStmt (IndexExpr dst key) \"=\" (IndexExpr src key))])\n\t\t\t(ForStmt",
				New: "\t\t(Or\n\t\t\t(ForStmt"},
		},
	})
}

// typeForArg returns the type argument of a reflect.TypeFor[T]() call.
func typeForArg(p *packages.Package, e ast.Expr) types.Type {
	call, ok := ast.Unparen(e).(*ast.CallExpr)
	if !ok {
		return nil
	}
	if sel, ok := call.Fun.(*ast.SelectorExpr); ok && sel.Sel.Name == "TypeOf" && len(call.Args) == 1 {
		// reflect.TypeOf(x): the dynamic type of x is its static type when that is not an interface
		if obj, _ := p.TypesInfo.Uses[sel.Sel].(*types.Func); obj != nil && obj.Pkg() != nil && obj.Pkg().Path() == "reflect" {
			t := p.TypesInfo.TypeOf(call.Args[0])
			if t != nil && !types.IsInterface(t) {
				return t
			}
		}
		return nil
	}
	ix, ok := call.Fun.(*ast.IndexExpr)
	if !ok {
		return nil
	}
	sel, ok := ix.X.(*ast.SelectorExpr)
	if !ok || sel.Sel.Name != "TypeFor" {
		return nil
	}
	return p.TypesInfo.TypeOf(ix.Index)
}

func pkgVarLit(p *packages.Package, name string) (*ast.CompositeLit, types.Object) {
	obj := p.Types.Scope().Lookup(name)
	if obj == nil {
		return nil, nil
	}
	for _, f := range p.Syntax {
		for _, d := range f.Decls {
			gd, ok := d.(*ast.GenDecl)
			if !ok {
				continue
			}
			for _, s := range gd.Specs {
				vs, ok := s.(*ast.ValueSpec)
				if !ok {
					continue
				}
				for i, id := range vs.Names {
					if p.TypesInfo.Defs[id] == obj && i < len(vs.Values) {
						cl, _ := ast.Unparen(vs.Values[i]).(*ast.CompositeLit)
						return cl, obj
					}
				}
			}
		}
	}
	return nil, obj
}

// caseTypesOf returns the case types of the first type switch over param
// index pidx in the function body (by name of the concrete type).
func caseTypeNames(p *packages.Package, fd *ast.FuncDecl) map[string]bool {
	out := map[string]bool{}
	var first *ast.TypeSwitchStmt
	ast.Inspect(fd.Body, func(n ast.Node) bool {
		if sw, ok := n.(*ast.TypeSwitchStmt); ok && first == nil {
			// only switches over the function's first parameter
			var x ast.Expr
			switch a := sw.Assign.(type) {
			case *ast.AssignStmt:
				x = a.Rhs[0].(*ast.TypeAssertExpr).X
			case *ast.ExprStmt:
				x = a.X.(*ast.TypeAssertExpr).X
			}
			if id, ok := ast.Unparen(x).(*ast.Ident); ok && len(fd.Type.Params.List) > 0 && len(fd.Type.Params.List[0].Names) > 0 &&
				p.TypesInfo.ObjectOf(id) == p.TypesInfo.ObjectOf(fd.Type.Params.List[0].Names[0]) {
				first = sw
			}
		}
		return true
	})
	if first == nil {
		return out
	}
	for _, cl := range first.Body.List {
		cc := cl.(*ast.CaseClause)
		for _, e := range cc.List {
			t := p.TypesInfo.TypeOf(e)
			if n, ok := types.Unalias(t).(*types.Named); ok {
				out[n.Obj().Name()] = true
			} else if t != nil {
				out[t.String()] = true
			}
		}
	}
	return out
}

func runC08(c *Ctx) {
	pp := c.Pkg("pattern")
	nodeIface := c.NamedType("pattern", "Node").Underlying().(*types.Interface)
	astPkg := c.Pkgs["go/ast"].Types

	// concrete pattern node kinds and matcher kinds
	var nodeKinds, matcherKinds []string
	sc := pp.Types.Scope()
	for _, n := range sc.Names() {
		tn, ok := sc.Lookup(n).(*types.TypeName)
		if !ok || tn.IsAlias() || types.IsInterface(tn.Type()) {
			continue
		}
		if types.Implements(tn.Type(), nodeIface) {
			nodeKinds = append(nodeKinds, n)
			if obj, _, _ := types.LookupFieldOrMethod(tn.Type(), false, pp.Types, "Match"); obj != nil {
				matcherKinds = append(matcherKinds, n)
			}
		}
	}

	c.Rule("R8.1", func() {
		c.Floor("R8.1", 45)
		tab, _ := pkgVarLit(pp, "nodeToASTTypes")
		all, _ := pkgVarLit(pp, "allTypes")
		if tab == nil || all == nil {
			c.Undecided("nodeToASTTypes / allTypes are no longer composite literals in package pattern")
		}
		allSet := map[string]bool{}
		for _, e := range all.Elts {
			if t := typeForArg(pp, e); t != nil {
				allSet[TypeString(t)] = true
			}
		}
		entries := map[string]map[string]bool{}
		for _, e := range tab.Elts {
			kv, ok := e.(*ast.KeyValueExpr)
			if !ok {
				continue
			}
			kt := typeForArg(pp, kv.Key)
			if kt == nil {
				c.Undecided("a key of nodeToASTTypes is neither reflect.TypeFor[T]() nor reflect.TypeOf of a concretely typed value")
			}
			name := kt.(*types.Named).Obj().Name()
			set := map[string]bool{}
			switch v := ast.Unparen(kv.Value).(type) {
			case *ast.Ident:
				if v.Name == "allTypes" {
					for k := range allSet {
						set[k] = true
					}
				} else if v.Name != "nil" {
					c.Undecided("unrecognised value for nodeToASTTypes[%s]", name)
				}
			case *ast.CompositeLit:
				for _, x := range v.Elts {
					if t := typeForArg(pp, x); t != nil {
						set[TypeString(t)] = true
					} else {
						c.Undecided("an element of nodeToASTTypes[%s] is neither reflect.TypeFor[T]() nor reflect.TypeOf of a concretely typed value", name)
					}
				}
			default:
				c.Undecided("unrecognised value for nodeToASTTypes[%s]", name)
			}
			entries[name] = set
		}
		wrappers := map[string]string{
			"*go/ast.BlockStmt": "wrapper: match() looks through a block to its statement list",
			"*go/ast.FieldList": "wrapper: match() looks through a field list to its fields",
		}
		for _, k := range nodeKinds {
			key := patternPkg + ".nodeToASTTypes[" + k + "]"
			set, has := entries[k]
			if !has {
				if why, ok := entryTableExempt[k]; ok {
					c.CheckTrivial(key, tab.Pos(), true, "exempt: %s", why)
				} else {
					c.Check(key, tab.Pos(), false, "pattern node kind %s has no entry: collectEntryNodes panics for a pattern rooted in it", k)
				}
				continue
			}
			astNode := astPkg.Scope().Lookup("Node").Type().Underlying().(*types.Interface)
			if astObj, _ := astPkg.Scope().Lookup(k).(*types.TypeName); astObj != nil && types.Implements(types.NewPointer(astObj.Type()), astNode) {
				want := "*go/ast." + k
				c.Check(key, tab.Pos(), set[want], "matchNodeAST accepts exactly the same-named AST kind, so the entry kinds of pattern.%s must include %s (has %v)", k, want, SortedKeys(set))
				if _, isWrapper := wrappers[want]; !isWrapper {
					c.Check(patternPkg+".allTypes::"+want, all.Pos(), allSet[want], "an unconstrained pattern (Any, a bare binding, a negation) can match %s nodes, so allTypes must contain that kind", want)
				}
			} else {
				c.Check(key, tab.Pos(), true, "non-AST kind with entry kinds %v", SortedKeys(set))
			}
		}
		// explicit cases of collectEntryNodes: Not / Nil / nil yield all kinds; Or and Binding recurse
		cen := c.Func("pattern", "collectEntryNodes")
		recArgs := map[string]bool{}
		// calls that recurse: to collectEntryNodes itself, or to a helper of the package that calls it
		var cenCalls []ssa.CallInstruction
		for _, f := range DeepFuncs(cen, 2) {
			for _, ci := range Calls(f, false) {
				callee := ci.Common().StaticCallee()
				if callee == nil || FuncPkgPath(callee) != patternPkg {
					continue
				}
				if callee == cen || (callee != f && len(CallsTo(callee, false, patternPkg+".collectEntryNodes")) > 0) {
					cenCalls = append(cenCalls, ci)
				}
			}
		}
		for _, ci := range cenCalls {
			for _, arg := range ci.Common().Args {
				for x := range BackSlice(arg, SliceOpts{}) {
					if fa, ok := x.(*ssa.FieldAddr); ok {
						if owner, f := FieldOf(fa.X.Type(), fa.Field); f != nil {
							recArgs[shortOwner(owner)+"."+f.Name()] = true
						}
					}
					if fv, ok := x.(*ssa.Field); ok {
						if owner, f := FieldOf(fv.X.Type(), fv.Field); f != nil {
							recArgs[shortOwner(owner)+"."+f.Name()] = true
						}
					}
				}
			}
		}
		c.Check(FuncKey(cen)+"::Not-does-not-restrict", cen.Pos(), !recArgs["pattern.Not.Node"], "a negated pattern matches the nodes its operand rejects, which can be of any kind; deriving its entry kinds from the operand drops all its matches")
		c.Check(FuncKey(cen)+"::Or-unions-alternatives", cen.Pos(), recArgs["pattern.Or.Nodes"], "the entry kinds of an Or are the union over its alternatives")
		c.Check(FuncKey(cen)+"::Binding-looks-through", cen.Pos(), recArgs["pattern.Binding.Node"], "a binding starts where its sub-pattern starts")
	})

	c.Rule("R8.2", func() {
		c.Floor("R8.2", 12)
		csFD, _ := c.Decl("pattern", "collectSymbols")
		cases := caseTypeNames(pp, csFD)
		for _, k := range matcherKinds {
			key := patternPkg + ".collectSymbols::classifies-" + k
			if cases[k] {
				c.Check(key, csFD.Pos(), true, "explicit case")
				continue
			}
			why, ok := structuralDefault[k]
			c.Check(key, csFD.Pos(), ok, "matcher kind %s has custom matching semantics but falls into the reflective default of collectSymbols, which assumes 'matches only if every field matched'; add a case or review it (%s)", k, why)
		}
	})

	c.Rule("R8.3", func() {
		c.Floor("R8.3", 4)
		cs := c.Func("pattern", "collectSymbols")
		// recursive calls (also from the nested 'and' closure) never take a Not operand
		fromNot := false
		var fns []*ssa.Function
		fns = append(fns, cs)
		fns = append(fns, cs.AnonFuncs...)
		for _, fn := range fns {
			for _, ci := range Calls(fn, false) {
				callee := ci.Common().StaticCallee()
				if callee == nil || (callee != cs && callee.Name() != "collectRootCallSymbols") {
					continue
				}
				if DerivesLocal(ci.Common().Args[0], func(v ssa.Value) bool {
					return IsFieldOf("pattern.Not", "Node")(v)
				}) {
					fromNot = true
				}
			}
		}
		c.Check(FuncKey(cs)+"::Not-yields-no-requirement", cs.Pos(), !fromNot, "a symbol required by a negated sub-pattern must not become a requirement of the whole pattern: packages that lack it can match")
		// Or: an alternative without requirement makes the whole Or unconstrained:
		// a return of Any{} under "recursive result is Any" where the recursive arg is an element of Or.Nodes
		orAny := false
		for _, r := range Returns(cs) {
			mi, ok := ReturnOperand(r, 0).(*ssa.MakeInterface)
			if !ok || !strings.HasSuffix(mi.X.Type().String(), "pattern.Any") {
				continue
			}
			isAnyOfOrElem := CondEdges(cs, func(cond ssa.Value) (bool, bool) {
				e, ok := cond.(*ssa.Extract)
				if !ok || e.Index != 1 {
					return false, false
				}
				ta, ok := e.Tuple.(*ssa.TypeAssert)
				if !ok || !strings.HasSuffix(ta.AssertedType.String(), "pattern.Any") {
					return false, false
				}
				call, ok := ta.X.(*ssa.Call)
				if !ok || call.Call.StaticCallee() != cs {
					return false, false
				}
				return DerivesLocal(call.Call.Args[0], IsFieldOf("pattern.Or", "Nodes")), true
			})
			if len(isAnyOfOrElem) == 0 {
				continue
			}
			if ok, _ := MustPassEdges(cs, r, isAnyOfOrElem); ok {
				orAny = true
			}
		}
		c.Check(FuncKey(cs)+"::Or-with-unconstrained-alternative-is-unconstrained", cs.Pos(), orAny, "if one alternative of an Or needs no symbol, the Or needs none: collectSymbols must return Any as soon as an alternative yields Any")
		// Strings become symbols only below a Symbol
		inSym := cs.Params[1]
		guard := CondEdges(cs, func(cond ssa.Value) (bool, bool) { return cond == ssa.Value(inSym), true })
		strOK := len(guard) > 0
		for _, ci := range CallsTo(cs, false, patternPkg+".symbolToIndexSymbol") {
			if ok, _ := MustPassEdges(cs, ci, guard); !ok {
				strOK = false
			}
		}
		c.Check(FuncKey(cs)+"::String-is-a-symbol-only-below-Symbol", cs.Pos(), strOK, "a string literal is a symbol name only inside a Symbol node; elsewhere (identifier names, tokens) it must not become a required symbol")
		// the flag is set exactly for the Name of a Symbol
		setTrue := false
		for _, ci := range Calls(cs, false) {
			if ci.Common().StaticCallee() == cs && isBoolConst(ci.Common().Args[1], true) {
				if DerivesLocal(ci.Common().Args[0], IsFieldOf("pattern.Symbol", "Name")) {
					setTrue = true
				} else {
					setTrue = false
					break
				}
			}
		}
		c.Check(FuncKey(cs)+"::inSymbol-only-for-Symbol.Name", cs.Pos(), setTrue, "inSymbol is switched on exactly when descending into Symbol.Name")
	})

	c.Rule("R8.4", func() {
		c.Floor("R8.4", 3)
		cs := c.Func("pattern", "collectSymbols")
		// concrete kinds collectSymbols can return
		ret := map[string]bool{}
		var fns []*ssa.Function
		fns = append(fns, cs)
		for _, r := range Returns(cs) {
			for x := range BackSlice(ReturnOperand(r, 0), SliceOpts{}) {
				switch x := x.(type) {
				case *ssa.MakeInterface:
					if n, ok := types.Unalias(x.X.Type()).(*types.Named); ok {
						ret[n.Obj().Name()] = true
					}
				case *ssa.Const:
					if x.Value == nil && types.IsInterface(x.Type()) {
						ret["nil"] = true
					}
				}
			}
		}
		_ = fns
		vfd, vp := c.Decl("analysis/code", "CouldMatchAny")
		// the 'do' closure: the function literal with a type switch over its parameter
		handled := map[string]bool{}
		var bodies []ast.Node
		for _, f := range DeepFuncs(c.Func("analysis/code", "CouldMatchAny"), 2) {
			if syn := f.Syntax(); syn != nil && f.Parent() == nil {
				bodies = append(bodies, syn) // closures are inside their parent's syntax
			}
		}
		if len(bodies) == 0 {
			bodies = append(bodies, vfd.Body)
		}
		for _, body := range bodies {
			ast.Inspect(body, func(n ast.Node) bool {
				sw, ok := n.(*ast.TypeSwitchStmt)
				if !ok {
					return true
				}
				// only switches over a pattern.Node
				var x ast.Expr
				switch a := sw.Assign.(type) {
				case *ast.AssignStmt:
					x = a.Rhs[0].(*ast.TypeAssertExpr).X
				case *ast.ExprStmt:
					x = a.X.(*ast.TypeAssertExpr).X
				}
				if t := vp.TypesInfo.TypeOf(x); t == nil || !strings.HasSuffix(t.String(), "pattern.Node") {
					return true
				}
				for _, cl := range sw.Body.List {
					for _, e := range cl.(*ast.CaseClause).List {
						if n, ok := types.Unalias(vp.TypesInfo.TypeOf(e)).(*types.Named); ok {
							handled[n.Obj().Name()] = true
						}
					}
				}
				return true
			})
		}
		for _, k := range SortedKeys(ret) {
			key := codePkg + ".CouldMatchAny::handles-pattern." + k
			if k == "nil" {
				c.CheckTrivial(key, vfd.Pos(), true, "exempt: collectSymbols returns nil only for an Or without alternatives, which no pattern contains (it could never match)")
				continue
			}
			c.Check(key, vfd.Pos(), handled[k], "collectSymbols can return a pattern.%s, but CouldMatchAny has no case for it and panics in its default", k)
		}
		c.Note("R8.4: collectSymbols returns %v; CouldMatchAny handles %v", SortedKeys(ret), SortedKeys(handled))
	})

	// R8.7: the package-level filter decides on visibility, not on use. Symbol.Match
	// compares names after peeling aliases (os.FileMode matches io/fs.FileMode), so a
	// node can match a symbol although no identifier of the package resolves to the
	// symbol's own object; a filter that asks the index for uses/calls of the object
	// rejects such packages and drops real matches.
	c.Rule("R8.7", func() {
		c.Floor("R8.7", 2)
		cma := c.Func("analysis/code", "CouldMatchAny")
		all := DeepFuncs(cma, 2)
		peels := false
		for _, fn := range c.ModuleFuncs() {
			if FuncPkgPath(fn) == patternPkg && strings.Contains(fn.String(), "Symbol).Match") {
				if len(CallsTo(fn, true, "go/types.Unalias")) > 0 {
					peels = true
				}
			}
		}
		c.Note("R8.7: Symbol.Match peels aliases: %v", peels)
		visible, n := 0, 0
		for _, f := range all {
			for _, ci := range Calls(f, false) {
				name := CalleeName(ci.Common())
				if !strings.Contains(name, "typeindex.Index.") {
					continue
				}
				m := name[strings.LastIndex(name, ".")+1:]
				switch m {
				case "Object", "Selection":
					visible++
					c.Check(FuncKey(cma)+"::filters-on-visibility::"+m, ci.Pos(), true, "asks whether the symbol is visible to the package")
				case "Package":
				default:
					c.Check(FuncKey(cma)+"::filters-on-use::"+m+"#"+itoa(n), ci.Pos(), !peels, "CouldMatchAny asks the index for %s of a symbol's object, but Symbol.Match accepts a type reached through an alias declared elsewhere (types.Unalias), so a package can contain a match without any identifier that resolves to that object; the filter may only test visibility (Index.Object / Index.Selection != nil)", m)
					n++
				}
			}
		}
		if visible < 2 {
			c.Undecided("CouldMatchAny no longer looks symbols up with Index.Object/Index.Selection (%d lookups)", visible)
		}
	})

	c.Rule("R8.5", func() {
		c.Floor("R8.5", 5)
		m := c.Func("analysis/code", "Matches")
		all := DeepFuncs(m, 2)
		nMatch := 0
		usesIndex, usesInspector := false, false
		for _, f := range all {
			for _, ci := range Calls(f, false) {
				n := CalleeName(ci.Common())
				if n == codePkg+".Match" {
					nMatch++
				}
				if strings.HasSuffix(n, "typeindex.Index.Calls") {
					usesIndex = true
					// guarded by len(q.RootCallSymbols) != 0
					isRoots := func(v ssa.Value) bool { return Derives(v, IsFieldOf("pattern.Pattern", "RootCallSymbols")) }
					nonEmpty := LenNonZeroEdges(f, isRoots)
					// when the index path lives in a helper, the guard is at the helper's call site
					guardFn := f
					var guarded ssa.Instruction = ci
					for len(nonEmpty) == 0 && guardFn != m {
						var site ssa.CallInstruction
						for _, g := range all {
							for _, cc := range Calls(g, false) {
								root := guardFn
								for root.Parent() != nil {
									root = root.Parent()
								}
								if cc.Common().StaticCallee() == root {
									site, guardFn = cc, g
								}
							}
						}
						if site == nil {
							break
						}
						guarded = site
						nonEmpty = LenNonZeroEdges(guardFn, isRoots)
					}
					f, ci := guardFn, guarded
					ok, p := MustPassEdges(f, ci, nonEmpty)
					c.Check(FuncKey(m)+"::call-index-only-with-root-symbols", ci.Pos(), ok && len(nonEmpty) > 0, "candidates are taken from the call index only if the pattern has root call symbols; path: %s", PathString(f, p))
				}
				if strings.HasSuffix(n, "inspector.Inspector.Nodes") {
					usesInspector = true
					c.Check(FuncKey(m)+"::inspector-uses-EntryNodes", ci.Pos(), Derives(ci.Common().Args[1], IsFieldOf("pattern.Pattern", "EntryNodes")), "the inspector traversal is restricted by the pattern's own EntryNodes")
				}
			}
		}
		c.Check(FuncKey(m)+"::both-sources-end-in-Match", m.Pos(), nMatch >= 2 && usesIndex && usesInspector, "both candidate sources (call index, inspector) decide with the same code.Match(pass, q, node) (%d Match calls)", nMatch)
		// collectRootCallSymbols: a non-Symbol / non-String alternative makes the helpers return false
		crs := c.Func("pattern", "collectRootCallSymbols")
		for _, an := range crs.AnonFuncs {
			looksAtOr := false
			Instrs(an, false, func(in ssa.Instruction) {
				if fa, ok := in.(*ssa.FieldAddr); ok && IsFieldOf("pattern.Or", "Nodes")(fa) {
					looksAtOr = true
				}
				if fv, ok := in.(*ssa.Field); ok {
					if o, f := FieldOf(fv.X.Type(), fv.Field); f != nil && shortOwner(o) == "pattern.Or" && f.Name() == "Nodes" {
						looksAtOr = true
					}
				}
			})
			if !looksAtOr {
				continue // not one of the helpers that walk the alternatives of an Or
			}
			// in each helper: from the failing edge of a type assertion in a loop over Or.Nodes no 'return true' is reachable
			failing := CondEdges(an, func(cond ssa.Value) (bool, bool) {
				e, ok := cond.(*ssa.Extract)
				if !ok || e.Index != 1 {
					return false, false
				}
				ta, ok := e.Tuple.(*ssa.TypeAssert)
				if !ok || !ta.CommaOk {
					return false, false
				}
				s := ta.AssertedType.String()
				if !(strings.HasSuffix(s, "pattern.Symbol") || strings.HasSuffix(s, "pattern.String")) {
					return false, false
				}
				return DerivesLocal(ta.X, IsFieldOf("pattern.Or", "Nodes")), false
			})
			if len(failing) == 0 {
				c.Check(FuncKey(an)+"::non-symbol-alternative-disables-call-index", an.Pos(), false, "the helper no longer tests each alternative of an Or for being a Symbol/String")
				continue
			}
			bad := false
			for e := range failing {
				var blk *ssa.BasicBlock
				for _, b := range an.Blocks {
					if b.Index == e.Block {
						blk = b.Succs[e.Succ]
					}
				}
				isTrueRet := func(in ssa.Instruction) bool {
					r, ok := in.(*ssa.Return)
					return ok && !isBoolConst(ReturnOperand(r, 0), false)
				}
				if isTrueRet(blk.Instrs[0]) {
					bad = true
				}
				if t, _ := PathAvoiding(an, blk.Instrs[0], isTrueRet, nil, nil); t != nil {
					bad = true
				}
			}
			c.Check(FuncKey(an)+"::non-symbol-alternative-disables-call-index", an.Pos(), !bad, "if one alternative of the root function (or of a symbol's name) is not a plain Symbol/String, the call index cannot enumerate all candidates and must not be used")
		}
		// the result is non-nil only after handleRootFun succeeded
		var okEdges map[Edge]bool
		okEdges = CondEdges(crs, func(cond ssa.Value) (bool, bool) {
			call, ok := cond.(*ssa.Call)
			if !ok {
				return false, false
			}
			_, isClosure := call.Call.Value.(*ssa.MakeClosure)
			_, isLoad := call.Call.Value.(*ssa.UnOp)
			return isClosure || isLoad, true
		})
		for i, r := range Returns(crs) {
			if IsNilConst(ReturnOperand(r, 0)) {
				continue
			}
			ok, p := MustPassEdges(crs, r, okEdges)
			c.Check(FuncKey(crs)+"::symbols-only-if-every-alternative-is-a-symbol#"+itoa(i), r.Pos(), ok && len(okEdges) > 0, "collectRootCallSymbols returns symbols only on the true edge of handleRootFun; path: %s", PathString(crs, p))
		}
	})

	c.Rule("R8.6", func() {
		c.Floor("R8.6", 60)
		n, nSyms := 0, 0
		var paths []string
		for path := range c.Pkgs {
			if InModule(path) && !strings.Contains(path, "/internal/xtools-internal") {
				paths = append(paths, path)
			}
		}
		sort.Strings(paths)
		for _, path := range paths {
			p := c.Pkgs[path]
			for _, f := range p.Syntax {
				ast.Inspect(f, func(x ast.Node) bool {
					call, ok := x.(*ast.CallExpr)
					if !ok || len(call.Args) != 1 {
						return true
					}
					sel, ok := call.Fun.(*ast.SelectorExpr)
					if !ok || sel.Sel.Name != "MustParse" {
						return true
					}
					fn, ok := p.TypesInfo.Uses[sel.Sel].(*types.Func)
					if !ok || fn.Pkg() == nil || fn.Pkg().Path() != patternPkg {
						return true
					}
					tv, ok := p.TypesInfo.Types[call.Args[0]]
					if !ok || tv.Value == nil || tv.Value.Kind() != constant.String {
						return true
					}
					n++
					src := constant.StringVal(tv.Value)
					root, err := parsePat(src)
					key := strings.TrimPrefix(path, Module+"/") + "::pattern@" + patName(p, call)
					if err != nil {
						c.Check(key+"::readable", call.Pos(), false, "the checker's reader of the pattern language cannot read this pattern: %v", err)
						return true
					}
					req := requiredSymbols(root, false)
					if req.kind == "any" {
						c.CheckTrivial(key, call.Pos(), true, "no symbol is required: the fast package rejection never applies")
						return true
					}
					bad := ""
					for _, s := range req.leaves() {
						nSyms++
						if why := malformedSymbol(s); why != "" {
							bad = s + ": " + why
						}
					}
					c.Check(key, call.Pos(), bad == "", "the fast package rejection requires symbol %s; a name the index cannot resolve rejects every package, so the check silently never fires", bad)
					return true
				})
			}
		}
		if n < 60 {
			c.Undecided("found only %d pattern constants", n)
		}
		c.Note("R8.6: %d pattern constants read, %d required symbol names checked", n, nSyms)
	})
	// R8.8: symbols are looked up starting from the index's package table
	// (Index.Package → Object → Selection). A method or field can be used in a
	// package that never imports the package declaring it (srv.ErrorLog.Printf
	// with only net/http imported), so the table must cover the package of
	// every object that is used, not only the imports: on every path on which a
	// use is recorded, the object's package was added to the table, or the
	// object is package-level (then its package is imported by construction).
	c.Rule("R8.8", func() {
		c.Floor("R8.8", 2)
		tiPkg := Module + "/internal/xtools-internal/typesinternal/typeindex"
		newFn := c.Func("internal/xtools-internal/typesinternal/typeindex", "New")
		fns := append([]*ssa.Function{newFn}, newFn.AnonFuncs...)
		// the closure(s) that insert into Index.packages
		adders := map[*ssa.Function]bool{}
		for _, f := range fns {
			Instrs(f, false, func(in ssa.Instruction) {
				if mu, ok := in.(*ssa.MapUpdate); ok && Derives(mu.Map, IsFieldOf("typeindex.Index", "packages")) {
					adders[f] = true
				}
			})
		}
		if len(adders) == 0 {
			c.Undecided("typeindex.New no longer fills Index.packages")
		}
		isAdd := func(in ssa.Instruction, of ssa.Value) bool {
			fromPkgOf := func(v ssa.Value) bool {
				return Derives(v, func(x ssa.Value) bool {
					pc, ok := x.(*ssa.Call)
					return ok && pc.Call.IsInvoke() && pc.Call.Method.Name() == "Pkg" && Derives(pc.Call.Value, func(y ssa.Value) bool { return y == of })
				})
			}
			if mu, ok := in.(*ssa.MapUpdate); ok && Derives(mu.Map, IsFieldOf("typeindex.Index", "packages")) && fromPkgOf(mu.Value) {
				return true // inserted in place
			}
			call, ok := in.(*ssa.Call)
			if !ok {
				return false
			}
			target := false
			for _, cl := range closureTargets(&call.Call) {
				if adders[cl] {
					target = true
				}
			}
			if callee := call.Call.StaticCallee(); callee != nil && adders[callee] {
				target = true
			}
			if !target {
				// a direct insertion
				return false
			}
			for _, a := range call.Call.Args {
				if Derives(a, func(v ssa.Value) bool {
					pc, ok := v.(*ssa.Call)
					return ok && pc.Call.IsInvoke() && pc.Call.Method.Name() == "Pkg" && Derives(pc.Call.Value, func(x ssa.Value) bool { return x == of })
				}) {
					return true
				}
			}
			return false
		}
		n := 0
		for _, f := range fns {
			Instrs(f, false, func(in ssa.Instruction) {
				lk, ok := in.(*ssa.Lookup)
				if !ok || !DerivesLocal(lk.X, IsFieldOf("types.Info", "Uses")) {
					return
				}
				n++
				var obj ssa.Value = lk
				if lk.CommaOk {
					if refs := lk.Referrers(); refs != nil {
						for _, r := range *refs {
							if ex, ok := r.(*ssa.Extract); ok && ex.Index == 0 {
								obj = ex
							}
						}
					}
				}
				// where the use is recorded
				isRecord := func(x ssa.Instruction) bool {
					if mu, ok := x.(*ssa.MapUpdate); ok && Derives(mu.Map, IsFieldOf("typeindex.Index", "uses")) {
						return true
					}
					if l2, ok := x.(*ssa.Lookup); ok && x != ssa.Instruction(lk) && Derives(l2.X, IsFieldOf("typeindex.Index", "uses")) {
						return true
					}
					return false
				}
				pkgLevel := CallTrueEdges(f, func(call *ssa.Call) bool {
					return strings.HasSuffix(CalleeName(&call.Call), "typesinternal.IsPackageLevel") && len(call.Call.Args) == 1 && Derives(call.Call.Args[0], func(v ssa.Value) bool { return v == obj })
				})
				// no package (universe objects) or the indexed package itself: nothing to add
				trivial := EqEdges(f, func(x, y ssa.Value) bool {
					fromPkg := Derives(x, func(v ssa.Value) bool {
						pc, ok := v.(*ssa.Call)
						return ok && pc.Call.IsInvoke() && pc.Call.Method.Name() == "Pkg" && Derives(pc.Call.Value, func(z ssa.Value) bool { return z == obj })
					})
					if !fromPkg {
						return false
					}
					if IsNilConst(y) {
						return true
					}
					return strings.HasSuffix(y.Type().String(), "go/types.Package") && Derives(y, func(v ssa.Value) bool {
						switch v.(type) {
						case *ssa.Parameter, *ssa.FreeVar:
							return true
						}
						return false
					})
				})
				t, path := PathAvoiding(f, lk, isRecord, func(x ssa.Instruction) bool { return isAdd(x, obj) }, UnionEdges(pkgLevel, trivial))
				c.Check(FuncKey(f)+"::package-of-every-used-object-is-indexed", lk.Pos(), t == nil, "a use is recorded for an object whose package was not added to the index's package table (and that is not known to be package-level): Index.Object/Selection start from that table, so a method or field of a package that is not imported directly is invisible to CouldMatchAny and to the call-site enumeration although the pattern matches; path: %s", PathString(f, path))
			})
		}
		if n == 0 {
			c.Undecided("typeindex.New no longer consults Info.Uses")
		}
		// imports are indexed too
		imp := false
		for _, f := range fns {
			for _, ci := range Calls(f, false) {
				call, ok := ci.(*ssa.Call)
				if !ok {
					continue
				}
				for _, cl := range closureTargets(&call.Call) {
					if adders[cl] {
						for _, a := range call.Call.Args {
							if Derives(a, IsCallResult("go/types.PkgName.Imported")) {
								imp = true
							}
						}
					}
				}
			}
		}
		c.Check(tiPkg+".New::imports-indexed", newFn.Pos(), imp, "every import declaration (including blank and dot imports) adds the imported package to the table")
	})

	// R8.9: Index.Calls climbs from a use of the callee's name to the call:
	// f → (f) → x.f → f[T] → call. The steps are independent and cumulative: a
	// callee can be both qualified and explicitly instantiated
	// (slices.Index[[]int](xs, 3)), so after the selector step the
	// instantiation step must still be possible. If the two are alternatives of
	// one switch, such calls are never enumerated and patterns rooted in the
	// call lose matches.
	c.Rule("R8.9", func() {
		c.Floor("R8.9", 1)
		var callsFn *ssa.Function
		idx := c.NamedType("internal/xtools-internal/typesinternal/typeindex", "Index")
		for m := range idx.Methods() {
			if m.Name() == "Calls" {
				callsFn = c.Prog.FuncValue(m)
			}
		}
		if callsFn == nil {
			c.Undecided("anchor-missing typeindex.(*Index).Calls")
		}
		edgePkg := c.Pkgs["golang.org/x/tools/go/ast/edge"]
		if edgePkg == nil {
			c.Undecided("package golang.org/x/tools/go/ast/edge not loaded")
		}
		kind := func(name string) int64 {
			k, _ := edgePkg.Types.Scope().Lookup(name).(*types.Const)
			if k == nil {
				c.Undecided("edge.%s not found", name)
			}
			v, _ := constant.Int64Val(k.Val())
			return v
		}
		sel, ix, ixl := kind("SelectorExpr_Sel"), kind("IndexExpr_X"), kind("IndexListExpr_X")
		found := false
		for _, f := range DeepFuncs(callsFn, 3) {
			if FuncPkgPath(f) != FuncPkgPath(callsFn) {
				continue
			}
			isKindTest := func(vals ...int64) map[Edge]bool {
				return EqEdges(f, func(x, y ssa.Value) bool {
					k, ok := ConstInt(y)
					if !ok {
						return false
					}
					call, isCall := x.(*ssa.Call)
					if !isCall || !strings.HasSuffix(CalleeName(&call.Call), "Cursor.ParentEdgeKind") {
						return false
					}
					for _, v := range vals {
						if v == k {
							return true
						}
					}
					return false
				})
			}
			selEdges, idxEdges := isKindTest(sel), isKindTest(ix, ixl)
			if len(selEdges) == 0 || len(idxEdges) == 0 {
				continue
			}
			found = true
			// after a selector step, an instantiation step is still reachable
			cumulative := false
			for se := range selEdges {
				start := f.Blocks[se.Block].Succs[se.Succ].Instrs[0]
				for ie := range idxEdges {
					target := f.Blocks[ie.Block].Succs[ie.Succ].Instrs[0]
					if start == target || ReachesFrom(f, start, target) {
						cumulative = true
					}
				}
			}
			c.Check(FuncKey(callsFn)+"::selector-and-instantiation-steps-are-cumulative", f.Pos(), cumulative, "after ascending from f to x.f, Calls must still ascend from x.f to x.f[T]: a qualified, explicitly instantiated callee needs both steps; as alternatives of one switch they exclude each other and such calls are never enumerated")
		}
		if !found {
			c.Undecided("Index.Calls no longer tests ParentEdgeKind for the selector and the instantiation step")
		}
	})
}

func patName(p *packages.Package, call *ast.CallExpr) string {
	// name of the variable the pattern is assigned to, if any
	name := ""
	for _, f := range p.Syntax {
		if f.Pos() <= call.Pos() && call.Pos() < f.End() {
			ast.Inspect(f, func(n ast.Node) bool {
				vs, ok := n.(*ast.ValueSpec)
				if !ok {
					return true
				}
				for i, v := range vs.Values {
					if v.Pos() <= call.Pos() && call.End() <= v.End() && i < len(vs.Names) {
						name = vs.Names[i].Name
					}
				}
				return true
			})
		}
	}
	if name == "" {
		name = "anonymous"
	}
	return name
}

// ---------------------------------------------------------------------------
// a reader for the pattern language (only as much as is needed to find the
// symbols a pattern requires)

type patNode struct {
	kind string // node name, "string", "list", "any", "nil", "ref", "binding"
	str  string
	args []*patNode
}

type patLexer struct {
	s   string
	pos int
}

func (l *patLexer) skip() {
	for l.pos < len(l.s) && strings.ContainsRune(" \t\n\r", rune(l.s[l.pos])) {
		l.pos++
	}
}

func parsePat(s string) (*patNode, error) {
	l := &patLexer{s: s}
	n, err := l.node()
	if err != nil {
		return nil, err
	}
	l.skip()
	if l.pos != len(l.s) {
		return nil, errPat("trailing input at offset " + itoa(l.pos))
	}
	return n, nil
}

type errPat string

func (e errPat) Error() string { return string(e) }

func (l *patLexer) ident() string {
	start := l.pos
	for l.pos < len(l.s) {
		ch := l.s[l.pos]
		if ch == '_' || ch >= 'a' && ch <= 'z' || ch >= 'A' && ch <= 'Z' || ch >= '0' && ch <= '9' {
			l.pos++
		} else {
			break
		}
	}
	return l.s[start:l.pos]
}

// object = element [':' object]
func (l *patLexer) node() (*patNode, error) {
	el, err := l.element()
	if err != nil {
		return nil, err
	}
	l.skip()
	if l.pos < len(l.s) && l.s[l.pos] == ':' {
		l.pos++
		tail, err := l.node()
		if err != nil {
			return nil, err
		}
		return &patNode{kind: "List", args: []*patNode{el, tail}}, nil
	}
	return el, nil
}

func (l *patLexer) element() (*patNode, error) {
	l.skip()
	if l.pos >= len(l.s) {
		return nil, errPat("unexpected end of pattern")
	}
	switch ch := l.s[l.pos]; {
	case ch == '(':
		l.pos++
		l.skip()
		name := l.ident()
		if name == "" {
			return nil, errPat("expected node name at offset " + itoa(l.pos))
		}
		n := &patNode{kind: name}
		for {
			l.skip()
			if l.pos >= len(l.s) {
				return nil, errPat("unterminated node " + name)
			}
			if l.s[l.pos] == ')' {
				l.pos++
				return n, nil
			}
			a, err := l.node()
			if err != nil {
				return nil, err
			}
			n.args = append(n.args, a)
		}
	case ch == '[':
		l.pos++
		var els []*patNode
		for {
			l.skip()
			if l.pos >= len(l.s) {
				return nil, errPat("unterminated list")
			}
			if l.s[l.pos] == ']' {
				l.pos++
				break
			}
			a, err := l.node()
			if err != nil {
				return nil, err
			}
			els = append(els, a)
		}
		out := &patNode{kind: "List"} // empty list
		for i := len(els) - 1; i >= 0; i-- {
			out = &patNode{kind: "List", args: []*patNode{els[i], out}}
		}
		return out, nil
	case ch == '"':
		l.pos++
		start := l.pos
		for l.pos < len(l.s) && l.s[l.pos] != '"' {
			l.pos++
		}
		if l.pos >= len(l.s) {
			return nil, errPat("unterminated string")
		}
		str := l.s[start:l.pos]
		l.pos++
		return &patNode{kind: "string", str: str}, nil
	default:
		name := l.ident()
		if name == "" {
			return nil, errPat("unexpected character " + string(ch) + " at offset " + itoa(l.pos))
		}
		if l.pos < len(l.s) && l.s[l.pos] == '@' {
			l.pos++
			sub, err := l.element()
			if err != nil {
				return nil, err
			}
			return &patNode{kind: "binding", str: name, args: []*patNode{sub}}, nil
		}
		switch name {
		case "_":
			return &patNode{kind: "any"}, nil
		case "nil":
			return &patNode{kind: "nil"}, nil
		}
		return &patNode{kind: "ref", str: name}, nil
	}
}

// symReq is the requirement a pattern puts on the symbols a package must
// reference: any (none), a symbol, and-of, or-of.
type symReq struct {
	kind string // "any", "sym", "and", "or"
	sym  string
	kids []symReq
}

func (r symReq) leaves() []string {
	if r.kind == "sym" {
		return []string{r.sym}
	}
	var out []string
	for _, k := range r.kids {
		out = append(out, k.leaves()...)
	}
	return out
}

// requiredSymbols mirrors the documented meaning of SymbolsPattern: the
// symbols without which the pattern cannot match.
func requiredSymbols(n *patNode, inSymbol bool) symReq {
	anyR := symReq{kind: "any"}
	if n == nil {
		return anyR
	}
	and := func(parts []symReq) symReq {
		var kids []symReq
		for _, p := range parts {
			switch p.kind {
			case "any":
			case "and":
				kids = append(kids, p.kids...)
			default:
				kids = append(kids, p)
			}
		}
		switch len(kids) {
		case 0:
			return anyR
		case 1:
			return kids[0]
		}
		return symReq{kind: "and", kids: kids}
	}
	switch n.kind {
	case "any", "nil", "ref", "Not", "Token":
		return anyR
	case "string":
		if inSymbol {
			return symReq{kind: "sym", sym: n.str}
		}
		return anyR
	case "binding":
		return requiredSymbols(n.args[0], inSymbol)
	case "Binding":
		if len(n.args) == 2 {
			return requiredSymbols(n.args[1], inSymbol)
		}
		return anyR
	case "Symbol":
		if len(n.args) == 1 {
			return requiredSymbols(n.args[0], true)
		}
		return anyR
	case "Or":
		var kids []symReq
		for _, a := range n.args {
			r := requiredSymbols(a, inSymbol)
			if r.kind == "any" {
				return anyR
			}
			if r.kind == "or" {
				kids = append(kids, r.kids...)
			} else {
				kids = append(kids, r)
			}
		}
		switch len(kids) {
		case 0:
			return anyR
		case 1:
			return kids[0]
		}
		return symReq{kind: "or", kids: kids}
	default:
		var parts []symReq
		for _, a := range n.args {
			parts = append(parts, requiredSymbols(a, inSymbol))
		}
		return and(parts)
	}
}

// malformedSymbol explains why the typeindex can never resolve the name, or
// returns "".
func malformedSymbol(name string) string {
	if name == "" {
		return "empty name"
	}
	if name[0] == '(' {
		end := strings.Index(name, ")")
		if end == -1 || end > len(name)-3 || name[end+1] != '.' {
			return "expected \"(pkg/path.Type).Name\""
		}
		pt := strings.TrimPrefix(name[1:end], "*")
		dot := strings.LastIndex(pt, ".")
		if dot <= 0 || dot == len(pt)-1 {
			return "receiver type is not package-qualified"
		}
		return ""
	}
	dot := strings.LastIndex(name, ".")
	if dot <= 0 {
		return "no package path: the index only knows symbols of other packages, so a builtin or unqualified name can never be found"
	}
	if dot == len(name)-1 {
		return "empty identifier"
	}
	return ""
}

var _ = token.NoPos

// closureTargets returns the function literals a called function value may
// denote (through local variables and captured variables of enclosing functions).
func closureTargets(cc *ssa.CallCommon) []*ssa.Function {
	var out []*ssa.Function
	if cc.IsInvoke() {
		return nil
	}
	for x := range BackSlice(cc.Value, SliceOpts{}) {
		if mc, ok := x.(*ssa.MakeClosure); ok {
			if f, _ := mc.Fn.(*ssa.Function); f != nil {
				out = append(out, f)
			}
		}
		if f, ok := x.(*ssa.Function); ok {
			out = append(out, f)
		}
	}
	return out
}
