package props

import (
	"go/ast"
	"go/constant"
	"go/token"
	"go/types"
	"sort"
	"strings"

	"golang.org/x/tools/go/packages"
	"golang.org/x/tools/go/ssa"

	. "verif/checker/engine"
)

// childExempt lists (walker, node type, field) triples that need not be
// visited, with the reason.
var childExempt = map[string]string{
	"stmt/*ast.BranchStmt.Label":  "labels are not objects U1000 tracks (a label's only uses are break/continue/goto statements of the same function)",
	"stmt/*ast.LabeledStmt.Label": "labels are not objects U1000 tracks",
}

func init() {
	Register(&Property{
		ID:       "C07",
		Patterns: []string{"./unused"},
		NeedSSA:  true,
		Explanation: "Decides one necessary clause of deletion safety: the use-graph walkers of U1000 visit every child of every syntax node kind they handle that can contain an identifier. For each `case *ast.T` clause of the walkers (methods of graph that type-switch over a go/ast interface, found structurally), every field of T whose type is an AST child (Expr, Stmt, Decl, Spec, Node, pointers to node structs, slices of those) must be mentioned in the clause or in the graph method the node is delegated to (R7.1); " +
			"the walkers' type switches end in the exhaustiveness panic, so an unknown kind cannot be skipped silently (R7.2); for the second bracket — every zero-reference object is reported — two necessary conditions are decided: every declared constant, variable, named type and function is registered in the graph (g.see) for every declared name on every path (R7.3), and Results puts every node into exactly one of Used/Quiet/Unused (R7.4). An identifier below an unvisited child is never marked used, so an object referenced only there is reported although deleting it breaks the build. " +
			"It does NOT decide the rule list 1.1–12.1 as semantics or interface satisfaction." +
			" Also decided: records found in types.Info.Selections are handed to the function that marks the implicit embedded-field path on every path (method expressions included), and that function marks every field of the path and the selected object.",
		RuleText:    "obligation = (walker, node type, child field); decided on the type-checked AST (field types from go/ast's struct definitions, mentions resolved through types.Info)",
		Assumptions: []string{"go/ast's field types describe where identifiers can occur", "*ast.BasicLit, *ast.CommentGroup and token positions cannot contain identifiers"},
		Run:         runC07,
		Mutants: []Mutant{
			{Name: "method-expression-path-not-marked", File: "unused/unused.go", Rule: "R7.7", KeyPart: "readSelectorExpr::implicit-selection-path-marked",
				Old: "\tg.readSelection(tsel, by)\n}\n", New: "\tif tsel.Kind() != types.MethodExpr {\n\t\tg.readSelection(tsel, by)\n\t}\n}\n"},
			{Name: "embedded-path-fields-not-used", File: "unused/unused.go", Rule: "R7.7", KeyPart: "readSelection::every-embedded-field-on-the-path-used",
				Old: "\t\tg.use(field, by)\n\t\tbase = field.Type()\n", New: "\t\tbase = field.Type()\n"},
			{Name: "embedded-path-exported-fields-skipped", File: "unused/unused.go", Rule: "R7.7", KeyPart: "readSelection::every-embedded-field-on-the-path-used",
				Old: "\t\tg.use(field, by)\n\t\tbase = field.Type()\n", New: "\t\tif !field.Exported() {\n\t\t\tg.use(field, by)\n\t\t}\n\t\tbase = field.Type()\n"},
			{Name: "selected-object-not-used", File: "unused/unused.go", Rule: "R7.7", KeyPart: "readSelection::selected-object-used",
				Old: "\n\tg.use(sel.Obj(), by)\n}\n", New: "\n\tif sel.Kind() == types.FieldVal {\n\t\tg.use(sel.Obj(), by)\n\t}\n}\n"},
			{Name: "embedded-generic-args-dropped", File: "unused/unused.go", Rule: "R7.1", KeyPart: "embeddedField/*ast.IndexListExpr.Indices",
				Old: "\t\t\tnode = node_.X\n\t\t\tfor _, index := range node_.Indices {\n\t\t\t\tnodes = append(nodes, index)\n\t\t\t}\n", New: "\t\t\tnode = node_.X\n"},
			{Name: "local-types-not-in-namedTypes", File: "unused/unused.go", Rule: "R7.5", KeyPart: "every-defined-type-in-namedTypes",
				Old: "\t\t\t\tif !tspec.Assign.IsValid() {\n", New: "\t\t\t\tif !tspec.Assign.IsValid() && isGlobal(obj) {\n"},
			{Name: "single-method-interfaces-not-collected", File: "unused/unused.go", Rule: "R7.5", KeyPart: "every-interface-literal",
				Old: "\t\tif len(node.Methods.List) != 0 {\n\t\t\tg.interfaceTypes", New: "\t\tif len(node.Methods.List) > 1 {\n\t\t\tg.interfaceTypes"},
			{Name: "pointer-method-set-not-processed", File: "unused/unused.go", Rule: "R7.5", KeyPart: "processes-every-named-type",
				Old: "\t\tprocessMethodSet(named, types.NewMethodSet(types.NewPointer(named.Type())))\n", New: ""},
			{Name: "only-generic-free-interfaces-tested", File: "unused/unused.go", Rule: "R7.5", KeyPart: "tests-every-collected-interface",
				Old: "\tfor _, typ := range g.interfaceTypes {\n\t\tallInterfaces[typ] = struct{}{}\n\t}", New: "\tfor _, typ := range g.interfaceTypes {\n\t\tif typ.NumEmbeddeds() == 0 {\n\t\t\tallInterfaces[typ] = struct{}{}\n\t\t}\n\t}"},
			{Name: "shared-initializer-read-for-first-name-only", File: "unused/unused.go", Rule: "R7.6", KeyPart: "uses-its-initializer",
				Old: "\t\t\t\t\t\t\tpanic(g.fset.PositionFor(vspec.Pos(), false))\n\t\t\t\t\t\t}\n\t\t\t\t\t\tg.read(vspec.Values[0], obj)\n", New: "\t\t\t\t\t\t\tpanic(g.fset.PositionFor(vspec.Pos(), false))\n\t\t\t\t\t\t}\n\t\t\t\t\t\tif i == 0 {\n\t\t\t\t\t\t\tg.read(vspec.Values[0], obj)\n\t\t\t\t\t\t}\n"},
			{Name: "const-type-not-read", File: "unused/unused.go", Rule: "R7.6", KeyPart: "uses-its-type",
				Old: "\t\t\t\t\tg.see(obj, by)\n\t\t\t\t\tg.read(vspec.Type, obj)\n\n\t\t\t\t\tif len(vspec.Values) != 0 {", New: "\t\t\t\t\tg.see(obj, by)\n\n\t\t\t\t\tif len(vspec.Values) != 0 {"},
			{Name: "slice-max-not-read", File: "unused/unused.go", Rule: "R7.1", KeyPart: "read/*ast.SliceExpr.Max",
				Old: "\t\tg.read(node.High, by)\n\t\tg.read(node.Max, by)\n", New: "\t\tg.read(node.High, by)\n"},
			{Name: "func-results-not-read", File: "unused/unused.go", Rule: "R7.1", KeyPart: "read/*ast.FuncType.Results",
				Old: "\t\tg.read(node.Results, by)\n\n\tcase *ast.FieldList:", New: "\n\tcase *ast.FieldList:"},
			{Name: "typeassert-type-not-read", File: "unused/unused.go", Rule: "R7.1", KeyPart: "read/*ast.TypeAssertExpr.Type",
				Old: "\tcase *ast.TypeAssertExpr:\n\t\tg.read(node.X, by)\n\t\tg.read(node.Type, by)\n", New: "\tcase *ast.TypeAssertExpr:\n\t\tg.read(node.X, by)\n"},
			{Name: "constants-not-registered", File: "unused/unused.go", Rule: "R7.3", KeyPart: "const",
				Old: "\t\t\t\t\tobj := g.info.ObjectOf(name)\n\t\t\t\t\tg.see(obj, by)\n\t\t\t\t\tg.read(vspec.Type, obj)\n\n\t\t\t\t\tif len(vspec.Values) != 0 {", New: "\t\t\t\t\tobj := g.info.ObjectOf(name)\n\t\t\t\t\tif len(vspec.Values) != 0 {\n\t\t\t\t\t\tg.see(obj, by)\n\t\t\t\t\t}\n\t\t\t\t\tg.read(vspec.Type, obj)\n\n\t\t\t\t\tif len(vspec.Values) != 0 {"},
			{Name: "quiet-nodes-dropped", File: "unused/unused.go", Rule: "R7.4", KeyPart: "Results",
				Old: "\t\t} else if state.quiet() {\n\t\t\tres.Quiet = append(res.Quiet, n.obj)\n\t\t} else {\n\t\t\tres.Unused = append(res.Unused, n.obj)\n\t\t}", New: "\t\t} else if !state.quiet() {\n\t\t\tres.Unused = append(res.Unused, n.obj)\n\t\t}"},
			{Name: "map-key-not-read", File: "unused/unused.go", Rule: "R7.1", KeyPart: "read/*ast.MapType.Key",
				Old: "\tcase *ast.MapType:\n\t\tg.read(node.Key, by)\n\t\tg.read(node.Value, by)\n", New: "\tcase *ast.MapType:\n\t\tg.read(node.Value, by)\n"},
		},
	})
}

// astChildKind classifies a field type of a go/ast node struct: "" = cannot
// contain an identifier, otherwise a description.
func astChildKind(t types.Type) string {
	switch tt := types.Unalias(t).(type) {
	case *types.Slice:
		if k := astChildKind(tt.Elem()); k != "" {
			return "[]" + k
		}
		return ""
	case *types.Pointer:
		n, ok := types.Unalias(tt.Elem()).(*types.Named)
		if !ok || n.Obj().Pkg() == nil || n.Obj().Pkg().Path() != "go/ast" {
			return ""
		}
		switch n.Obj().Name() {
		case "CommentGroup", "Comment", "Object", "Scope", "BasicLit":
			return ""
		}
		if _, ok := n.Underlying().(*types.Struct); ok {
			return "*ast." + n.Obj().Name()
		}
		return ""
	case *types.Named:
		if tt.Obj().Pkg() == nil || tt.Obj().Pkg().Path() != "go/ast" {
			return ""
		}
		if _, ok := tt.Underlying().(*types.Interface); ok {
			switch tt.Obj().Name() {
			case "Expr", "Stmt", "Decl", "Spec", "Node":
				return "ast." + tt.Obj().Name()
			}
		}
	}
	return ""
}

// aliasesOf returns obj together with the local variables inside n that are
// plain copies of it (x := obj, var x = obj, transitively).
func aliasesOf(p *packages.Package, n ast.Node, obj types.Object) map[types.Object]bool {
	set := map[types.Object]bool{obj: true}
	for changed := true; changed; {
		changed = false
		ast.Inspect(n, func(x ast.Node) bool {
			add := func(lhs ast.Expr, rhs ast.Expr) {
				lid, ok := lhs.(*ast.Ident)
				if !ok {
					return
				}
				rid, ok := ast.Unparen(rhs).(*ast.Ident)
				if !ok || !set[p.TypesInfo.ObjectOf(rid)] {
					return
				}
				if lo := p.TypesInfo.ObjectOf(lid); lo != nil && !set[lo] {
					set[lo] = true
					changed = true
				}
			}
			switch x := x.(type) {
			case *ast.AssignStmt:
				if len(x.Lhs) == len(x.Rhs) {
					for i := range x.Lhs {
						add(x.Lhs[i], x.Rhs[i])
					}
				}
			case *ast.ValueSpec:
				if len(x.Names) == len(x.Values) {
					for i := range x.Names {
						add(x.Names[i], x.Values[i])
					}
				}
			}
			return true
		})
	}
	return set
}

// fieldMentions returns the fields of variable obj (or of a plain local copy
// of it) that are selected inside n. If decls is non-nil, handing the variable
// to a function or method declared in the package whose parameter has the
// same type counts as mentioning what the callee mentions (two levels).
func fieldMentions(p *packages.Package, n ast.Node, obj types.Object) map[string]bool {
	return fieldMentionsDeep(p, n, obj, nil, 0)
}

func fieldMentionsDeep(p *packages.Package, n ast.Node, obj types.Object, decls map[*types.Func]*ast.FuncDecl, depth int) map[string]bool {
	out := map[string]bool{}
	al := aliasesOf(p, n, obj)
	ast.Inspect(n, func(x ast.Node) bool {
		switch x := x.(type) {
		case *ast.SelectorExpr:
			if id, ok := ast.Unparen(x.X).(*ast.Ident); ok && al[p.TypesInfo.ObjectOf(id)] {
				out[x.Sel.Name] = true
			}
		case *ast.CallExpr:
			if decls == nil || depth >= 2 {
				return true
			}
			var fobj *types.Func
			switch f := ast.Unparen(x.Fun).(type) {
			case *ast.Ident:
				fobj, _ = p.TypesInfo.Uses[f].(*types.Func)
			case *ast.SelectorExpr:
				fobj, _ = p.TypesInfo.Uses[f.Sel].(*types.Func)
			}
			callee := decls[fobj]
			if fobj == nil || callee == nil || callee.Body == nil {
				return true
			}
			for i, a := range x.Args {
				id, ok := ast.Unparen(a).(*ast.Ident)
				if !ok || !al[p.TypesInfo.ObjectOf(id)] {
					continue
				}
				k := 0
				for _, pf := range callee.Type.Params.List {
					for _, pn := range pf.Names {
						if k == i && types.Identical(p.TypesInfo.TypeOf(pn), obj.Type()) {
							for f := range fieldMentionsDeep(p, callee.Body, p.TypesInfo.ObjectOf(pn), decls, depth+1) {
								out[f] = true
							}
						}
						k++
					}
				}
			}
		}
		return true
	})
	return out
}

func runC07(c *Ctx) {
	p := c.Pkg("unused")
	graphT := c.NamedType("unused", "graph")

	// walkers: methods of graph containing a type switch over a go/ast interface
	type walker struct {
		name string
		fd   *ast.FuncDecl
		sw   *ast.TypeSwitchStmt
	}
	var walkers []walker
	methods := map[string]*ast.FuncDecl{}
	for _, f := range p.Syntax {
		for _, d := range f.Decls {
			fd, ok := d.(*ast.FuncDecl)
			if !ok || fd.Recv == nil || fd.Body == nil {
				continue
			}
			obj, _ := p.TypesInfo.Defs[fd.Name].(*types.Func)
			if obj == nil {
				continue
			}
			recv := obj.Type().(*types.Signature).Recv().Type()
			if ptr, ok := recv.(*types.Pointer); ok {
				recv = ptr.Elem()
			}
			if !types.Identical(recv, graphT) {
				continue
			}
			methods[fd.Name.Name] = fd
			ast.Inspect(fd.Body, func(n ast.Node) bool {
				sw, ok := n.(*ast.TypeSwitchStmt)
				if !ok {
					return true
				}
				var x ast.Expr
				switch a := sw.Assign.(type) {
				case *ast.AssignStmt:
					x = a.Rhs[0].(*ast.TypeAssertExpr).X
				case *ast.ExprStmt:
					x = a.X.(*ast.TypeAssertExpr).X
				}
				t := p.TypesInfo.TypeOf(x)
				if t == nil || astChildKind(t) == "" || !strings.HasPrefix(astChildKind(t), "ast.") {
					return true
				}
				walkers = append(walkers, walker{fd.Name.Name, fd, sw})
				return true
			})
		}
	}

	decls := map[*types.Func]*ast.FuncDecl{}
	for _, f := range p.Syntax {
		for _, d := range f.Decls {
			if fd, ok := d.(*ast.FuncDecl); ok && fd.Body != nil {
				if fobj, _ := p.TypesInfo.Defs[fd.Name].(*types.Func); fobj != nil {
					decls[fobj] = fd
				}
			}
		}
	}

	c.Rule("R7.1", func() {
		c.Floor("R7.1", 80)
		if len(walkers) < 5 {
			c.Undecided("found only %d AST walkers among graph's methods (expected read, write, stmt, decl, embeddedField, …)", len(walkers))
		}
		var names []string
		for _, w := range walkers {
			names = append(names, w.name)
		}
		c.Note("R7.1: walkers found structurally: %v", names)
		pairs, mentioned := 0, 0
		for _, w := range walkers {
			c.SawFunc("unused.(*graph)." + w.name)
			for _, cl := range w.sw.Body.List {
				cc := cl.(*ast.CaseClause)
				if len(cc.List) != 1 {
					continue // default, or several types: the variable keeps the interface type
				}
				t := p.TypesInfo.TypeOf(cc.List[0])
				ptr, ok := t.(*types.Pointer)
				if !ok {
					continue
				}
				named, ok := types.Unalias(ptr.Elem()).(*types.Named)
				if !ok || named.Obj().Pkg() == nil || named.Obj().Pkg().Path() != "go/ast" {
					continue
				}
				st, ok := named.Underlying().(*types.Struct)
				if !ok {
					continue
				}
				// the implicit object of the clause variable
				obj := p.TypesInfo.Implicits[cc]
				if obj == nil {
					continue
				}
				ment := map[string]bool{}
				// fields selected in the clause, through plain copies of the clause variable, or in a
				// function/method of the package that the node is handed to
				for k := range fieldMentionsDeep(p, &ast.BlockStmt{List: cc.Body}, obj, decls, 0) {
					ment[k] = true
				}
				tname := "*ast." + named.Obj().Name()
				for f := range st.Fields() {
					kind := astChildKind(f.Type())
					if kind == "" {
						continue
					}
					pairs++
					key := w.name + "/" + tname + "." + f.Name()
					if why, ok := childExempt[key]; ok {
						c.CheckTrivial(Module+"/unused.(*graph)."+key, cc.Pos(), true, "exempt: %s", why)
						continue
					}
					if ment[f.Name()] {
						mentioned++
					}
					c.Check(Module+"/unused.(*graph)."+key, cc.Pos(), ment[f.Name()],
						"the %s clause of %s never touches %s.%s (%s): identifiers below it are never marked used, so U1000 reports objects referenced only there although deleting them breaks the build", tname, w.name, tname, f.Name(), kind)
				}
			}
		}
		c.Note("R7.1: %d (walker, node type, child field) pairs, %d mentioned, %d exempt", pairs, mentioned, len(childExempt))
	})

	c.Rule("R7.2", func() {
		c.Floor("R7.2", 5)
		sort.Slice(walkers, func(i, j int) bool { return walkers[i].sw.Pos() < walkers[j].sw.Pos() })
		ord := map[string]int{}
		for _, w := range walkers {
			ord[w.name]++
			// the default clause must panic (lint.ExhaustiveTypeSwitch or panic)
			var def *ast.CaseClause
			for _, cl := range w.sw.Body.List {
				if cc := cl.(*ast.CaseClause); cc.List == nil {
					def = cc
				}
			}
			ok := false
			if def != nil {
				for _, s := range def.Body {
					ast.Inspect(s, func(x ast.Node) bool {
						call, isCall := x.(*ast.CallExpr)
						if !isCall {
							return true
						}
						switch f := call.Fun.(type) {
						case *ast.Ident:
							if f.Name == "panic" {
								ok = true
							}
						case *ast.SelectorExpr:
							if f.Sel.Name == "ExhaustiveTypeSwitch" {
								ok = true
							}
						}
						return true
					})
				}
			}
			c.Check(Module+"/unused.(*graph)."+w.name+"::unknown-kinds-panic#"+itoa(ord[w.name]), w.sw.Pos(), ok,
				"a walker must not silently skip a node kind it does not know: its type switch ends in the exhaustiveness panic")
		}
	})

	c.Rule("R7.3", func() {
		c.Floor("R7.3", 4)
		decl := c.Func("unused", "(*graph).decl")
		seeName := Module + "/unused.graph.see"
		tokPkg := c.Pkgs["go/token"].Types
		tokVal := func(name string) int64 {
			k := tokPkg.Scope().Lookup(name).(*types.Const)
			v, _ := constant.Int64Val(k.Val())
			return v
		}
		forms := []struct {
			name  string
			edges map[Edge]bool
			src   func(ssa.Value) bool
		}{
			{"const", EqEdges(decl, func(x, y ssa.Value) bool {
				k, ok := ConstInt(y)
				return ok && k == tokVal("CONST") && DerivesLocal(x, IsFieldOf("ast.GenDecl", "Tok"))
			}), IsFieldOf("ast.ValueSpec", "Names")},
			{"var", EqEdges(decl, func(x, y ssa.Value) bool {
				k, ok := ConstInt(y)
				return ok && k == tokVal("VAR") && DerivesLocal(x, IsFieldOf("ast.GenDecl", "Tok"))
			}), IsFieldOf("ast.ValueSpec", "Names")},
			{"type", EqEdges(decl, func(x, y ssa.Value) bool {
				k, ok := ConstInt(y)
				return ok && k == tokVal("TYPE") && DerivesLocal(x, IsFieldOf("ast.GenDecl", "Tok"))
			}), IsFieldOf("ast.TypeSpec", "Name")},
			{"func", CondEdges(decl, func(cond ssa.Value) (bool, bool) {
				e, ok := cond.(*ssa.Extract)
				if !ok || e.Index != 1 {
					return false, false
				}
				ta, ok := e.Tuple.(*ssa.TypeAssert)
				return ok && strings.HasSuffix(ta.AssertedType.String(), "go/ast.FuncDecl"), true
			}), IsFieldOf("ast.FuncDecl", "Name")},
		}
		// helpers of decl that register one of their parameters: see(ObjectOf(<param>)) on every path
		type helperSum struct{ param int }
		helpers := map[*ssa.Function]helperSum{}
		for _, ci := range Calls(decl, false) {
			h := ci.Common().StaticCallee()
			if h == nil || FuncPkgPath(h) != Module+"/unused" || h == decl || h.Blocks == nil {
				continue
			}
			if _, done := helpers[h]; done {
				continue
			}
			for _, sc := range CallsTo(h, false, seeName) {
				for x := range BackSlice(sc.Common().Args[1], SliceOpts{ThroughCalls: true}) {
					call, ok := x.(*ssa.Call)
					if !ok || !strings.HasSuffix(CalleeName(&call.Call), "types.Info.ObjectOf") {
						continue
					}
					for pi, prm := range h.Params {
						if Derives(call.Call.Args[1], func(v ssa.Value) bool { return v == ssa.Value(prm) }) {
							t, _ := PathAvoiding(h, nil, func(in ssa.Instruction) bool { _, isRet := in.(*ssa.Return); return isRet }, func(in ssa.Instruction) bool { return in == ssa.Instruction(sc) }, nil)
							if t == nil {
								helpers[h] = helperSum{pi}
							}
						}
					}
				}
			}
		}
		for _, f := range forms {
			found := false
			why := "no g.see call on the declared object under this declaration form"
			if len(f.edges) == 0 {
				why = "the declaration form is no longer distinguished in (*graph).decl"
			}
			for _, ci := range Calls(decl, false) {
				h := ci.Common().StaticCallee()
				sum, isHelper := helpers[h]
				if !isHelper || len(f.edges) == 0 {
					continue
				}
				if ok, _ := MustPassEdges(decl, ci, f.edges); !ok {
					continue
				}
				args := ci.Common().Args
				if sum.param >= len(args) || !DerivesLocal(args[sum.param], f.src) {
					continue
				}
				// the helper is called for every declared name: from the load of the name to the next one / the end
				var start ssa.Instruction
				for x := range BackSlice(args[sum.param], SliceOpts{NoMemory: true}) {
					if in, ok := x.(ssa.Instruction); ok && in.Parent() == decl {
						if u, isLoad := x.(*ssa.UnOp); isLoad && (start == nil || InstrDominates(start, in)) {
							start = u
						}
					}
				}
				if start == nil {
					continue
				}
				t, path := PathAvoiding(decl, start, func(in ssa.Instruction) bool {
					if _, ok := in.(*ssa.Return); ok {
						return true
					}
					return in == start
				}, func(in ssa.Instruction) bool { return in == ssa.Instruction(ci) }, nil)
				if t == nil {
					found = true
				} else {
					why = "a path skips the registering helper " + h.Name() + ": " + PathString(decl, path)
				}
			}
			for _, ci := range CallsTo(decl, false, seeName) {
				if ok, _ := MustPassEdges(decl, ci, f.edges); !ok || len(f.edges) == 0 {
					continue
				}
				// the object: ObjectOf(<declared name>)
				var objCall *ssa.Call
				for x := range BackSlice(ci.Common().Args[1], SliceOpts{ThroughCalls: true}) {
					if call, ok := x.(*ssa.Call); ok && strings.HasSuffix(CalleeName(&call.Call), "types.Info.ObjectOf") && DerivesLocal(call.Call.Args[1], f.src) {
						objCall = call
					}
				}
				if objCall == nil {
					continue
				}
				// every path from looking the object up to the next name / the end passes the see call
				t, path := PathAvoiding(decl, objCall, func(in ssa.Instruction) bool {
					if _, ok := in.(*ssa.Return); ok {
						return true
					}
					return in == ssa.Instruction(objCall)
				}, func(in ssa.Instruction) bool { return in == ssa.Instruction(ci) }, nil)
				if t == nil {
					found = true
				} else {
					why = "a path skips g.see: " + PathString(decl, path)
				}
			}
			c.Check(FuncKey(decl)+"::registers-every-declared-"+f.name, decl.Pos(), found, "every declared %s must be registered in the graph (g.see) — an object that is never registered is never reported, however unused it is: %s", f.name, why)
		}
	})

	c.Rule("R7.4", func() {
		c.Floor("R7.4", 1)
		res := c.Func("unused", "(*SerializedGraph).Results")
		var appends []ssa.Instruction
		fields := map[string]bool{}
		// the appends that feed one of the three result lists: directly (append(res.Used, …)) or through a
		// local slice that ends up in the Result's field
		feeds := func(call *ssa.Call, f string) bool {
			if DerivesLocal(call.Call.Args[0], IsFieldOf("unused.Result", f)) {
				return true
			}
			for _, v := range storedToField(res, "unused.Result", f) {
				if Derives(v, func(x ssa.Value) bool { return x == ssa.Value(call) }) {
					return true
				}
			}
			return false
		}
		Instrs(res, false, func(in ssa.Instruction) {
			call, ok := in.(*ssa.Call)
			if !ok || !IsCallTo(call, "builtin.append") {
				return
			}
			for _, f := range []string{"Used", "Unused", "Quiet"} {
				if feeds(call, f) {
					fields[f] = true
					appends = append(appends, call)
				}
			}
		})
		// the per-node state lookup starts an iteration
		var start ssa.Instruction
		Instrs(res, false, func(in ssa.Instruction) {
			if fa, ok := in.(*ssa.FieldAddr); ok && IsFieldOf("unused.Node", "id")(fa) && start == nil {
				start = fa
			}
		})
		if start == nil || len(appends) < 3 {
			c.Undecided("Results no longer classifies nodes by appending to Used/Quiet/Unused")
		}
		isAppend := func(in ssa.Instruction) bool {
			for _, a := range appends {
				if a == in {
					return true
				}
			}
			return false
		}
		t, path := PathAvoiding(res, start, func(in ssa.Instruction) bool {
			if _, ok := in.(*ssa.Return); ok {
				return true
			}
			return in == start
		}, isAppend, nil)
		c.Check(FuncKey(res)+"::every-node-classified", res.Pos(), t == nil && len(fields) == 3, "every node of the graph ends up in exactly one of Used, Quiet or Unused (lists fed: %v); a node that falls through is neither reported nor counted as used; path without classification: %s", SortedKeys(fields), PathString(res, path))
	})
	// R7.5: the deferred work lists. Edges that do not come from identifiers
	// (promoted methods, interface satisfaction: rules 2.1, 6.3, 6.4, 8.2) are
	// added by entry() for every type in g.namedTypes against every interface
	// in g.interfaceTypes; a type or interface missing from its list gets none
	// of them and its embedded fields/methods are reported although deleting
	// them breaks the build.
	c.Rule("R7.5", func() {
		c.Floor("R7.5", 4)
		decl := c.Func("unused", "(*graph).decl")
		read := c.Func("unused", "(*graph).read")
		entry := c.Func("unused", "(*graph).entry")
		appendTo := func(fn *ssa.Function, field string) []ssa.Instruction {
			var out []ssa.Instruction
			Instrs(fn, false, func(in ssa.Instruction) {
				st, ok := in.(*ssa.Store)
				if ok && IsFieldOf("unused.graph", field)(st.Addr) {
					out = append(out, st)
				}
			})
			return out
		}
		isOneOf := func(list []ssa.Instruction) func(ssa.Instruction) bool {
			return func(in ssa.Instruction) bool {
				for _, x := range list {
					if x == in {
						return true
					}
				}
				return false
			}
		}
		// (a) every non-alias type declaration is appended to namedTypes
		{
			stores := appendTo(decl, "namedTypes")
			var objCall *ssa.Call
			for _, ci := range Calls(decl, false) {
				if call, ok := ci.(*ssa.Call); ok && strings.HasSuffix(CalleeName(&call.Call), "types.Info.ObjectOf") && DerivesLocal(call.Call.Args[1], IsFieldOf("ast.TypeSpec", "Name")) {
					if objCall == nil || InstrDominates(call, objCall) {
						objCall = call
					}
				}
			}
			if objCall == nil || len(stores) == 0 {
				c.Undecided("(*graph).decl no longer looks up the declared type name / appends to namedTypes")
			}
			// alias declarations (tspec.Assign.IsValid()) are the one legitimate way around the append
			alias := UnionEdges(
				CallTrueEdges(decl, func(call *ssa.Call) bool {
					return strings.HasSuffix(CalleeName(&call.Call), "token.Pos.IsValid") && DerivesLocal(call.Call.Args[0], IsFieldOf("ast.TypeSpec", "Assign"))
				}),
				// tspec.Assign != token.NoPos, > 0, … spelled as a comparison
				IntCmpConstEdges(decl, func(v ssa.Value) bool { return DerivesLocal(v, IsFieldOf("ast.TypeSpec", "Assign")) }, true, func(lo, hi int64) bool { return lo >= 1 }))
			t, path := PathAvoiding(decl, objCall, func(in ssa.Instruction) bool {
				if _, ok := in.(*ssa.Return); ok {
					return true
				}
				return in == ssa.Instruction(objCall)
			}, isOneOf(stores), alias)
			c.Check(FuncKey(decl)+"::every-defined-type-in-namedTypes", objCall.Pos(), t == nil && len(alias) > 0, "every declared non-alias type (package-level or local) must be appended to g.namedTypes: entry() adds the method-set and interface-satisfaction uses (2.1, 6.3, 6.4, 8.2) only for the types in that list; path around the append: %s", PathString(decl, path))
		}
		// (b) every interface type literal with methods is appended to interfaceTypes
		{
			stores := appendTo(read, "interfaceTypes")
			var start ssa.Instruction
			for _, b := range read.Blocks {
				iff, ok := b.Instrs[len(b.Instrs)-1].(*ssa.If)
				if !ok {
					continue
				}
				e, ok := iff.Cond.(*ssa.Extract)
				if !ok || e.Index != 1 {
					continue
				}
				ta, ok := e.Tuple.(*ssa.TypeAssert)
				if ok && strings.HasSuffix(ta.AssertedType.String(), "go/ast.InterfaceType") {
					start = b.Succs[0].Instrs[0]
				}
			}
			if start == nil || len(stores) == 0 {
				c.Undecided("(*graph).read has no *ast.InterfaceType case / no append to interfaceTypes")
			}
			empty := LenZeroEdges(read, func(v ssa.Value) bool { return DerivesLocal(v, IsFieldOf("ast.FieldList", "List")) })
			t, path := PathAvoiding(read, start, func(in ssa.Instruction) bool {
				_, ok := in.(*ssa.Return)
				return ok
			}, isOneOf(stores), empty)
			if isOneOf(stores)(start) {
				t = nil
			}
			c.Check(FuncKey(read)+"::every-interface-literal-in-interfaceTypes", start.Pos(), t == nil, "every interface type with methods must be appended to g.interfaceTypes (only the empty interface may be skipped): types are tested for implementing exactly the interfaces in that list (8.2, 6.3); path around the append: %s", PathString(read, path))
		}
		// (c) entry() processes every element of namedTypes, for T and *T
		{
			var loopLoads []ssa.Instruction
			Instrs(entry, false, func(in ssa.Instruction) {
				u, ok := in.(*ssa.UnOp)
				if !ok || u.Op != token.MUL {
					return
				}
				ia, ok := u.X.(*ssa.IndexAddr)
				if ok && DerivesLocal(ia.X, IsFieldOf("unused.graph", "namedTypes")) {
					loopLoads = append(loopLoads, u)
				}
			})
			if len(loopLoads) != 1 {
				c.Undecided("entry() should have exactly one loop over g.namedTypes (found %d element loads)", len(loopLoads))
			}
			elem := loopLoads[0].(*ssa.UnOp)
			var ms []*ssa.Call // calls that receive a method set of the element
			ptr, val := false, false
			isNewPtr := func(v ssa.Value) bool {
				call, ok := v.(*ssa.Call)
				return ok && CalleeName(&call.Call) == "go/types.NewPointer"
			}
			for _, ci := range Calls(entry, false) {
				call, ok := ci.(*ssa.Call)
				if !ok || call.Block() != elem.Block() && !elem.Block().Dominates(call.Block()) {
					continue
				}
				if callee := call.Call.StaticCallee(); callee != nil && !FuncInModule(callee) {
					continue // only the package's own processing (a closure, a function or a method)
				}
				if call.Call.IsInvoke() {
					continue
				}
				all := CallArgs(&call.Call)
				fromElem := false
				for _, a := range all {
					if Derives(a, func(v ssa.Value) bool { return v == ssa.Value(elem) }) {
						fromElem = true
					}
				}
				if !fromElem {
					continue
				}
				for _, a := range all {
					for x := range BackSlice(a, SliceOpts{}) {
						nm, ok := x.(*ssa.Call)
						if !ok || CalleeName(&nm.Call) != "go/types.NewMethodSet" {
							continue
						}
						// what the method set is taken of: T (a Type() not below NewPointer) and/or *T
						for y := range BackSlice(nm.Call.Args[0], SliceOpts{Stop: isNewPtr}) {
							if isNewPtr(y) {
								ptr = true
							} else if yc, ok := y.(*ssa.Call); ok && strings.HasSuffix(CalleeName(&yc.Call), ".Type") {
								val = true
							}
						}
						ms = append(ms, call)
					}
				}
			}
			var asInstr []ssa.Instruction
			for _, m := range ms {
				asInstr = append(asInstr, m)
			}
			ok := len(ms) >= 1 && ptr && val
			why := ""
			if ok {
				// both calls on every path through the loop body
				for _, m := range ms {
					t, path := PathAvoiding(entry, elem, func(in ssa.Instruction) bool {
						if _, isRet := in.(*ssa.Return); isRet {
							return true
						}
						return in == ssa.Instruction(elem)
					}, func(in ssa.Instruction) bool { return in == ssa.Instruction(m) }, nil)
					if t != nil {
						ok = false
						why = "a path through the loop body skips the method-set processing: " + PathString(entry, path)
					}
				}
			} else {
				why = "the loop body must hand the method sets of both T and *T to the method-set processing"
			}
			c.Check(FuncKey(entry)+"::processes-every-named-type", elem.Pos(), ok, "entry() must process the method sets of T and *T for every element of g.namedTypes on every path: %s", why)
		}
		// (d) processMethodSet tests every collected interface: the set it ranges over receives every element of g.interfaceTypes
		{
			var elem *ssa.UnOp
			Instrs(entry, false, func(in ssa.Instruction) {
				u, ok := in.(*ssa.UnOp)
				if !ok || u.Op != token.MUL {
					return
				}
				if ia, ok := u.X.(*ssa.IndexAddr); ok && DerivesLocal(ia.X, IsFieldOf("unused.graph", "interfaceTypes")) {
					elem = u
				}
			})
			if elem == nil {
				c.Undecided("entry() no longer ranges over g.interfaceTypes")
			}
			var updates []ssa.Instruction
			Instrs(entry, false, func(in ssa.Instruction) {
				if mu, ok := in.(*ssa.MapUpdate); ok && Derives(mu.Key, func(v ssa.Value) bool { return v == ssa.Value(elem) }) {
					updates = append(updates, mu)
				}
			})
			t, path := PathAvoiding(entry, elem, func(in ssa.Instruction) bool {
				if _, isRet := in.(*ssa.Return); isRet {
					return true
				}
				return in == ssa.Instruction(elem)
			}, isOneOf(updates), nil)
			c.Check(FuncKey(entry)+"::tests-every-collected-interface", elem.Pos(), len(updates) > 0 && t == nil, "every element of g.interfaceTypes must be put (unconditionally) into the set of interfaces that named types are tested against; path: %s", PathString(entry, path))
		}
	})
	// R7.6: every declared constant and variable is recorded as the user of its
	// type and of its initializer, for every name of the spec (only a spec
	// without values may skip the initializer). `var a, b = f()` has one
	// initializer for several names: each name uses it, otherwise what f
	// mentions is reported as soon as the first name happens to be unreferenced.
	c.Rule("R7.6", func() {
		c.Floor("R7.6", 4)
		declFn := c.Func("unused", "(*graph).decl")
		readName := Module + "/unused.graph.read"
		n := 0
		// the per-name work may live in decl itself or in a helper that decl hands the name to
		type scope struct {
			fn     *ssa.Function
			isName func(ssa.Value) bool
		}
		scopes := []scope{{declFn, func(v ssa.Value) bool { return DerivesLocal(v, IsFieldOf("ast.ValueSpec", "Names")) }}}
		for _, ci := range Calls(declFn, false) {
			h := ci.Common().StaticCallee()
			if h == nil || FuncPkgPath(h) != Module+"/unused" || h == declFn || h.Blocks == nil {
				continue
			}
			for ai, a := range ci.Common().Args {
				if ai < len(h.Params) && DerivesLocal(a, IsFieldOf("ast.ValueSpec", "Names")) {
					prm := h.Params[ai]
					dup := false
					for _, sc := range scopes {
						if sc.fn == h {
							dup = true
						}
					}
					if !dup {
						scopes = append(scopes, scope{h, func(v ssa.Value) bool {
							return Derives(v, func(x ssa.Value) bool { return x == ssa.Value(prm) })
						}})
					}
				}
			}
		}
		for _, sc := range scopes {
			decl := sc.fn
			noValues := LenZeroEdges(decl, func(v ssa.Value) bool { return DerivesLocal(v, IsFieldOf("ast.ValueSpec", "Values")) })
			for _, ci := range Calls(decl, false) {
				objCall, ok := ci.(*ssa.Call)
				if !ok || !strings.HasSuffix(CalleeName(&objCall.Call), "types.Info.ObjectOf") || !sc.isName(objCall.Call.Args[1]) {
					continue
				}
				// only the per-name loops that register the object (not the constant-group ring)
				registers := false
				for _, sc := range CallsTo(decl, false, Module+"/unused.graph.see") {
					if Derives(sc.Common().Args[1], func(v ssa.Value) bool { return v == ssa.Value(objCall) }) {
						registers = true
					}
				}
				if !registers {
					continue
				}
				reads := func(field string) []ssa.Instruction {
					var out []ssa.Instruction
					for _, rc := range CallsTo(decl, false, readName) {
						args := rc.Common().Args
						if len(args) == 3 && DerivesLocal(args[1], IsFieldOf("ast.ValueSpec", field)) && Derives(args[2], func(v ssa.Value) bool { return v == ssa.Value(objCall) }) {
							out = append(out, rc)
						}
					}
					return out
				}
				isOneOf := func(list []ssa.Instruction) func(ssa.Instruction) bool {
					return func(in ssa.Instruction) bool {
						for _, x := range list {
							if x == in {
								return true
							}
						}
						return false
					}
				}
				end := func(in ssa.Instruction) bool {
					if _, ok := in.(*ssa.Return); ok {
						return true
					}
					return in == ssa.Instruction(objCall)
				}
				kind := "const-or-var#" + itoa(n)
				n++
				tr := reads("Type")
				t1, p1 := PathAvoiding(decl, objCall, end, isOneOf(tr), nil)
				c.Check(FuncKey(declFn)+"::"+kind+"::uses-its-type", objCall.Pos(), len(tr) > 0 && t1 == nil, "every declared name is the user of the spec's type expression; path without g.read(vspec.Type, obj): %s", PathString(decl, p1))
				vr := reads("Values")
				t2, p2 := PathAvoiding(decl, objCall, end, isOneOf(vr), noValues)
				c.Check(FuncKey(declFn)+"::"+kind+"::uses-its-initializer", objCall.Pos(), len(vr) > 0 && t2 == nil && len(noValues) > 0, "every declared name is the user of its initializer (for `var a, b = f()` each of a and b uses f()); only a spec without values may skip it; path without g.read(vspec.Values[…], obj): %s", PathString(decl, p2))
			}
		}
		if n < 2 {
			c.Undecided("found %d per-name loops over ValueSpec.Names in (*graph).decl, expected the const and the var case", n)
		}
	})
	// R7.7: implicit uses recorded by the type checker are consumed. A selector
	// x.f / T.m that reaches f or m through embedded fields uses every field
	// on that path although none of them is written in the source; go/types
	// records the path in Info.Selections. Whenever the walker finds such a
	// record it must hand it to the function that marks the path (on every
	// path — no kind of selection may be skipped: a method expression T.m
	// exists only because of the embedded fields it is promoted through), and
	// that function must mark every field of the path and the selected object.
	c.Rule("R7.7", func() {
		c.Floor("R7.7", 3)
		useName := Module + "/unused.graph.use"
		var ufuncs []*ssa.Function
		for _, fn := range c.ModuleFuncs() {
			if FuncPkgPath(fn) == Module+"/unused" && len(fn.Blocks) > 0 {
				ufuncs = append(ufuncs, fn)
			}
		}
		isRet := func(in ssa.Instruction) bool { _, ok := in.(*ssa.Return); return ok }
		// functions that mark a selection: they receive a *types.Selection and call g.use
		marksSel := map[*ssa.Function]int{} // function -> index of the selection parameter
		for _, fn := range ufuncs {
			for i, prm := range fn.Params {
				if strings.HasSuffix(prm.Type().String(), "go/types.Selection") && len(CallsTo(fn, false, useName)) > 0 {
					marksSel[fn] = i
				}
			}
		}
		if len(marksSel) == 0 {
			c.Undecided("no function of package unused receives a *types.Selection and calls (*graph).use")
		}
		nLookups := 0
		for _, fn := range ufuncs {
			Instrs(fn, false, func(in ssa.Instruction) {
				lk, ok := in.(*ssa.Lookup)
				if !ok || !DerivesLocal(lk.X, IsFieldOf("types.Info", "Selections")) {
					return
				}
				nLookups++
				// the record found, and the edges on which nothing was found
				var val ssa.Value = lk
				miss := map[Edge]bool{}
				if lk.CommaOk {
					val = nil
					if refs := lk.Referrers(); refs != nil {
						for _, r := range *refs {
							if ex, ok := r.(*ssa.Extract); ok && ex.Index == 0 {
								val = ex
							}
						}
					}
					miss = ComplementEdges(CondEdges(fn, func(cond ssa.Value) (bool, bool) {
						ex, ok := cond.(*ssa.Extract)
						return ok && ex.Tuple == ssa.Value(lk) && ex.Index == 1, true
					}))
				} else {
					miss = EqEdges(fn, func(x, y ssa.Value) bool { return x == ssa.Value(lk) && IsNilConst(y) })
				}
				isMark := func(x ssa.Instruction) bool {
					ci, ok := x.(ssa.CallInstruction)
					if !ok || val == nil {
						return false
					}
					callee := ci.Common().StaticCallee()
					idx, marks := marksSel[callee]
					if !marks {
						return false
					}
					args := ci.Common().Args
					return idx < len(args) && Derives(args[idx], func(v ssa.Value) bool { return v == val })
				}
				t, path := PathAvoiding(fn, lk, isRet, isMark, miss)
				c.Check(FuncKey(fn)+"::implicit-selection-path-marked#"+itoa(nLookups), lk.Pos(), val != nil && t == nil,
					"a record found in Info.Selections must be handed to the function that marks the embedded-field path and the selected object on every path (only 'no record' may skip it): x.f, x.m and T.m alike exist only through the embedded fields on the path; path without marking: %s", PathString(fn, path))
			})
		}
		if nLookups == 0 {
			c.Undecided("package unused no longer consults Info.Selections")
		}
		for _, fn := range SortedFuncs(marksSel) {
			prm := fn.Params[marksSel[fn]]
			fromSel := func(method string) func(ssa.Value) bool {
				return func(v ssa.Value) bool {
					call, ok := v.(*ssa.Call)
					return ok && strings.HasSuffix(CalleeName(&call.Call), "go/types.Selection."+method) && len(call.Call.Args) > 0 && call.Call.Args[0] == ssa.Value(prm)
				}
			}
			// the selected object is used on every path
			var objUses, fieldUses []ssa.Instruction
			for _, ci := range CallsTo(fn, false, useName) {
				args := ci.Common().Args
				if len(args) < 2 {
					continue
				}
				if Derives(args[1], fromSel("Obj")) {
					objUses = append(objUses, ci)
				}
				if Derives(args[1], func(v ssa.Value) bool {
					call, ok := v.(*ssa.Call)
					return ok && strings.HasSuffix(CalleeName(&call.Call), "go/types.Struct.Field")
				}) {
					fieldUses = append(fieldUses, ci)
				}
			}
			isOneOf := func(list []ssa.Instruction) func(ssa.Instruction) bool {
				return func(in ssa.Instruction) bool {
					for _, x := range list {
						if x == in {
							return true
						}
					}
					return false
				}
			}
			t, path := PathAvoiding(fn, nil, isRet, isOneOf(objUses), nil)
			c.Check(FuncKey(fn)+"::selected-object-used", fn.Pos(), len(objUses) > 0 && t == nil, "the selected field or method (sel.Obj()) is marked used on every path; path without: %s", PathString(fn, path))
			// every step of the index path is used: from the load of a path element, every way back to the loop head or out passes g.use(field)
			var elems []*ssa.UnOp
			Instrs(fn, false, func(in ssa.Instruction) {
				u, ok := in.(*ssa.UnOp)
				if !ok || u.Op != token.MUL {
					return
				}
				if ia, ok := u.X.(*ssa.IndexAddr); ok && Derives(ia.X, fromSel("Index")) {
					elems = append(elems, u)
				}
			})
			okSteps := len(elems) > 0 && len(fieldUses) > 0
			why := "no loop over sel.Index() that marks the fields"
			for _, e := range elems {
				t, path := PathAvoiding(fn, e, func(in ssa.Instruction) bool { return isRet(in) || in == ssa.Instruction(e) }, isOneOf(fieldUses), nil)
				if t != nil {
					okSteps = false
					why = "a step of the path is not marked: " + PathString(fn, path)
				}
			}
			// all steps but the last: the list that is iterated is sel.Index() cut by one at the end (or a loop bound len-1)
			c.Check(FuncKey(fn)+"::every-embedded-field-on-the-path-used", fn.Pos(), okSteps, "every embedded field on the implicit path (sel.Index() without its last element) is marked used: %s", why)
		}
	})
}

// SortedFuncs returns the keys of m ordered by name.
func SortedFuncs[V any](m map[*ssa.Function]V) []*ssa.Function {
	var out []*ssa.Function
	for fn := range m {
		out = append(out, fn)
	}
	sort.Slice(out, func(i, j int) bool { return out[i].String() < out[j].String() })
	return out
}
