package props

import (
	"go/token"
	"go/types"
	"sort"
	"strings"

	"golang.org/x/tools/go/ssa"

	. "verif/checker/engine"
)

func init() {
	Register(&Property{
		ID:       "C01",
		Patterns: []string{"./go/ir"},
		NeedSSA:  true,
		Explanation: "Translation correctness over programs × inputs is NOT decided (it would need translation validation). Decided are two structural clauses that are necessary for the register-lifted form to equal the naive form: (R1.1, shared with C02) lifting rewrites uses through Instruction.Operands, so every operand-holding field of every instruction type must be yielded by Operands — a field it misses keeps pointing at a deleted Load/Alloc; " +
			"(R1.2) lifting's classification of the uses of a cell is conservative: the only kinds of user that do not make the cell (partially) unliftable are Load, DebugRef and a Store *into* the cell (Store.Val != alloc), every other kind — including kinds added later — falls into the default that marks it unliftable; (R1.3) renaming deletes only the cell itself (index >= 0), Stores whose address is such a cell and Loads/DebugRefs whose operand is one." +
			" Also decided: the 'location is already zero' flag that lets assign/compLit skip the clearing store of an empty or sparse composite literal is false, forwarded, or set next to the allocation of its target (a short variable declaration can re-declare existing variables)." +
			" The block optimisations give up, before any edit, once hasPhi() answered true for the block concerned (threading into or fusing a φ-block changes which value the φ selects).",
		RuleText:    "type-switch case analysis with path-sensitive evaluation of the flag phi; guard-edge rules for every deletion in rename",
		Assumptions: []string{"Alloc.index >= 0 marks exactly the cells chosen for lifting in this round"},
		Run:         runC01,
		Mutants: []Mutant{
			{Name: "jump-threading-into-phi-block", File: "go/ir/blockopt.go", Rule: "R1.6", KeyPart: "jumpThreading::no-edit-once-a-phi-was-seen",
				Old: "\tif c.hasPhi() {\n\t\treturn false // not sound without more effort\n\t}\n", New: "\tif c.hasPhi() && len(b.Preds) != 1 {\n\t\treturn false // not sound without more effort\n\t}\n"},
			{Name: "zero-skip-flag-from-isDef", File: "go/ir/builder.go", Rule: "R1.5", KeyPart: "assignStmt::",
				Old: "\t\t\tb.assign(fn, lvals[i], rhss[i], isZero[i], &sb, source)\n", New: "\t\t\tb.assign(fn, lvals[i], rhss[i], isZero[i] || isDef, &sb, source)\n"},
			{Name: "zero-skip-flag-set-for-every-defined-name", File: "go/ir/builder.go", Rule: "R1.5", KeyPart: "assignStmt::",
				Old: "\t\t\t\t\temitLocalVar(fn, obj, lhs)\n\t\t\t\t\tisZero[i] = true\n\t\t\t\t}\n", New: "\t\t\t\t\temitLocalVar(fn, obj, lhs)\n\t\t\t\t}\n\t\t\t\tisZero[i] = true\n"},
			{Name: "zero-skip-flag-true-in-op-assign", File: "go/ir/builder.go", Rule: "R1.5", KeyPart: "zero-skip-flag",
				Old: "\t\t\tb.assign(fn, lvals[i], rhss[i], isZero[i], &sb, source)\n", New: "\t\t\tb.assign(fn, lvals[i], rhss[i], true, &sb, source)\n"},
			{Name: "closure-stops-at-marked-blocks", File: "go/ir/lift.go", Rule: "R1.4", KeyPart: "cut-only-at-visited-blocks",
				Old: "\t\tif seen[b.Index] {\n\t\t\treturn\n\t\t}\n\t\tseen[b.Index] = true\n\t\tdesc := &blocks[b.Index]\n", New: "\t\tdesc := &blocks[b.Index]\n\t\tif desc.isUnliftable {\n\t\t\treturn\n\t\t}\n\t\tseen[b.Index] = true\n"},
			{Name: "closure-skips-last-successor", File: "go/ir/lift.go", Rule: "R1.4", KeyPart: "every-successor-visited",
				Old: "\t\tdesc.storeInPreds = true\n\t\tfor _, succ := range b.Succs {\n\t\t\tdfs(succ)\n\t\t}\n", New: "\t\tdesc.storeInPreds = true\n\t\tfor i, succ := range b.Succs {\n\t\t\tif i > 0 && succ == b {\n\t\t\t\tcontinue\n\t\t\t}\n\t\t\tdfs(succ)\n\t\t}\n"},
			{Name: "fieldaddr-treated-as-liftable", File: "go/ir/lift.go", Rule: "R1.2", KeyPart: "liftable",
				Old: "\t\tcase *Load:\n\t\tcase *DebugRef:\n\t\tcase *Phi:\n\t\t\tinHead = true\n\t\t\thasUnliftable = true\n", New: "\t\tcase *Load:\n\t\tcase *DebugRef:\n\t\tcase *FieldAddr:\n\t\tcase *Phi:\n\t\t\tinHead = true\n\t\t\thasUnliftable = true\n"},
			{Name: "store-of-address-is-liftable", File: "go/ir/lift.go", Rule: "R1.2", KeyPart: "liftable",
				Old: "\t\tcase *Store:\n\t\t\tif instr.Val == alloc {\n\t\t\t\thasUnliftable = true\n\t\t\t}\n\t\tcase *Load:\n\t\tcase *DebugRef:\n\t\tcase *Phi:", New: "\t\tcase *Store:\n\t\t\t_ = instr\n\t\tcase *Load:\n\t\tcase *DebugRef:\n\t\tcase *Phi:"},
			{Name: "default-is-liftable", File: "go/ir/lift.go", Rule: "R1.2", KeyPart: "liftable",
				Old: "\t\t\tinHead = true\n\t\t\thasUnliftable = true\n\t\tdefault:\n\t\t\thasUnliftable = true\n\t\t}\n", New: "\t\t\tinHead = true\n\t\t\thasUnliftable = true\n\t\tdefault:\n\t\t}\n"},
			{Name: "rename-deletes-any-store-to-alloc", File: "go/ir/lift.go", Rule: "R1.3", KeyPart: "rename",
				Old: "\t\t\tif alloc, ok := instr.Addr.(*Alloc); ok && alloc.index >= 0 { // store to Alloc cell", New: "\t\t\tif alloc, ok := instr.Addr.(*Alloc); ok && alloc.index >= -1 { // store to Alloc cell"},
			{Name: "operands-misses-field", File: "go/ir/ssa.go", Rule: "R1.1", KeyPart: "Store",
				Old: "func (s *Store) Operands(rands []*Value) []*Value {\n\treturn append(rands, &s.Addr, &s.Val)\n}", New: "func (s *Store) Operands(rands []*Value) []*Value {\n\treturn append(rands, &s.Addr)\n}"},
		},
	})
}

func runC01(c *Ctx) {
	valueIface := c.NamedType("go/ir", "Value").Underlying().(*types.Interface)
	instrIface := c.NamedType("go/ir", "Instruction").Underlying().(*types.Interface)
	p := c.Pkg("go/ir")

	c.Rule("R1.1", func() {
		c.Floor("R1.1", 45)
		sc := p.Types.Scope()
		n := 0
		for _, name := range sc.Names() {
			tn, ok := sc.Lookup(name).(*types.TypeName)
			if !ok || tn.IsAlias() {
				continue
			}
			st, ok := tn.Type().Underlying().(*types.Struct)
			if !ok || !types.Implements(types.NewPointer(tn.Type()), instrIface) {
				continue
			}
			fn := c.FuncOpt("go/ir", "(*"+name+").Operands")
			if fn == nil || len(fn.Blocks) == 0 {
				continue
			}
			n++
			want := map[string]bool{}
			for f := range st.Fields() {
				if !f.Embedded() && containsValue(f.Type(), valueIface, map[types.Type]bool{}) {
					want[f.Name()] = true
				}
			}
			got := map[string]bool{}
			recv := fn.Params[0]
			note := func(v ssa.Value) {
				for x := range BackSlice(v, SliceOpts{NoMemory: true}) {
					if fa, ok := x.(*ssa.FieldAddr); ok && fa.X == ssa.Value(recv) {
						if _, f := FieldOf(fa.X.Type(), fa.Field); f != nil {
							got[f.Name()] = true
						}
					}
				}
			}
			Instrs(fn, false, func(in ssa.Instruction) {
				switch x := in.(type) {
				case *ssa.Store:
					if strings.HasSuffix(x.Val.Type().String(), "*honnef.co/go/tools/go/ir.Value") {
						note(x.Val)
					}
				case *ssa.Call:
					if callee := x.Call.StaticCallee(); callee != nil && callee.Name() == "Operands" && len(x.Call.Args) > 0 {
						note(x.Call.Args[0])
					}
				}
			})
			var missing []string
			for f := range want {
				if !got[f] {
					missing = append(missing, f)
				}
			}
			sort.Strings(missing)
			c.Check(irPkg+"."+name+"::operands-visible-to-lifting", fn.Pos(), len(missing) == 0, "lifting renames uses through Operands; field(s) %v of %s hold operands but are not yielded, so they would keep referring to a Load/Alloc that lifting deletes", missing, name)
		}
		if n < 45 {
			c.Undecided("found only %d instruction types", n)
		}
	})

	lf := c.Func("go/ir", "liftable")

	c.Rule("R1.2", func() {
		c.Floor("R1.2", 3)
		// the flag: a bool phi whose true edge leads to the store blockDesc.isUnliftable = true
		var flag *ssa.Phi
		for _, b := range lf.Blocks {
			iff, ok := b.Instrs[len(b.Instrs)-1].(*ssa.If)
			if !ok {
				continue
			}
			phi, ok := iff.Cond.(*ssa.Phi)
			if !ok {
				continue
			}
			// does the true successor set isUnliftable?
			sets := false
			for _, in := range b.Succs[0].Instrs {
				if st, ok := in.(*ssa.Store); ok {
					if fa, ok := st.Addr.(*ssa.FieldAddr); ok {
						if _, f := FieldOf(fa.X.Type(), fa.Field); f != nil && f.Name() == "isUnliftable" {
							sets = true
						}
					}
				}
			}
			if sets {
				flag = phi
			}
		}
		if flag == nil {
			c.Undecided("liftable: the flag that marks a use as unliftable was not found (a bool φ whose true branch sets blockDesc.isUnliftable)")
		}
		// the type switch cases over the referrer
		caseEdges := map[string]map[Edge]bool{}
		for _, b := range lf.Blocks {
			iff, ok := b.Instrs[len(b.Instrs)-1].(*ssa.If)
			if !ok {
				continue
			}
			e, ok := iff.Cond.(*ssa.Extract)
			if !ok || e.Index != 1 {
				continue
			}
			ta, ok := e.Tuple.(*ssa.TypeAssert)
			if !ok || !DerivesLocal(ta.X, IsFieldOf("ir.node", "referrers")) && !DerivesLocal(ta.X, IsFieldOf("ir.register", "referrers")) && !DerivesLocal(ta.X, func(v ssa.Value) bool {
				fa, ok := v.(*ssa.FieldAddr)
				if !ok {
					return false
				}
				_, f := FieldOf(fa.X.Type(), fa.Field)
				return f != nil && f.Name() == "referrers"
			}) {
				continue
			}
			domPred := false
			for _, pr := range flag.Block().Preds {
				if b.Dominates(pr) {
					domPred = true
				}
			}
			if !domPred {
				continue
			}
			name := ta.AssertedType.String()
			name = name[strings.LastIndex(name, ".")+1:]
			if caseEdges[name] == nil {
				caseEdges[name] = map[Edge]bool{}
			}
			caseEdges[name][Edge{Block: b.Index, Succ: 0}] = true
		}
		allowed := map[string]bool{"Load": true, "DebugRef": true, "Store": true}
		storeIntoCell := ComplementEdges(EqEdges(lf, func(x, y ssa.Value) bool {
			isCell := DerivesLocal(y, func(v ssa.Value) bool {
				p, ok := v.(*ssa.Parameter)
				return ok && strings.HasSuffix(p.Type().String(), "go/ir.Alloc")
			})
			return isCell && DerivesLocal(x, IsFieldOf("ir.Store", "Val"))
		}))
		// every false input of the flag must come through an allowed case
		nFalse := 0
		for i, e := range flag.Edges {
			if !isBoolConst(e, false) {
				if !isBoolConst(e, true) {
					c.Check(FuncKey(lf)+"::unliftable-flag::constant-inputs", flag.Pos(), false, "the flag is computed, not set by cases")
				}
				continue
			}
			nFalse++
			pred := flag.Block().Preds[i]
			last := pred.Instrs[len(pred.Instrs)-1]
			through := ""
			for name, edges := range caseEdges {
				if ok, _ := MustPassEdges(lf, last, edges); ok {
					through = name
				}
			}
			ok := allowed[through]
			why := ""
			if through == "" {
				why = "reached without matching a case of the known kinds (e.g. a new case, or the default clause)"
			} else if !ok {
				why = "a *" + through + " user is treated as liftable"
			}
			if through == "Store" {
				ok2, _ := MustPassEdges(lf, last, storeIntoCell)
				// the input may arrive over the deciding edge itself
				for si, succ := range pred.Succs {
					if succ == flag.Block() && storeIntoCell[Edge{Block: pred.Index, Succ: si}] && len(pred.Succs) == 2 && pred.Succs[0] != pred.Succs[1] {
						ok2 = true
					}
				}
				if !ok2 || len(storeIntoCell) == 0 {
					ok, why = false, "a Store whose VALUE is the cell's address (the address escapes into memory) is treated as liftable; only stores INTO the cell are"
				}
			}
			c.Check(FuncKey(lf)+"::liftable-users::"+through+"#"+itoa(i), last.Pos(), ok, "the uses of a cell that keep it liftable are exactly Load, DebugRef and Store into the cell; any other user reads or passes on the cell's address, and promoting the cell to a register would silently drop that user's effect: %s", why)
		}
		if nFalse == 0 {
			c.Undecided("the unliftable flag has no 'liftable' (false) input")
		}
		c.Note("R1.2: type-switch cases over the cell's referrers: %v", SortedKeys(caseEdges))
	})

	c.Rule("R1.3", func() {
		c.Floor("R1.3", 4)
		rn := c.Func("go/ir", "rename")
		idx := CmpEdges(rn, func(x, y ssa.Value) bool {
			k, ok := ConstInt(y)
			return ok && k == 0 && DerivesLocal(x, IsFieldOf("ir.Alloc", "index"))
		}, func(rel string, truth bool) bool { return (rel == ">=" && truth) || (rel == "<" && !truth) })
		n := 0
		Instrs(rn, false, func(in ssa.Instruction) {
			st, ok := in.(*ssa.Store)
			if !ok || !IsNilConst(st.Val) {
				return
			}
			ia, ok := st.Addr.(*ssa.IndexAddr)
			if !ok || !AddrFrom(ia.X, IsFieldOf("ir.BasicBlock", "Instrs")) {
				return
			}
			n++
			// which case?
			kind := ""
			var caseVal ssa.Value
			for _, b := range rn.Blocks {
				iff, ok := b.Instrs[len(b.Instrs)-1].(*ssa.If)
				if !ok {
					continue
				}
				e, ok := iff.Cond.(*ssa.Extract)
				if !ok || e.Index != 1 {
					continue
				}
				ta, ok := e.Tuple.(*ssa.TypeAssert)
				if !ok || !DerivesLocal(ta.X, IsFieldOf("ir.BasicBlock", "Instrs")) {
					continue
				}
				isOperand := DerivesLocal(ta.X, func(z ssa.Value) bool {
					fa, ok := z.(*ssa.FieldAddr)
					if !ok {
						return false
					}
					owner, _ := FieldOf(fa.X.Type(), fa.Field)
					return strings.HasPrefix(owner, irPkg+".") && !strings.HasSuffix(owner, "ir.BasicBlock")
				})
				if isOperand {
					continue
				}
				if ok, _ := MustPassEdges(rn, st, map[Edge]bool{{Block: b.Index, Succ: 0}: true}); ok {
					s := ta.AssertedType.String()
					kind = s[strings.LastIndex(s, ".")+1:]
					for _, r := range *ta.Referrers() {
						if ex, ok := r.(*ssa.Extract); ok && ex.Index == 0 {
							caseVal = ex
						}
					}
				}
			}
			key := FuncKey(rn) + "::deletes-" + kind
			okIdx, p1 := MustPassEdges(rn, st, idx)
			switch kind {
			case "Alloc":
				c.Check(key, st.Pos(), okIdx && len(idx) > 0, "an Alloc is deleted only if it was chosen for lifting (index >= 0); path: %s", PathString(rn, p1))
			case "Store", "Load", "DebugRef":
				field := map[string]string{"Store": "Addr", "Load": "X", "DebugRef": "X"}[kind]
				isCell := CondEdges(rn, func(cond ssa.Value) (bool, bool) {
					e, ok := cond.(*ssa.Extract)
					if !ok || e.Index != 1 {
						return false, false
					}
					ta, ok := e.Tuple.(*ssa.TypeAssert)
					if !ok || !strings.HasSuffix(ta.AssertedType.String(), "go/ir.Alloc") {
						return false, false
					}
					return DerivesLocal(ta.X, func(z ssa.Value) bool {
						fa, ok := z.(*ssa.FieldAddr)
						if !ok || fa.X != caseVal {
							return false
						}
						_, f := FieldOf(fa.X.Type(), fa.Field)
						return f != nil && f.Name() == field
					}), true
				})
				okCell, p2 := MustPassEdges(rn, st, isCell)
				c.Check(key, st.Pos(), okIdx && okCell && len(isCell) > 0, "a %s is deleted only if its %s is a cell chosen for lifting (an *Alloc with index >= 0); otherwise a real memory access disappears; paths: %s / %s", kind, field, PathString(rn, p1), PathString(rn, p2))
			default:
				c.Check(FuncKey(rn)+"::deletes-unknown#"+itoa(n), st.Pos(), false, "rename deletes an instruction outside the Alloc/Store/Load/DebugRef cases")
			}
		})
		if n < 4 {
			c.Undecided("rename has only %d deletion sites (expected Alloc, Store, Load, DebugRef)", n)
		}
	})
	// R1.4: the "everything reachable from an escaping use is unliftable"
	// closure in liftable. The traversal may cut a path short only at blocks it
	// has itself visited before: its early-return guard has to read state that
	// nothing but the traversal writes. A guard on the block's unliftable mark
	// (which the preceding pass also sets for blocks with an escaping use of
	// their own) stops at exactly those blocks and leaves their successors —
	// e.g. the loop body on the next iteration — partially lifted.
	c.Rule("R1.4", func() {
		c.Floor("R1.4", 3)
		lf := c.Func("go/ir", "liftable")
		// access path of an address: root cell + field names (indices and derefs ignored)
		var path func(v ssa.Value) (ssa.Value, string)
		path = func(v ssa.Value) (ssa.Value, string) {
			switch v := v.(type) {
			case *ssa.FieldAddr:
				r, p := path(v.X)
				_, f := FieldOf(v.X.Type(), v.Field)
				if f != nil {
					p += "." + f.Name()
				}
				return r, p
			case *ssa.IndexAddr:
				return path(v.X)
			case *ssa.UnOp:
				return path(v.X)
			case *ssa.FreeVar:
				fn := v.Parent()
				for i, fv := range fn.FreeVars {
					if fv == v && fn.Parent() != nil {
						for _, b := range fn.Parent().Blocks {
							for _, in := range b.Instrs {
								if mc, ok := in.(*ssa.MakeClosure); ok && mc.Fn == fn && i < len(mc.Bindings) {
									return path(mc.Bindings[i])
								}
							}
						}
					}
				}
			}
			return v, ""
		}
		// the traversal: the closure of liftable that ranges over b.Succs and calls itself
		var dfs *ssa.Function
		var succsLoad ssa.Instruction
		for _, an := range lf.AnonFuncs {
			var sl ssa.Instruction
			rec := false
			Instrs(an, false, func(in ssa.Instruction) {
				if fa, ok := in.(*ssa.FieldAddr); ok && IsFieldOf("ir.BasicBlock", "Succs")(fa) && sl == nil {
					sl = fa
				}
				if call, ok := in.(*ssa.Call); ok && call.Call.StaticCallee() == nil && !call.Call.IsInvoke() {
					if r, _ := path(call.Call.Value); r != nil {
						// the callee is loaded from the cell the closure itself is stored in
						for _, b := range lf.Blocks {
							for _, x := range b.Instrs {
								if st, ok := x.(*ssa.Store); ok && st.Addr == r {
									if mc, ok := st.Val.(*ssa.MakeClosure); ok && mc.Fn == an {
										rec = true
									}
								}
							}
						}
					}
				}
			})
			if sl != nil && rec {
				dfs, succsLoad = an, sl
			}
		}
		if dfs == nil {
			c.Undecided("the recursive traversal over BasicBlock.Succs in liftable was not found")
		}
		isRet := func(in ssa.Instruction) bool { _, ok := in.(*ssa.Return); return ok }
		// all stores in liftable and its closures, by access path
		type site struct {
			fn  *ssa.Function
			pos ssa.Instruction
		}
		writes := map[ssa.Value]map[string][]site{}
		for _, fn := range append([]*ssa.Function{lf}, lf.AnonFuncs...) {
			Instrs(fn, false, func(in ssa.Instruction) {
				if mu, ok := in.(*ssa.MapUpdate); ok {
					r, p := path(mu.Map)
					if writes[r] == nil {
						writes[r] = map[string][]site{}
					}
					writes[r][p] = append(writes[r][p], site{fn, mu})
					return
				}
				st, ok := in.(*ssa.Store)
				if !ok {
					return
				}
				if _, direct := st.Addr.(*ssa.Alloc); direct {
					return // (re)binding the variable itself, e.g. its initialisation
				}
				if _, direct := st.Addr.(*ssa.FreeVar); direct {
					return
				}
				r, p := path(st.Addr)
				if writes[r] == nil {
					writes[r] = map[string][]site{}
				}
				writes[r][p] = append(writes[r][p], site{fn, st})
			})
		}
		// early-exit guards of the traversal
		nGuards := 0
		for _, b := range dfs.Blocks {
			iff, ok := b.Instrs[len(b.Instrs)-1].(*ssa.If)
			if !ok || !b.Dominates(succsLoad.Block()) || b == succsLoad.Block() {
				continue // only exits taken before the successors are looked at
			}
			early := false
			for _, sc := range b.Succs {
				t, _ := PathAvoiding(dfs, sc.Instrs[0], isRet, func(in ssa.Instruction) bool { return in == succsLoad }, nil)
				if (t != nil || isRet(sc.Instrs[0])) && !sc.Dominates(succsLoad.Block()) {
					early = true
				}
			}
			if !early {
				continue
			}
			nGuards++
			// what the guard reads
			private, what := true, ""
			reads := 0
			for x := range BackSlice(iff.Cond, SliceOpts{NoMemory: true}) {
				if lk, ok := x.(*ssa.Lookup); ok {
					if _, isMap := lk.X.Type().Underlying().(*types.Map); isMap {
						r, p := path(lk.X)
						if _, isCell := r.(*ssa.Alloc); isCell {
							reads++
							for _, w := range writes[r][p] {
								if w.fn != dfs {
									private = false
									what = "it reads a map that is also written at " + c.PosStr(w.pos.Pos()) + " (outside the traversal)"
								}
							}
						}
					}
					continue
				}
				u, ok := x.(*ssa.UnOp)
				if !ok || u.Op.String() != "*" {
					continue
				}
				if _, isParam := u.X.(*ssa.FieldAddr); isParam {
					if r, _ := path(u.X); r != nil {
						if _, fromParam := r.(*ssa.Parameter); fromParam {
							continue // a field of the visited block itself (its index)
						}
					}
				}
				r, p := path(u.X)
				if _, isCell := r.(*ssa.Alloc); !isCell {
					continue
				}
				if _, direct := u.X.(*ssa.FreeVar); direct {
					continue // loading the captured variable (the container value), not its contents
				}
				reads++
				for _, w := range writes[r][p] {
					if w.fn != dfs {
						private = false
						nm := r.Name()
						if al, ok := r.(*ssa.Alloc); ok && al.Comment != "" {
							nm = al.Comment
						}
						what = "it reads " + nm + p + ", which is also written at " + c.PosStr(w.pos.Pos()) + " (outside the traversal)"
					}
				}
			}
			c.Check(FuncKey(lf)+"::unliftable-closure::cut-only-at-visited-blocks#"+itoa(nGuards-1), dfs.Pos(), private && reads > 0, "the traversal that demotes every block reachable from an escaping use may return early only on state that it alone writes (a visited set): %s", what)
		}
		if nGuards == 0 {
			c.Undecided("the traversal in liftable has no early-exit guard (it would not terminate on loops)")
		}
		// on every other path, the block is demoted and all successors are visited
		var demote ssa.Instruction
		Instrs(dfs, false, func(in ssa.Instruction) {
			if st, ok := in.(*ssa.Store); ok && IsFieldOf("ir.blockDesc", "isUnliftable")(st.Addr) && isBoolConst(st.Val, true) {
				demote = st
			}
		})
		c.Check(FuncKey(lf)+"::unliftable-closure::visited-block-is-demoted", dfs.Pos(), demote != nil && InstrDominates(demote, succsLoad) || demote != nil && demote.Block() == succsLoad.Block(), "every block the traversal visits is marked entirely unliftable before its successors are visited")
		var rec ssa.Instruction
		Instrs(dfs, false, func(in ssa.Instruction) {
			if call, ok := in.(*ssa.Call); ok && call.Call.StaticCallee() == nil && !call.Call.IsInvoke() && len(call.Call.Args) == 1 && Derives(call.Call.Args[0], func(v ssa.Value) bool { return v == ssa.Value(succsLoad.(*ssa.FieldAddr)) }) {
				rec = call
			}
		})
		okRec := rec != nil
		pathStr := ""
		if okRec {
			// per iteration over Succs the recursive call is unconditional
			elemLoad := rec.(*ssa.Call).Call.Args[0].(ssa.Instruction)
			t, pth := PathAvoiding(dfs, elemLoad, func(in ssa.Instruction) bool { return isRet(in) || in == elemLoad }, func(in ssa.Instruction) bool { return in == rec }, nil)
			okRec = t == nil
			pathStr = PathString(dfs, pth)
		}
		c.Check(FuncKey(lf)+"::unliftable-closure::every-successor-visited", dfs.Pos(), okRec, "the traversal recurses into every successor of a visited block; %s", pathStr)
	})
	// R1.5: the "location is already zero" flag of assign/compLit. When it is
	// set, an empty or sparse composite literal is lowered without the clearing
	// store. That is only right for storage allocated for this very assignment;
	// for an existing variable (x, y := T{}, f() re-declares x if only y is
	// new) the old contents would survive. The flag must therefore be false, be
	// forwarded from the same parameter, or be set together with the fresh
	// allocation — never taken from a property of the statement as a whole.
	c.Rule("R1.5", func() {
		c.Floor("R1.5", 8)
		reviewedTrue := map[string]string{
			"(*honnef.co/go/tools/go/ir.builder).addr::b.compLit(fn, v, e, true, &sb)":                                "v is the Alloc just created by emitNew/emitLocal for the literal",
			"(*honnef.co/go/tools/go/ir.builder).localValueSpec::b.assign(fn, lval, spec.Values[i], true, nil, spec)": "a var declaration always allocates the variable (emitLocalVar just above; the blank identifier has no storage)",
			"(*honnef.co/go/tools/go/ir.builder).compLit::b.assign(fn, iaddr, e, true, nil, e)":                       "an element of the CompositeValue created for this literal",
			"(*honnef.co/go/tools/go/ir.builder).compLit::b.assign(fn, &address{…}, e, true, nil, e)":                 "an element of the backing array allocated for the slice literal",
			"(*honnef.co/go/tools/go/ir.builder).compLit::b.assign(fn, &address{…}, e, true, sb, e)":                  "an element of the array after the whole array was cleared (or was zero: the memclear above is skipped only under isZero)",
			"(*honnef.co/go/tools/go/ir.builder).compLit::b.assign(fn, &loc, e.Value, true, nil, e)":                  "a new element of the map created for this literal",
			"(*honnef.co/go/tools/go/ir.builder).buildPackageInit::b.assign(init, lval, varinit.Rhs, true, nil, nil)": "package-level variables are zero when the initializer runs",
		}
		flagIdx := func(callee *ssa.Function) int {
			if callee == nil || FuncPkgPath(callee) != irPkg {
				return -1
			}
			if callee.Name() != "assign" && callee.Name() != "compLit" {
				return -1
			}
			for i, prm := range callee.Params {
				if prm.Name() == "isZero" {
					return i
				}
			}
			return -1
		}
		n := 0
		for _, fn := range c.ModuleFuncs() {
			if FuncPkgPath(fn) != irPkg || len(fn.Blocks) == 0 {
				continue
			}
			for _, ci := range Calls(fn, false) {
				callee := ci.Common().StaticCallee()
				fi := flagIdx(callee)
				if fi < 0 || fi >= len(ci.Common().Args) {
					continue
				}
				n++
				flag := ci.Common().Args[fi]
				key := FuncKey(fn) + "::" + c.CallText(ci.Pos())
				switch {
				case isBoolConst(flag, false):
					c.Check(key+"::zero-skip-flag", ci.Pos(), true, "the flag is false: the location is always cleared")
				case isBoolConst(flag, true):
					why, ok := reviewedTrue[key]
					c.CheckTrivial(key+"::zero-skip-flag", ci.Pos(), ok, "a call that claims its target is already zero must be reviewed: the target has to be storage allocated for this very assignment (%s)", why)
				default:
					okFlag, why := false, "the flag is neither a constant, nor the forwarded isZero parameter, nor an entry of a per-target list that is set next to the allocation of the target"
					if prm, isPrm := flag.(*ssa.Parameter); isPrm && flagIdx(fn) >= 0 && fn.Params[flagIdx(fn)] == prm {
						okFlag, why = true, "forwarded"
					} else if ld, isLoad := flag.(*ssa.UnOp); isLoad && ld.Op == token.MUL {
						if ia, isIdx := ld.X.(*ssa.IndexAddr); isIdx {
							// every store of a non-false value into that list happens right after the target was allocated
							okFlag, why = true, "per-target list"
							stores := 0
							Instrs(fn, false, func(in ssa.Instruction) {
								st, isSt := in.(*ssa.Store)
								if !isSt {
									return
								}
								sa, isIA := st.Addr.(*ssa.IndexAddr)
								if !isIA || AddrKey(sa.X) != AddrKey(ia.X) && sa.X != ia.X {
									return
								}
								if isBoolConst(st.Val, false) {
									return
								}
								stores++
								fresh := false
								for _, x := range st.Block().Instrs {
									if call, isCall := x.(ssa.CallInstruction); isCall {
										switch LastField(CalleeName(call.Common())) {
										case "emitLocalVar", "emitLocal", "emitNew":
											fresh = true
										}
									}
								}
								if !isBoolConst(st.Val, true) || !fresh {
									okFlag, why = false, "an entry of the list is set without an allocation of the target (emitLocalVar/emitLocal/emitNew) in the same basic block"
								}
							})
							if stores == 0 {
								okFlag, why = true, "the list is never set: all false"
							}
						}
					}
					c.Check(key+"::zero-skip-flag", ci.Pos(), okFlag, "isZero lets assign/compLit skip the clearing store of an empty or sparse composite literal; it may be true only for storage allocated for this assignment — a short variable declaration can re-declare an existing variable, so a statement-level fact is not enough (%s)", why)
				}
			}
		}
		if n < 8 {
			c.Undecided("found only %d calls of assign/compLit with a zero-skip flag", n)
		}
	})
	// R1.6: φ-blocks are left alone by the block optimisations (same obligations as C02 R2.7): threading `x && C`'s
	// empty right-hand block into the φ-block makes the φ lose the edge that carries C.
	c.Rule("R1.6", func() {
		var fns []*ssa.Function
		for _, fn := range c.ModuleFuncs() {
			if FuncPkgPath(fn) == irPkg && len(fn.Blocks) > 0 {
				fns = append(fns, fn)
			}
		}
		phiBlockGuardObligations(c, fns)
	})
}
