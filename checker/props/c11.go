package props

import (
	"go/token"
	"go/types"
	"strings"

	"golang.org/x/tools/go/ssa"

	. "verif/checker/engine"
)

const configPkg = Module + "/config"

func init() {
	Register(&Property{
		ID:       "C11",
		Patterns: []string{"./config", "./lintcmd/...", "./go/loader"},
		NeedSSA:  true,
		Explanation: "Decides the structural part of configuration and exit-status handling: every field of config.Config is merged by Merge with the receiver's list first and the same field on both sides, normalised by Load, and 'inherit' splices the inherited list in place (R11.1); configuration files are collected from the package directory upwards, the default is appended, the list is reversed and folded left so that outer files come first and inner files can inherit from them, and the command line is merged over the package's configuration (R11.2); " +
			"printDiagnostics returns non-zero only if a counted error exists and the formatter is not SARIF, errors are counted only for non-ignored problems whose category is in the -fail set or is compile/config/staticcheck, and ignored problems are removed before counting (R11.3); every formatter renders every problem it is given (no filtering inside a formatter) and all formatters receive the same list (R11.4); -checks and -fail are resolved against the same analyzer-name universe by the same function (R11.5). " +
			"It does NOT decide the left-to-right algebra of check lists, globs and negation over all configurations (string semantics)." +
			" Also decided: nothing the runner executes when it has to analyse a package — including function values handed to it — reads the check selection (all analyzers always run; selection is applied afterwards).",
		RuleText:    "field-by-field agreement between Config, Merge and Load; value-origin and guard-edge rules on the SSA of config, lintcmd and runner",
		Assumptions: []string{"the TOML decoder fills Config fields by their tags"},
		Run:         runC11,
		Mutants: []Mutant{
			{Name: "runner-drops-problems-of-unselected-checks", File: "lintcmd/runner/runner.go", Rule: "R11.7", KeyPart: "miss-path-reads-Config.Checks",
				Old: "\t\tdiags = append(diags, a.Diagnostics...)\n", New: "\t\tif len(pkgAct.cfg.Checks) != 1 || pkgAct.cfg.Checks[0] != \"none\" {\n\t\t\tdiags = append(diags, a.Diagnostics...)\n\t\t}\n"},
			{Name: "merge-appends-to-inherited-list", File: "config/config.go", Rule: "R11.6", KeyPart: "mergeLists::append-to-own-storage",
				Old: "func mergeLists(a, b []string) []string {\n", New: "func mergeLists(a, b []string) []string {\n\tif len(b) > 0 && b[0] == \"inherit\" && !slices.Contains(b[1:], \"inherit\") {\n\t\treturn append(a, b[1:]...)\n\t}\n",
				More: []Edit{{File: "config/config.go", Old: "\t\"reflect\"\n", New: "\t\"reflect\"\n\t\"slices\"\n"}}},
			{Name: "normalize-compacts-in-place", File: "config/config.go", Rule: "R11.6", KeyPart: "normalizeList::in-place-Compact",
				Old: "\tif len(list) > 1 {\n\t\tnlist := make([]string, 0, len(list))\n\t\tnlist = append(nlist, list[0])\n\t\tfor i, el := range list[1:] {\n\t\t\tif el != list[i] {\n\t\t\t\tnlist = append(nlist, el)\n\t\t\t}\n\t\t}\n\t\tlist = nlist\n\t}\n", New: "\tlist = slices.Compact(list)\n",
				More: []Edit{{File: "config/config.go", Old: "\t\"reflect\"\n", New: "\t\"reflect\"\n\t\"slices\"\n"}}},
			{Name: "merge-wrong-field", File: "config/config.go", Rule: "R11.1", KeyPart: "Merge::DotImportWhitelist",
				Old: "\t\tcfg.DotImportWhitelist = mergeLists(cfg.DotImportWhitelist, ocfg.DotImportWhitelist)", New: "\t\tcfg.DotImportWhitelist = mergeLists(cfg.Initialisms, ocfg.DotImportWhitelist)"},
			{Name: "merge-reversed", File: "config/config.go", Rule: "R11.1", KeyPart: "Merge::Checks",
				Old: "\t\tcfg.Checks = mergeLists(cfg.Checks, ocfg.Checks)", New: "\t\tcfg.Checks = mergeLists(ocfg.Checks, cfg.Checks)"},
			{Name: "field-not-merged", File: "config/config.go", Rule: "R11.1", KeyPart: "Merge::HTTPStatusCodeWhitelist",
				Old: "\tif ocfg.HTTPStatusCodeWhitelist != nil {\n\t\tcfg.HTTPStatusCodeWhitelist = mergeLists(cfg.HTTPStatusCodeWhitelist, ocfg.HTTPStatusCodeWhitelist)\n\t}\n", New: ""},
			{Name: "field-not-normalised", File: "config/config.go", Rule: "R11.1", KeyPart: "Load::Initialisms",
				Old: "\tconf.Initialisms = normalizeList(conf.Initialisms)\n", New: ""},
			{Name: "inherit-appends-at-end", File: "config/config.go", Rule: "R11.1", KeyPart: "mergeLists",
				Old: "\tfor _, el := range b {\n\t\tif el == \"inherit\" {\n\t\t\tout = append(out, a...)\n\t\t} else {\n\t\t\tout = append(out, el)\n\t\t}\n\t}\n", New: "\tinherit := false\n\tfor _, el := range b {\n\t\tif el == \"inherit\" {\n\t\t\tinherit = true\n\t\t} else {\n\t\t\tout = append(out, el)\n\t\t}\n\t}\n\tif inherit {\n\t\tout = append(out, a...)\n\t}\n"},
			{Name: "configs-not-reversed", File: "config/config.go", Rule: "R11.2", KeyPart: "parseConfigs",
				Old: "\tfor i := 0; i < len(out)/2; i++ {\n\t\tout[i], out[len(out)-1-i] = out[len(out)-1-i], out[i]\n\t}\n", New: ""},
			{Name: "package-config-over-command-line", File: "lintcmd/runner/runner.go", Rule: "R11.2", KeyPart: "subrunner).do",
				Old: "\ta.cfg = a.Package.Config.Merge(r.cfg)", New: "\ta.cfg = r.cfg.Merge(a.Package.Config)"},
			{Name: "fold-right", File: "config/config.go", Rule: "R11.2", KeyPart: "mergeConfigs",
				Old: "\t\tconf = conf.Merge(oconf)\n", New: "\t\tconf = oconf.Merge(conf)\n"},
			{Name: "exit-nonzero-on-warnings", File: "lintcmd/cmd.go", Rule: "R11.3", KeyPart: "exit-status",
				Old: "\tif numErrors > 0 {\n\t\tif _, ok := f.(*sarifFormatter); ok {", New: "\tif numErrors > 0 || numWarnings > 0 {\n\t\tif _, ok := f.(*sarifFormatter); ok {"},
			{Name: "sarif-exits-nonzero", File: "lintcmd/cmd.go", Rule: "R11.3", KeyPart: "exit-status",
				Old: "\t\tif _, ok := f.(*sarifFormatter); ok {\n\t\t\t// When emitting SARIF, finding errors is considered success.\n\t\t\treturn 0\n\t\t} else {\n\t\t\treturn 1\n\t\t}", New: "\t\treturn 1"},
			{Name: "ignored-problems-counted", File: "lintcmd/cmd.go", Rule: "R11.3", KeyPart: "counted",
				Old: "\t\tif diag.Severity == severityIgnored && !cmd.flags.showIgnored {\n\t\t\tnumIgnored++\n\t\t\tcontinue\n\t\t}\n\t\tif shouldExit[makeCaseFoldedString(diag.Category)] {\n\t\t\tnumErrors++",
				New: "\t\tif shouldExit[makeCaseFoldedString(diag.Category)] {\n\t\t\tnumErrors++\n\t\t}\n\t\tif diag.Severity == severityIgnored && !cmd.flags.showIgnored {\n\t\t\tnumIgnored++\n\t\t\tcontinue\n\t\t}\n\t\tif shouldExit[makeCaseFoldedString(diag.Category)] {"},
			{Name: "compile-errors-do-not-fail", File: "lintcmd/cmd.go", Rule: "R11.3", KeyPart: "always-failing-category::compile",
				Old: "\tshouldExit[makeCaseFoldedString(\"compile\")] = true\n", New: ""},
			{Name: "json-formatter-skips-warnings", File: "lintcmd/format.go", Rule: "R11.4", KeyPart: "jsonFormatter",
				Old: "\tfor _, p := range ps {\n\t\tjp := struct {", New: "\tfor _, p := range ps {\n\t\tif p.Severity == severityWarning && p.BuildName != \"\" {\n\t\t\tcontinue\n\t\t}\n\t\tjp := struct {"},
			{Name: "fail-uses-other-universe", File: "lintcmd/cmd.go", Rule: "R11.5", KeyPart: "same-universe",
				Old: "\tshouldExit := filterAnalyzerNames(analyzerNames, fail)\n", New: "\tshouldExit := filterAnalyzerNames(fail, fail)\n"},
		},
	})
}

func runC11(c *Ctx) {
	cfgT := c.NamedType("config", "Config")
	st := cfgT.Underlying().(*types.Struct)
	var fields []string
	for f := range st.Fields() {
		fields = append(fields, f.Name())
	}

	c.Rule("R11.1", func() {
		c.Floor("R11.1", 10)
		merge := c.Func("config", "Config.Merge")
		load := c.Func("config", "Load")
		ml := c.Func("config", "mergeLists")
		recv, arg := merge.Params[0], merge.Params[1]
		fieldOfParam := func(v ssa.Value, p *ssa.Parameter) string {
			// v is (derived from) a load of p.<field>
			name := ""
			for x := range BackSlice(v, SliceOpts{}) {
				fa, ok := x.(*ssa.FieldAddr)
				if !ok {
					continue
				}
				owner, f := FieldOf(fa.X.Type(), fa.Field)
				if f == nil || !strings.HasSuffix(owner, "config.Config") {
					continue
				}
				if DerivesLocal(fa.X, func(y ssa.Value) bool { return y == ssa.Value(p) }) {
					name = f.Name()
				}
			}
			return name
		}
		merged := map[string]string{}
		Instrs(merge, false, func(in ssa.Instruction) {
			st, ok := in.(*ssa.Store)
			if !ok {
				return
			}
			fa, ok := st.Addr.(*ssa.FieldAddr)
			if !ok {
				return
			}
			owner, f := FieldOf(fa.X.Type(), fa.Field)
			if f == nil || !strings.HasSuffix(owner, "config.Config") {
				return
			}
			call, ok := st.Val.(*ssa.Call)
			if !ok || !IsCallTo(call, configPkg+".mergeLists") {
				return
			}
			merged[f.Name()] = fieldOfParam(call.Call.Args[0], recv) + "," + fieldOfParam(call.Call.Args[1], arg)
		})
		for _, f := range fields {
			got, ok := merged[f]
			c.Check(FuncKey(merge)+"::"+f, merge.Pos(), ok && got == f+","+f, "Config.%s must be merged as mergeLists(receiver.%s, argument.%s): the receiver is the outer configuration whose list 'inherit' splices in (found: %q)", f, f, f, got)
		}
		normalised := map[string]string{}
		for _, lf := range DeepFuncs(load, 2) {
			Instrs(lf, false, func(in ssa.Instruction) {
				st, ok := in.(*ssa.Store)
				if !ok {
					return
				}
				fa, ok := st.Addr.(*ssa.FieldAddr)
				if !ok {
					return
				}
				owner, f := FieldOf(fa.X.Type(), fa.Field)
				if f == nil || !strings.HasSuffix(owner, "config.Config") {
					return
				}
				call, ok := st.Val.(*ssa.Call)
				if !ok || !IsCallTo(call, configPkg+".normalizeList") {
					return
				}
				for x := range BackSlice(call.Call.Args[0], SliceOpts{NoMemory: true}) {
					if fa2, ok := x.(*ssa.FieldAddr); ok {
						if o2, f2 := FieldOf(fa2.X.Type(), fa2.Field); f2 != nil && strings.HasSuffix(o2, "config.Config") {
							normalised[f.Name()] = f2.Name()
						}
					}
				}
			})
		}
		for _, f := range fields {
			c.Check(FuncKey(load)+"::"+f, load.Pos(), normalised[f] == f, "Load must normalise Config.%s (and fail loudly on an unresolved 'inherit')", f)
		}
		// mergeLists: iterate b in order; "inherit" splices a; everything else is appended
		a, b := ml.Params[0], ml.Params[1]
		overB := false
		Instrs(ml, false, func(in ssa.Instruction) {
			if ia, ok := in.(*ssa.IndexAddr); ok && ia.X == ssa.Value(b) {
				overB = true
			}
		})
		inherit := EqEdges(ml, func(x, y ssa.Value) bool {
			s, ok := constStringVal(y)
			return ok && s == "inherit" && DerivesLocal(x, func(v ssa.Value) bool { return v == ssa.Value(b) })
		})
		spliceOK, elemOK := false, false
		Instrs(ml, false, func(in ssa.Instruction) {
			call, ok := in.(*ssa.Call)
			if !ok || !IsCallTo(call, "builtin.append") {
				return
			}
			if call.Call.Args[1] == ssa.Value(a) {
				if ok, _ := MustPassEdges(ml, call, inherit); ok && len(inherit) > 0 {
					// and inside the loop: the loop can continue after it
					spliceOK = len(ml.Blocks) > 0 && reachesLoopAgain(ml, call)
				}
			} else if DerivesLocal(call.Call.Args[1], func(v ssa.Value) bool { return v == ssa.Value(b) }) {
				if ok, _ := MustPassEdges(ml, call, ComplementEdges(inherit)); ok {
					elemOK = true
				}
			}
		})
		c.Check(FuncKey(ml)+"::iterates-the-inner-list", ml.Pos(), overB, "mergeLists walks the inner (second) list")
		c.Check(FuncKey(ml)+"::inherit-splices-in-place", ml.Pos(), spliceOK, "on \"inherit\" the outer (first) list is appended at that very position, inside the loop, so that entries before and after it keep their left-to-right order")
		c.Check(FuncKey(ml)+"::other-entries-kept-in-order", ml.Pos(), elemOK, "every other entry of the inner list is appended in order")
	})

	c.Rule("R11.2", func() {
		c.Floor("R11.2", 5)
		do := c.Func("lintcmd/runner", "(*subrunner).do")
		okDir := false
		for _, ci := range CallsTo(do, false, configPkg+".Config.Merge") {
			args := ci.Common().Args
			if Derives(args[0], IsFieldOf("loader.PackageSpec", "Config")) && !Derives(args[0], IsFieldOf("runner.Runner", "cfg")) &&
				Derives(args[1], IsFieldOf("runner.Runner", "cfg")) && !Derives(args[1], IsFieldOf("loader.PackageSpec", "Config")) {
				okDir = true
			}
		}
		c.Check(FuncKey(do)+"::command-line-merged-over-package-config", do.Pos(), okDir, "the package's configuration is the receiver (outer) and the command line the argument (inner) of Merge, so that -checks can say 'inherit'")
		pc := c.Func("config", "parseConfigs")
		// DefaultConfig appended after the directory walk
		var appDefault ssa.Instruction
		Instrs(pc, false, func(in ssa.Instruction) {
			call, ok := in.(*ssa.Call)
			if ok && IsCallTo(call, "builtin.append") && Derives(call.Call.Args[1], func(v ssa.Value) bool { g, ok := v.(*ssa.Global); return ok && g.Name() == "DefaultConfig" }) {
				appDefault = call
			}
		})
		var walkStat ssa.Instruction
		for _, ci := range CallsTo(pc, false, "os.Stat") {
			walkStat = ci
		}
		c.Check(FuncKey(pc)+"::default-appended-after-walk", pc.Pos(), appDefault != nil && walkStat != nil && !ReachesFrom(pc, appDefault, walkStat), "the default configuration is appended once, after all staticcheck.conf files from the package directory up to the root have been collected (innermost first)")
		// reversal: a block that stores into out[i] and out[len-1-i]
		reversed := false
		for _, ci := range CallsTo(pc, false, "slices.Reverse") {
			if appDefault != nil && ReachesFrom(pc, appDefault, ci) {
				reversed = true
			}
		}
		// or a loop of pairwise exchanges: out[a], out[b] = out[b], out[a] with two different indices
		for _, b := range pc.Blocks {
			type elemStore struct{ dst, src ssa.Value }
			var sts []elemStore
			for _, in := range b.Instrs {
				st, ok := in.(*ssa.Store)
				if !ok {
					continue
				}
				ia, ok := st.Addr.(*ssa.IndexAddr)
				if !ok {
					continue
				}
				if u, ok := st.Val.(*ssa.UnOp); ok && u.Op == token.MUL {
					if ib, ok := u.X.(*ssa.IndexAddr); ok && AccessPath(ib.X) == AccessPath(ia.X) {
						sts = append(sts, elemStore{ia.Index, ib.Index})
					}
				}
			}
			if len(sts) == 2 && SameExpr(sts[0].dst, sts[1].src) && SameExpr(sts[1].dst, sts[0].src) && !SameExpr(sts[0].dst, sts[0].src) {
				if appDefault != nil && ReachesFrom(pc, appDefault, b.Instrs[0]) && ReachesFrom(pc, b.Instrs[0], b.Instrs[0]) {
					reversed = true
				}
			}
		}
		c.Check(FuncKey(pc)+"::list-reversed-to-outermost-first", pc.Pos(), reversed, "after appending the default, the collected list is reversed so that it starts with the default, then the outermost file, …, and ends with the package's own directory")
		// mergeConfigs folds left with the accumulator as receiver
		mc := c.Func("config", "mergeConfigs")
		fold := false
		for _, ci := range CallsTo(mc, false, configPkg+".Config.Merge") {
			args := ci.Common().Args
			_, recvIsAcc := args[0].(*ssa.Phi)
			argIsElem := DerivesLocal(args[1], func(v ssa.Value) bool { _, ok := v.(*ssa.IndexAddr); return ok })
			accFromResult := false
			if phi, ok := args[0].(*ssa.Phi); ok {
				for _, e := range phi.Edges {
					if e == ci.Value() {
						accFromResult = true
					}
				}
			}
			if recvIsAcc && argIsElem && accFromResult {
				fold = true
			}
		}
		c.Check(FuncKey(mc)+"::left-fold-accumulator-is-receiver", mc.Pos(), fold, "configurations are folded left: conf = conf.Merge(next), so each inner file is merged over everything outside it")
		ld := c.Func("config", "Load")
		chain := false
		for _, ci := range CallsTo(ld, false, configPkg+".mergeConfigs") {
			if Derives(ci.Common().Args[0], IsCallResult(configPkg+".parseConfigs")) {
				chain = true
			}
		}
		c.Check(FuncKey(ld)+"::merges-what-was-parsed", ld.Pos(), chain, "Load merges exactly the list parseConfigs produced")
	})

	pd := c.Func("lintcmd", "(*Command).printDiagnostics")

	c.Rule("R11.3", func() {
		c.Floor("R11.3", 6)
		// numErrors: the phi/variable incremented on the shouldExit edge
		isFailSetLookup := func(l *ssa.Lookup) bool {
			return strings.Contains(l.X.Type().String(), "caseFoldedString]bool") && Derives(l.Index, IsFieldOf("runner.Diagnostic", "Category"))
		}
		shouldExit := CondEdges(pd, func(cond ssa.Value) (bool, bool) {
			if l, ok := cond.(*ssa.Lookup); ok && !l.CommaOk {
				return isFailSetLookup(l), true
			}
			// v, ok := shouldExit[k]; ok && v
			if e, ok := cond.(*ssa.Extract); ok && e.Index == 0 {
				if l, ok := e.Tuple.(*ssa.Lookup); ok && l.CommaOk {
					return isFailSetLookup(l), true
				}
			}
			return false, false
		})
		if len(shouldExit) == 0 {
			c.Undecided("printDiagnostics no longer looks the problem's category up in the fail set")
		}
		// increments (x + 1) that must-pass the shouldExit edge are the error counter
		var errInc *ssa.BinOp
		Instrs(pd, false, func(in ssa.Instruction) {
			bo, ok := in.(*ssa.BinOp)
			if !ok || bo.Op != token.ADD {
				return
			}
			if _, ok := incOperand(bo); !ok {
				return
			}
			if ok, _ := MustPassEdges(pd, bo, shouldExit); ok {
				errInc = bo
			}
		})
		if errInc == nil {
			c.Undecided("no counter is incremented on the 'category is in the fail set' edge")
		}
		counter, _ := incOperand(errInc)
		// every increment of that counter is under shouldExit and after the ignored filter
		// diag.Severity == severityIgnored (possibly && !showIgnored), in any spelling: the not-equal edge
		ignoredOut := ComplementEdges(EqEdges(pd, func(x, y ssa.Value) bool {
			return Derives(x, IsFieldOf("lintcmd.diagnostic", "Severity"))
		}))
		showIgnored := CondEdges(pd, func(cond ssa.Value) (bool, bool) {
			return DerivesLocal(cond, func(v ssa.Value) bool { return IsFieldOf("", "showIgnored")(v) }), true
		})
		filt := UnionEdges(ignoredOut, showIgnored)
		Instrs(pd, false, func(in ssa.Instruction) {
			bo, ok := in.(*ssa.BinOp)
			if !ok || bo.Op != token.ADD {
				return
			}
			if x, isInc := incOperand(bo); !isInc || x != counter {
				return
			}
			ok1, p1 := MustPassEdges(pd, bo, shouldExit)
			c.Check(FuncKey(pd)+"::error-counted::only-in-fail-set", bo.Pos(), ok1, "a problem counts towards the exit status only if its category is in the -fail set (or compile/config/staticcheck); path: %s", PathString(pd, p1))
			ok2, p2 := MustPassEdges(pd, bo, filt)
			c.Check(FuncKey(pd)+"::error-counted::only-if-not-ignored", bo.Pos(), ok2 && len(ignoredOut) > 0, "ignored problems are removed before counting; path: %s", PathString(pd, p2))
		})
		// non-zero status 1 only under counter > 0 and not SARIF
		errPos := IntCmpConstEdges(pd, func(v ssa.Value) bool { return v == ssa.Value(counter) }, true, func(lo, hi int64) bool { return lo >= 1 })
		notSarif := CondEdges(pd, func(cond ssa.Value) (bool, bool) {
			e, ok := cond.(*ssa.Extract)
			if !ok || e.Index != 1 {
				return false, false
			}
			ta, ok := e.Tuple.(*ssa.TypeAssert)
			return ok && strings.HasSuffix(ta.AssertedType.String(), "lintcmd.sarifFormatter"), false
		})
		// the statuses printDiagnostics can return, each with the instruction that selects it: a constant
		// return, or the constant that reaches a returned status variable from one predecessor
		type statusSite struct {
			k  int64
			at ssa.Instruction
		}
		var sites []statusSite
		computed := false
		var expand func(v ssa.Value, at ssa.Instruction, depth int)
		expand = func(v ssa.Value, at ssa.Instruction, depth int) {
			if k, ok := ConstInt(v); ok {
				sites = append(sites, statusSite{k, at})
				return
			}
			if phi, ok := v.(*ssa.Phi); ok && depth < 3 {
				for i, e := range phi.Edges {
					pred := phi.Block().Preds[i]
					expand(e, pred.Instrs[len(pred.Instrs)-1], depth+1)
				}
				return
			}
			computed = true
		}
		for _, r := range Returns(pd) {
			expand(ReturnOperand(r, 0), r, 0)
		}
		c.Check(FuncKey(pd)+"::exit-status::constant", pd.Pos(), !computed, "printDiagnostics returns one of a fixed set of constant statuses")
		n1 := 0
		for _, st := range sites {
			if st.k != 1 {
				continue
			}
			n1++
			ok1, p1 := MustPassEdges(pd, st.at, errPos)
			c.Check(FuncKey(pd)+"::exit-status::1-only-with-counted-errors", st.at.Pos(), ok1 && len(errPos) > 0, "exit status 1 only if at least one error was counted; path: %s", PathString(pd, p1))
			ok2, p2 := MustPassEdges(pd, st.at, notSarif)
			c.Check(FuncKey(pd)+"::exit-status::never-1-for-SARIF", st.at.Pos(), ok2 && len(notSarif) > 0, "SARIF output always exits zero; path: %s", PathString(pd, p2))
		}
		if n1 == 0 {
			c.Check(FuncKey(pd)+"::exit-status::1-exists", pd.Pos(), false, "printDiagnostics never returns 1")
		}
		// with counted errors and a non-SARIF formatter the status is not 0
		for _, st := range sites {
			if st.k == 0 {
				// a zero status must not be selected on a path through both the errPos and notSarif edges
				t1, _ := MustPassEdges(pd, st.at, errPos)
				t2, _ := MustPassEdges(pd, st.at, notSarif)
				c.Check(FuncKey(pd)+"::exit-status::0-not-with-errors", st.at.Pos(), !(t1 && t2), "exit status 0 must not be returned on the path that has counted errors and a non-SARIF formatter")
			}
		}
		// compile / config / staticcheck always fail
		always := map[string]bool{}
		Instrs(pd, false, func(in ssa.Instruction) {
			mu, ok := in.(*ssa.MapUpdate)
			if !ok || !isBoolConst(mu.Value, true) {
				return
			}
			if !strings.Contains(mu.Map.Type().String(), "caseFoldedString]bool") {
				return
			}
			for x := range BackSlice(mu.Key, SliceOpts{ThroughCalls: true}) {
				if s, ok := constStringVal(x); ok {
					always[s] = true
				}
			}
		})
		for _, cat := range []string{"compile", "config", "staticcheck"} {
			c.Check(FuncKey(pd)+"::always-failing-category::"+cat, pd.Pos(), always[cat], "problems of category %q always affect the exit status, whatever -fail says", cat)
		}
	})

	c.Rule("R11.4", func() {
		c.Floor("R11.4", 5)
		fmtIface := c.NamedType("lintcmd", "formatter").Underlying().(*types.Interface)
		p := c.Pkg("lintcmd")
		n := 0
		for _, name := range p.Types.Scope().Names() {
			tn, ok := p.Types.Scope().Lookup(name).(*types.TypeName)
			if !ok || types.IsInterface(tn.Type()) {
				continue
			}
			var recvT types.Type = tn.Type()
			if !types.Implements(recvT, fmtIface) {
				recvT = types.NewPointer(tn.Type())
				if !types.Implements(recvT, fmtIface) {
					continue
				}
			}
			if name == "nullFormatter" {
				continue
			}
			n++
			fn := c.Func("lintcmd", name+".Format")
			if fn.Signature.Recv() != nil && len(fn.Params) < 3 {
				continue
			}
			// the problems: the last parameter; its elements are loaded somewhere in a loop (range or index loop,
			// possibly through a local copy of the slice)
			diags := fn.Params[len(fn.Params)-1]
			var elems []*ssa.UnOp
			for _, f := range DeepFuncs(fn, 0) {
				Instrs(f, false, func(in ssa.Instruction) {
					u, ok := in.(*ssa.UnOp)
					if !ok || u.Op != token.MUL {
						return
					}
					if ia, ok := u.X.(*ssa.IndexAddr); ok && DerivesLocal(ia.X, func(v ssa.Value) bool { return v == ssa.Value(diags) }) && f == fn {
						elems = append(elems, u)
					}
				})
			}
			skips := ""
			for _, elem := range elems {
				uses := func(in ssa.Instruction) bool {
					fromElem := func(v ssa.Value) bool {
						return Derives(v, func(x ssa.Value) bool { return x == ssa.Value(elem) })
					}
					switch x := in.(type) {
					case ssa.CallInstruction:
						for _, a := range CallArgs(x.Common()) {
							if fromElem(a) {
								return true
							}
						}
					case *ssa.Store:
						// writing the problem into a local variable (the loop copy, a literal under
						// construction) is not output yet; what is later done with that variable is
						root := x.Addr
						for {
							switch r := root.(type) {
							case *ssa.FieldAddr:
								root = r.X
								continue
							case *ssa.IndexAddr:
								root = r.X
								continue
							}
							break
						}
						if _, local := root.(*ssa.Alloc); local {
							return false
						}
						return fromElem(x.Val)
					case *ssa.MapUpdate:
						return fromElem(x.Value) || fromElem(x.Key)
					case *ssa.Send:
						return fromElem(x.X)
					}
					return false
				}
				t, path := PathAvoiding(fn, elem, func(in ssa.Instruction) bool {
					if _, ok := in.(*ssa.Return); ok {
						return true
					}
					return in == ssa.Instruction(elem)
				}, uses, nil)
				if t != nil {
					skips = PathString(fn, path)
				}
			}
			c.Check(lintcmdPkg+"."+name+".Format::renders-every-problem", fn.Pos(), len(elems) >= 1 && skips == "", "a formatter must render every problem it is given (selection happens before, once, for all formats): from loading a problem to the next iteration some output or accumulation must use it; path that drops a problem: %s (loops over the problems: %d)", skips, len(elems))
		}
		if n < 4 {
			c.Undecided("found only %d formatter implementations", n)
		}
		// one Format call site with the filtered list
		nCalls := 0
		Instrs(pd, false, func(in ssa.Instruction) {
			ci, ok := in.(ssa.CallInstruction)
			if ok && ci.Common().IsInvoke() && ci.Common().Method.Name() == "Format" {
				nCalls++
			}
		})
		c.Check(FuncKey(pd)+"::single-Format-call", pd.Pos(), nCalls == 1, "every output format is produced by the one f.Format(cs, notIgnored) call (found %d)", nCalls)
	})

	c.Rule("R11.5", func() {
		c.Floor("R11.5", 2)
		lint := c.Func("lintcmd", "(*linter).lint")
		fan := lintcmdPkg + ".filterAnalyzerNames"
		// -fail: universe = names of the analyzers passed in (cs); selection = flags.fail
		okFail := false
		for _, ci := range CallsTo(pd, false, fan) {
			args := ci.Common().Args
			if Derives(args[0], IsFieldOf("analysis.Analyzer", "Name")) && Derives(args[1], IsFieldOf("", "fail")) && !Derives(args[0], IsFieldOf("", "fail")) {
				okFail = true
			}
		}
		c.Check(FuncKey(pd)+"::fail::same-universe", pd.Pos(), okFail, "-fail is resolved by filterAnalyzerNames against the names of the registered analyzers")
		okChecks := false
		for _, ci := range CallsTo(lint, false, fan) {
			args := ci.Common().Args
			if Derives(args[1], IsFieldOf("config.Config", "Checks")) && Derives(args[0], func(v ssa.Value) bool {
				return IsFieldOf("lintcmd.linter", "analyzers")(v)
			}) {
				okChecks = true
			}
		}
		c.Check(FuncKey(lint)+"::checks::same-universe", lint.Pos(), okChecks, "the check list of the package's merged configuration is resolved by the same function against the names of the registered analyzers")
		// the printed set: success() keeps exactly the allowed categories
		succ := c.Func("lintcmd", "success")
		allowed := CondEdges(succ, func(cond ssa.Value) (bool, bool) {
			l, ok := cond.(*ssa.Lookup)
			return ok && !l.CommaOk && Derives(l.Index, IsFieldOf("runner.Diagnostic", "Category")), true
		})
		kept := false
		Instrs(succ, false, func(in ssa.Instruction) {
			call, ok := in.(*ssa.Call)
			if ok && IsCallTo(call, "builtin.append") {
				if ok, _ := MustPassEdges(succ, call, allowed); ok && len(allowed) > 0 {
					kept = true
				}
			}
		})
		c.Check(FuncKey(succ)+"::keeps-exactly-the-selected-checks", succ.Pos(), kept, "a problem is kept only if its (case-folded) category is selected")
	})
	// R11.6: configurations of different packages must not share list storage.
	// Merge/Load hand out Config values whose lists are read later (per
	// package) while other packages' configurations are still being merged; a
	// list that was appended to in place, or compacted/sorted in place, can
	// alias the inherited list (DefaultConfig, the parent directory's config)
	// and is then overwritten by the next package's merge.
	// R11.7: all analyzers always run and the selection is applied to their
	// results afterwards (lintcmd's success/filter step). The runner — including
	// every function value it is handed — never looks at the selection, so that
	// cached results are the results of all checks, whatever run stored them.
	c.Rule("R11.7", func() { checksReadOnMissPath(c) })

	c.Rule("R11.6", func() {
		c.Floor("R11.6", 3)
		configListOwnershipObligations(c)
	})

}

// reachesLoopAgain reports whether the instruction lies in a cycle of the CFG.
func reachesLoopAgain(fn *ssa.Function, in ssa.Instruction) bool {
	return ReachesFrom(fn, in, in)
}

// incOperand: for x+1 or 1+x with x a φ (a loop-carried counter) it returns x.
func incOperand(bo *ssa.BinOp) (*ssa.Phi, bool) {
	if bo.Op != token.ADD {
		return nil, false
	}
	if k, ok := ConstInt(bo.Y); ok && k == 1 {
		if phi, ok := bo.X.(*ssa.Phi); ok {
			return phi, true
		}
	}
	if k, ok := ConstInt(bo.X); ok && k == 1 {
		if phi, ok := bo.Y.(*ssa.Phi); ok {
			return phi, true
		}
	}
	return nil, false
}

// configListOwnershipObligations: configuration lists never alias inherited
// storage (shared by C11 R11.6 and C06 R6.9: config.Load runs concurrently in
// package actions, so an in-place append into the default list's spare capacity
// is also a data race).
func configListOwnershipObligations(c *Ctx) {
	var isFresh func(v ssa.Value, seen map[ssa.Value]bool) bool
	isFresh = func(v ssa.Value, seen map[ssa.Value]bool) bool {
		if seen[v] {
			return true
		}
		seen[v] = true
		switch v := v.(type) {
		case *ssa.MakeSlice:
			return true
		case *ssa.Const:
			return v.IsNil()
		case *ssa.Alloc:
			return true // a local array (slice literal, varargs)
		case *ssa.Slice:
			if v.Max != nil {
				return true // capacity-limited: an append reallocates
			}
			return isFresh(v.X, seen)
		case *ssa.Phi:
			for _, e := range v.Edges {
				if !isFresh(e, seen) {
					return false
				}
			}
			return true
		case *ssa.ChangeType:
			return isFresh(v.X, seen)
		case *ssa.Call:
			if IsCallTo(v, "builtin.append") {
				return isFresh(v.Call.Args[0], seen)
			}
			switch CalleeName(&v.Call) {
			case "slices.Clone", "slices.Concat", "slices.Collect", "slices.Sorted", "strings.Split", "strings.Fields", "slices.AppendSeq":
				return CalleeName(&v.Call) != "slices.AppendSeq"
			}
			if callee := v.Call.StaticCallee(); callee != nil && FuncPkgPath(callee) == configPkg && callee.Blocks != nil {
				for _, r := range Returns(callee) {
					for _, res := range r.Results {
						if _, isSlice := res.Type().Underlying().(*types.Slice); isSlice && !isFresh(res, seen) {
							return false
						}
					}
				}
				return true
			}
			return false
		}
		return false
	}
	inPlace := map[string]bool{"slices.Compact": true, "slices.CompactFunc": true, "slices.Sort": true, "slices.SortFunc": true, "slices.SortStableFunc": true, "slices.Reverse": true,
		"slices.Delete": true, "slices.DeleteFunc": true, "slices.Insert": true, "slices.Replace": true, "sort.Strings": true, "sort.Slice": true, "sort.SliceStable": true, "sort.Sort": true, "sort.Stable": true, "builtin.copy": true, "builtin.clear": true}
	isStringList := func(t types.Type) bool {
		sl, ok := t.Underlying().(*types.Slice)
		if !ok {
			return false
		}
		b, ok := sl.Elem().Underlying().(*types.Basic)
		return ok && b.Kind() == types.String
	}
	nSites := 0
	for _, fn := range c.ModuleFuncs() {
		if FuncPkgPath(fn) != configPkg {
			continue
		}
		n := 0
		Instrs(fn, false, func(in ssa.Instruction) {
			switch x := in.(type) {
			case *ssa.Call:
				name := CalleeName(&x.Call)
				if name == "builtin.append" && isStringList(x.Type()) {
					nSites++
					c.SawFunc(fn.String())
					c.Check(FuncKey(fn)+"::append-to-own-storage#"+itoa(n), x.Pos(), isFresh(x.Call.Args[0], map[ssa.Value]bool{}), "a configuration list may be grown only in storage this function allocated (make, a literal, slices.Clone, a capacity-limited slice): appending to a list received from outside writes into its spare capacity, which other packages' configurations share")
					n++
				} else if inPlace[name] && len(x.Call.Args) > 0 && isStringList(x.Call.Args[0].Type()) {
					nSites++
					c.Check(FuncKey(fn)+"::in-place-"+name[strings.LastIndex(name, ".")+1:]+"#"+itoa(n), x.Pos(), isFresh(x.Call.Args[0], map[ssa.Value]bool{}), "%s rewrites its argument in place; a configuration list received from outside may be shared with other packages' configurations", name)
					n++
				}
			case *ssa.Store:
				if ia, ok := x.Addr.(*ssa.IndexAddr); ok && isStringList(ia.X.Type()) {
					nSites++
					c.Check(FuncKey(fn)+"::element-store#"+itoa(n), x.Pos(), isFresh(ia.X, map[ssa.Value]bool{}), "an element of a configuration list received from outside is overwritten")
					n++
				}
			}
		})
	}
	if nSites < 3 {
		c.Undecided("found only %d list-building sites in package config", nSites)
	}
}
