package props

import (
	"go/token"
	"go/types"
	"sort"
	"strings"

	"golang.org/x/tools/go/ssa"

	. "verif/checker/engine"
)

func init() {
	Register(&Property{
		ID:       "C02",
		Patterns: []string{"./go/ir"},
		NeedSSA:  true,
		Explanation: "Decides structural necessary conditions of well-formed IR: for every instruction type, the set of fields that hold operands (Value, []Value, CallCommon, select states — found from the struct types) equals the set of field addresses its Operands method yields, which is what referrer construction and value replacement see (R2.1); every place that removes an instruction from a block (nils an Instrs entry) or clears an operand either detaches it from its operands' referrer lists, has redirected its uses, or removes an Alloc/φ whose own referrers are being deleted in the same pass — the idioms are enumerated and each site must match one (R2.2); " +
			"every instruction value handed to (*Function).emit has had its type set on all paths, directly or by an emit helper (R2.3); control instructions (If, Jump, ConstantSwitch, TypeSwitch, Return, Panic, Unreachable) are created only together with the matching number of addEdge calls, in a fixed set of reviewed functions (R2.4); phis are created only by the lifting pass and the builder's two explicit sites, always with one edge slot per predecessor (R2.5). " +
			"It does NOT decide def-dominates-use or the per-instruction typing rules on all programs (facts about the builder's output, not its shape)." +
			" Also decided: a block saved from fn.currentBlock to be emitted into later (switch headers) cannot have been terminated by lowering in between (found and led to the repair of the malformed IR for `switch a && b {…}`)." +
			" The block optimisations (jump threading, block fusion) never edit the graph after hasPhi() answered true for the block concerned, and each of them asks.",
		RuleText:    "struct-field vs. method-body agreement from go/types and SSA; must-pass-through path queries; who-may-construct tables",
		Assumptions: []string{"buildReferrers and replaceAll visit exactly what Operands yields (checked: they call Operands)"},
		Run:         runC02,
		Mutants: []Mutant{
			{Name: "jump-threading-into-phi-block-with-one-pred", File: "go/ir/blockopt.go", Rule: "R2.7", KeyPart: "jumpThreading::no-edit-once-a-phi-was-seen",
				Old: "\tif c.hasPhi() {\n\t\treturn false // not sound without more effort\n\t}\n", New: "\tif c.hasPhi() && len(b.Preds) != 1 {\n\t\treturn false // not sound without more effort\n\t}\n"},
			{Name: "fuse-blocks-with-phis", File: "go/ir/blockopt.go", Rule: "R2.7", KeyPart: "fuseBlocks::gives-up-on-phi-blocks",
				Old: "\tif b.hasPhi() {\n\t\treturn false // not sound without further effort\n\t}\n", New: ""},
			{Name: "switch-header-block-saved-before-tag", File: "go/ir/builder.go", Rule: "R2.6", KeyPart: "switchStmt::saved-block::b.expr(fn, s.Tag)",
				Old: "\ttag := b.expr(fn, s.Tag)\n\t// Lowering the tag may open new blocks (a && b, a || b); the switch is\n\t// emitted in the block that is current afterwards.\n\tentry := fn.currentBlock\n", New: "\tentry := fn.currentBlock\n\ttag := b.expr(fn, s.Tag)\n"},
			{Name: "typeswitch-header-block-saved-before-tag", File: "go/ir/builder.go", Rule: "R2.6", KeyPart: "typeSwitchStmt::saved-block",
				Old: "\tvar tag Value\n\tswitch e := s.Assign.(type) {\n\tcase *ast.ExprStmt: // x.(type)\n", New: "\tentry := fn.currentBlock\n\tvar tag Value\n\tswitch e := s.Assign.(type) {\n\tcase *ast.ExprStmt: // x.(type)\n",
				More: []Edit{{File: "go/ir/builder.go", Old: "\tentry := fn.currentBlock\n\tdone := fn.newBasicBlock(\"typeswitch.done\")\n", New: "\tdone := fn.newBasicBlock(\"typeswitch.done\")\n"}}},
			{Name: "operand-not-listed", File: "go/ir/ssa.go", Rule: "R2.1", KeyPart: "MapUpdate",
				Old: "\treturn append(rands, &v.Map, &v.Key, &v.Value)\n", New: "\treturn append(rands, &v.Map, &v.Key)\n"},
			{Name: "select-send-not-listed", File: "go/ir/ssa.go", Rule: "R2.1", KeyPart: "Select",
				Old: "&v.States[i].Send", New: "&v.States[i].Chan"},
			{Name: "new-operand-field", File: "go/ir/ssa.go", Rule: "R2.1", KeyPart: "MakeChan",
				Old: "type Program struct {", New: "func (v *MakeChan) hint() Value { return v.Hint }\n\ntype Program struct {",
				More: []Edit{{File: "go/ir/ssa.go", Old: "type MakeChan struct {\n\tregister\n", New: "type MakeChan struct {\n\tregister\n\tHint Value\n"}}},
			{Name: "kill-without-detaching", File: "go/ir/lift.go", Rule: "R2.2", KeyPart: "rename",
				Old: "\t\t\t\tif refs := instr.Addr.Referrers(); refs != nil {\n\t\t\t\t\t*refs = removeInstr(*refs, instr)\n\t\t\t\t}\n\t\t\t\tif refs := instr.Val.Referrers(); refs != nil {\n\t\t\t\t\t*refs = removeInstr(*refs, instr)\n\t\t\t\t}\n\t\t\t\t// Delete the Store.\n", New: "\t\t\t\t// Delete the Store.\n"},
			{Name: "emit-without-type", File: "go/ir/emit.go", Rule: "R2.3", KeyPart: "emitLoad",
				Old: "\tv := &Load{X: addr}\n\tv.setType(deref(addr.Type()))\n", New: "\tv := &Load{X: addr}\n"},
			{Name: "jump-without-edge", File: "go/ir/emit.go", Rule: "R2.4", KeyPart: "emitJump",
				Old: "\taddEdge(b, target)\n", New: "\t_ = target\n"},
			{Name: "if-with-one-edge", File: "go/ir/emit.go", Rule: "R2.4", KeyPart: "emitIf",
				Old: "\taddEdge(b, tblock)\n\taddEdge(b, fblock)\n", New: "\taddEdge(b, tblock)\n\t_ = fblock\n"},
		},
	})
}

// terminatorExempt: creation sites of control instructions that maintain the
// successor lists themselves.
var terminatorExempt = map[string]string{
	"jumpThreading::creates-Jump": "replaces a degenerate If whose two successors are the same block: it trims Succs to one entry and removes the duplicate predecessor itself, no edge is added",
}

// removalExempt: removals of one specific instruction that need no detaching.
var removalExempt = map[string]string{
	"lift::removes-*ir.Call": "the ssa:deferstack() call: its callee is a Builtin and it has no arguments, so no referrer list mentions it; it is removed only when no Defer refers to it (eliminateDeferStack), and the Defer.DeferStack operands are cleared in the same pass",
}

// containsValue reports whether values of type t can hold an ir.Value operand.
func containsValue(t types.Type, valueIface *types.Interface, seen map[types.Type]bool) bool {
	t = types.Unalias(t)
	if seen[t] {
		return false
	}
	seen[t] = true
	switch tt := t.(type) {
	case *types.Named:
		if tt.Obj().Pkg() == nil || tt.Obj().Pkg().Path() != irPkg {
			return false
		}
		if iface, ok := tt.Underlying().(*types.Interface); ok {
			return types.Identical(iface, valueIface) || (tt.Obj().Name() == "Value")
		}
		switch tt.Obj().Name() {
		case "CallCommon", "SelectState":
			return true
		}
		return false
	case *types.Slice:
		return containsValue(tt.Elem(), valueIface, seen)
	case *types.Array:
		return containsValue(tt.Elem(), valueIface, seen)
	case *types.Pointer:
		if n, ok := types.Unalias(tt.Elem()).(*types.Named); ok && n.Obj().Pkg() != nil && n.Obj().Pkg().Path() == irPkg {
			switch n.Obj().Name() {
			case "SelectState", "CallCommon":
				return true
			}
		}
		return false
	}
	return false
}

func runC02(c *Ctx) {
	p := c.Pkg("go/ir")
	valueT := c.NamedType("go/ir", "Value")
	valueIface := valueT.Underlying().(*types.Interface)
	instrIface := c.NamedType("go/ir", "Instruction").Underlying().(*types.Interface)

	// operand fields yielded by an Operands method (top-level field names of the receiver)
	yielded := func(fn *ssa.Function) map[string]bool {
		out := map[string]bool{}
		recv := fn.Params[0]
		note := func(v ssa.Value) {
			// top-level field of the receiver on the address path
			for x := range BackSlice(v, SliceOpts{NoMemory: true}) {
				fa, ok := x.(*ssa.FieldAddr)
				if !ok || fa.X != ssa.Value(recv) {
					continue
				}
				if _, f := FieldOf(fa.X.Type(), fa.Field); f != nil {
					out[f.Name()] = true
				}
			}
		}
		Instrs(fn, false, func(in ssa.Instruction) {
			switch x := in.(type) {
			case *ssa.Store:
				// &v.F stored into the varargs array / appended slice
				if strings.HasSuffix(x.Val.Type().String(), "*honnef.co/go/tools/go/ir.Value") {
					note(x.Val)
				}
			case *ssa.Call:
				// delegation: v.Call.Operands(rands), or a helper of the package that is handed the operand
				// list being built together with (the address of) a field: appendElemAddrs(rands, s.Results)
				callee := x.Call.StaticCallee()
				if callee == nil || FuncPkgPath(callee) != irPkg {
					return
				}
				takesRands := false
				for _, a := range x.Call.Args {
					if strings.HasSuffix(a.Type().String(), "[]*honnef.co/go/tools/go/ir.Value") {
						takesRands = true
					}
				}
				if !takesRands {
					return
				}
				for _, a := range x.Call.Args {
					if !strings.HasSuffix(a.Type().String(), "[]*honnef.co/go/tools/go/ir.Value") {
						note(a)
						// a field handed over by value (a slice of operands): the load of recv.F
						for y := range BackSlice(a, SliceOpts{NoMemory: true}) {
							if u, ok := y.(*ssa.UnOp); ok {
								note(u.X)
							}
						}
					}
				}
			}
		})
		return out
	}

	c.Rule("R2.1", func() {
		c.Floor("R2.1", 45)
		n := 0
		sc := p.Types.Scope()
		for _, name := range sc.Names() {
			tn, ok := sc.Lookup(name).(*types.TypeName)
			if !ok || tn.IsAlias() {
				continue
			}
			st, ok := tn.Type().Underlying().(*types.Struct)
			if !ok {
				continue
			}
			isInstr := types.Implements(types.NewPointer(tn.Type()), instrIface)
			if !isInstr && name != "CallCommon" {
				continue
			}
			fn := c.FuncOpt("go/ir", "(*"+name+").Operands")
			if fn == nil || len(fn.Blocks) == 0 {
				if isInstr {
					c.Check(irPkg+"."+name+"::Operands-defined", tn.Pos(), false, "instruction type %s has no Operands method of its own", name)
				}
				continue
			}
			n++
			want := map[string]bool{}
			for f := range st.Fields() {
				if f.Embedded() {
					continue
				}
				if containsValue(f.Type(), valueIface, map[types.Type]bool{}) {
					want[f.Name()] = true
				}
			}
			got := yielded(fn)
			var missing, extra []string
			for f := range want {
				if !got[f] {
					missing = append(missing, f)
				}
			}
			for f := range got {
				if !want[f] {
					extra = append(extra, f)
				}
			}
			sort.Strings(missing)
			sort.Strings(extra)
			c.Check(irPkg+"."+name+"::Operands-complete", fn.Pos(), len(missing) == 0 && len(extra) == 0,
				"the operand-holding fields of %s are %v but Operands yields %v (missing %v, unexpected %v): referrer lists and value replacement only see what Operands yields, so a missing field keeps pointing at a deleted value", name, SortedKeys(want), SortedKeys(got), missing, extra)
		}
		if n < 45 {
			c.Undecided("found only %d instruction types with an Operands method", n)
		}
		// SelectState: both Chan and Send
		sel := c.Func("go/ir", "(*Select).Operands")
		inner := map[string]bool{}
		Instrs(sel, false, func(in ssa.Instruction) {
			st, ok := in.(*ssa.Store)
			if !ok {
				return
			}
			if fa, ok := st.Val.(*ssa.FieldAddr); ok {
				if owner, f := FieldOf(fa.X.Type(), fa.Field); f != nil && strings.HasSuffix(owner, "ir.SelectState") {
					inner[f.Name()] = true
				}
			}
		})
		c.Check(irPkg+".Select::Operands-complete::states", sel.Pos(), inner["Chan"] && inner["Send"], "every select state contributes its channel and its send value (yields %v)", SortedKeys(inner))
		// the consumers use Operands
		for _, name := range []string{"buildReferrers", "replaceAll"} {
			fn := c.Func("go/ir", name)
			uses := false
			for _, ci := range Calls(fn, true) {
				if ci.Common().IsInvoke() && ci.Common().Method.Name() == "Operands" {
					uses = true
				}
			}
			c.Check(FuncKey(fn)+"::iterates-Operands", fn.Pos(), uses, "%s walks an instruction's operands through Instruction.Operands", name)
		}
	})

	var funcs []*ssa.Function
	for _, fn := range c.ModuleFuncs() {
		if FuncPkgPath(fn) == irPkg && len(fn.Blocks) > 0 && fn.Synthetic == "" {
			funcs = append(funcs, fn)
		}
	}

	c.Rule("R2.2", func() {
		c.Floor("R2.2", 4)
		// sites that nil an entry of BasicBlock.Instrs
		n := 0
		for _, fn := range funcs {
			Instrs(fn, false, func(in ssa.Instruction) {
				st, ok := in.(*ssa.Store)
				if !ok || !IsNilConst(st.Val) {
					return
				}
				ia, ok := st.Addr.(*ssa.IndexAddr)
				if !ok || !AddrFrom(ia.X, IsFieldOf("ir.BasicBlock", "Instrs")) {
					return
				}
				n++
				c.SawFunc(fn.String())
				key := FuncKey(fn) + "::removes-instruction#" + itoa(n)
				// idioms, any of:
				//  (a) a removeInstr/RemoveReferrer-style call on the operands' referrers happens in the same function on the path to the removal
				//  (b) the function is the Alloc/Store/Load renaming of lifting, where the removed instruction's operand is an Alloc that is deleted in the same pass (guard on Alloc.index) and loads have been replaced (replaceAll)
				//  (c) killInstruction-style helper: calls removeInstr for every operand
				isDetach := func(x ssa.Instruction) bool {
					ci, ok := x.(ssa.CallInstruction)
					if !ok {
						return false
					}
					name := CalleeName(ci.Common())
					return strings.HasSuffix(name, ".removeInstr") || strings.HasSuffix(name, ".removeReferrer") || strings.HasSuffix(name, ".killInstruction") || strings.HasSuffix(name, ".replaceAll")
				}
				detach, liftGuard := false, false
				// which instruction kind is removed? (the removal lies under a type-switch case on the block's instruction)
				var kind *types.Named
				var caseVal ssa.Value
				for _, b := range fn.Blocks {
					iff, ok := b.Instrs[len(b.Instrs)-1].(*ssa.If)
					if !ok {
						continue
					}
					e, ok := iff.Cond.(*ssa.Extract)
					if !ok || e.Index != 1 {
						continue
					}
					ta, ok := e.Tuple.(*ssa.TypeAssert)
					if !ok {
						continue
					}
					isOperand := DerivesLocal(ta.X, func(z ssa.Value) bool {
						fa, ok := z.(*ssa.FieldAddr)
						if !ok {
							return false
						}
						owner, _ := FieldOf(fa.X.Type(), fa.Field)
						return strings.HasPrefix(owner, irPkg+".") && !strings.HasSuffix(owner, "ir.BasicBlock")
					})
					if isOperand || !AddrFrom(ta.X, IsFieldOf("ir.BasicBlock", "Instrs")) && !DerivesLocal(ta.X, IsFieldOf("ir.BasicBlock", "Instrs")) {
						continue
					}
					if ok, _ := MustPassEdges(fn, st, map[Edge]bool{{Block: b.Index, Succ: 0}: true}); !ok {
						continue
					}
					if ptr, ok := ta.AssertedType.(*types.Pointer); ok {
						if n, ok := types.Unalias(ptr.Elem()).(*types.Named); ok {
							kind = n
							for _, r := range *ta.Referrers() {
								if ex, ok := r.(*ssa.Extract); ok && ex.Index == 0 {
									caseVal = ex
								}
							}
						}
					}
				}
				if kind != nil && caseVal != nil {
					// per operand field of that kind
					st2 := kind.Underlying().(*types.Struct)
					all := true
					why := ""
					for f := range st2.Fields() {
						if f.Embedded() || !containsValue(f.Type(), valueIface, map[types.Type]bool{}) {
							continue
						}
						isField := func(v ssa.Value) bool {
							return DerivesLocal(v, func(z ssa.Value) bool {
								fa, ok := z.(*ssa.FieldAddr)
								if !ok {
									return false
								}
								_, ff := FieldOf(fa.X.Type(), fa.Field)
								return ff != nil && ff.Name() == f.Name() && fa.X == caseVal
							})
						}
						// (i) the operand is a lifted Alloc that is deleted in the same pass
						isLifted := CondEdgesPhi(fn, func(cond ssa.Value) (bool, bool) {
							e, ok := cond.(*ssa.Extract)
							if !ok || e.Index != 1 {
								return false, false
							}
							ta, ok := e.Tuple.(*ssa.TypeAssert)
							return ok && strings.HasSuffix(ta.AssertedType.String(), "go/ir.Alloc") && isField(ta.X), true
						})
						idx := IntCmpConstEdges(fn, func(v ssa.Value) bool { return DerivesLocal(v, IsFieldOf("ir.Alloc", "index")) }, false, func(lo, hi int64) bool { return lo >= 0 })
						ok1, _ := MustPassEdges(fn, st, isLifted)
						ok2, _ := MustPassEdges(fn, st, idx)
						if ok1 && ok2 && len(isLifted) > 0 && len(idx) > 0 {
							continue
						}
						// (ii) detached from that operand's referrers (or it has none) on every path
						detachF := func(x ssa.Instruction) bool {
							ci, ok := x.(ssa.CallInstruction)
							if !ok {
								return false
							}
							if strings.HasSuffix(CalleeName(ci.Common()), ".removeInstr") {
								return DerivesLocal(ci.Common().Args[0], func(z ssa.Value) bool {
									call, ok := z.(*ssa.Call)
									return ok && call.Call.IsInvoke() && call.Call.Method.Name() == "Referrers" && isField(call.Call.Value)
								})
							}
							// a helper of the package that is handed the operand and takes the instruction out of its referrers
							h := ci.Common().StaticCallee()
							if h == nil || h.Blocks == nil || FuncPkgPath(h) != irPkg {
								return false
							}
							for pi, prm := range h.Params {
								if pi >= len(ci.Common().Args) || !isField(ci.Common().Args[pi]) {
									continue
								}
								for _, hc := range Calls(h, false) {
									if !strings.HasSuffix(CalleeName(hc.Common()), ".removeInstr") {
										continue
									}
									onParam := DerivesLocal(hc.Common().Args[0], func(z ssa.Value) bool {
										call, ok := z.(*ssa.Call)
										return ok && call.Call.IsInvoke() && call.Call.Method.Name() == "Referrers" && call.Call.Value == ssa.Value(prm)
									})
									if !onParam {
										continue
									}
									// on every path through the helper, except where the operand has no referrer list
									noRefs := EqEdges(h, func(x, y ssa.Value) bool {
										call, ok := x.(*ssa.Call)
										return IsNilConst(y) && ok && call.Call.IsInvoke() && call.Call.Method.Name() == "Referrers"
									})
									t, _ := PathAvoiding(h, nil, func(z ssa.Instruction) bool { _, isRet := z.(*ssa.Return); return isRet }, func(z ssa.Instruction) bool { return z == ssa.Instruction(hc) }, noRefs)
									if t == nil {
										return true
									}
								}
							}
							return false
						}
						noRefsF := EqEdges(fn, func(x, y ssa.Value) bool {
							call, ok := x.(*ssa.Call)
							return IsNilConst(y) && ok && call.Call.IsInvoke() && call.Call.Method.Name() == "Referrers" && isField(call.Call.Value)
						})
						t, _ := PathAvoiding(fn, nil, func(x ssa.Instruction) bool { return x == ssa.Instruction(st) }, detachF, noRefsF)
						if t != nil {
							all = false
							why = kind.Obj().Name() + "." + f.Name()
						}
					}
					detach = all
					if !all {
						c.Check(key, st.Pos(), false, "a removed %s is still listed as a referrer of its operand %s: before u.Instrs[i] = nil the instruction must be taken out of that operand's Referrers() (or the operand must be the lifted Alloc that is deleted in the same pass)", kind.Obj().Name(), why)
						return
					}
				} else {
					t, _ := PathAvoiding(fn, nil, func(x ssa.Instruction) bool { return x == ssa.Instruction(st) }, isDetach, nil)
					detach = t == nil
				}
				if !detach && !liftGuard {
					// removal of one specific instruction (guarded by instr == x): keyed exemptions
					var what string
					eq := EqEdges(fn, func(x, y ssa.Value) bool {
						isCall := func(v ssa.Value) bool {
							return DerivesLocal(v, func(z ssa.Value) bool { return strings.HasSuffix(z.Type().String(), "go/ir.Call") })
						}
						if isCall(x) || isCall(y) {
							what = "*ir.Call"
							return true
						}
						return false
					})
					if ok, _ := MustPassEdges(fn, st, eq); ok && len(eq) > 0 {
						if why, listed := removalExempt[fn.Name()+"::removes-"+what]; listed {
							c.CheckTrivial(key, st.Pos(), true, "exempt: %s", why)
							return
						}
					}
				}
				c.Check(key, st.Pos(), detach || liftGuard, "an instruction removed from its block must first be detached from its operands' referrer lists (removeInstr/killInstruction), have its uses redirected (replaceAll), or be a Load/Store of a cell that lifting deletes in the same pass (guard on Alloc.index); otherwise the operand/referrer relations stop being inverses")
			})
		}
		if n < 3 {
			c.Undecided("found only %d sites that remove an instruction from a block", n)
		}
	})

	c.Rule("R2.3", func() {
		c.Floor("R2.3", 30)
		// functions that set the type of their i-th parameter on all paths ("emit helpers")
		isSetType := func(in ssa.Instruction, v ssa.Value) bool {
			if st, ok := in.(*ssa.Store); ok {
				// direct assignment to the embedded register's typ field
				if fa, ok := st.Addr.(*ssa.FieldAddr); ok {
					if _, f := FieldOf(fa.X.Type(), fa.Field); f != nil && f.Name() == "typ" && AddrFrom(fa.X, func(x ssa.Value) bool { return x == v }) {
						return true
					}
				}
				return false
			}
			ci, ok := in.(ssa.CallInstruction)
			if !ok {
				return false
			}
			cc := ci.Common()
			name := ""
			var recv ssa.Value
			if cc.IsInvoke() {
				name, recv = cc.Method.Name(), cc.Value
			} else if callee := cc.StaticCallee(); callee != nil && len(cc.Args) > 0 {
				name, recv = callee.Name(), cc.Args[0]
			}
			isV := func(r ssa.Value) bool {
				return r == v || AddrFrom(r, func(x ssa.Value) bool { return x == v }) || DerivesLocal(r, func(x ssa.Value) bool { return x == v })
			}
			if name == "setType" {
				// receiver is (the register embedded in) v
				return isV(recv)
			}
			// a helper of the package that sets the type of the instruction it is handed, on every path
			h := cc.StaticCallee()
			if h == nil || h.Blocks == nil || FuncPkgPath(h) != irPkg {
				return false
			}
			for pi, prm := range h.Params {
				if pi >= len(cc.Args) || !isV(cc.Args[pi]) {
					continue
				}
				for _, hc := range Calls(h, false) {
					hcc := hc.Common()
					hn := ""
					var hrecv ssa.Value
					if hcc.IsInvoke() {
						hn, hrecv = hcc.Method.Name(), hcc.Value
					} else if callee := hcc.StaticCallee(); callee != nil && len(hcc.Args) > 0 {
						hn, hrecv = callee.Name(), hcc.Args[0]
					}
					if hn != "setType" {
						continue
					}
					onParam := hrecv == ssa.Value(prm) || AddrFrom(hrecv, func(x ssa.Value) bool { return x == ssa.Value(prm) }) || DerivesLocal(hrecv, func(x ssa.Value) bool { return x == ssa.Value(prm) })
					if !onParam {
						continue
					}
					t, _ := PathAvoiding(h, nil, func(z ssa.Instruction) bool { _, isRet := z.(*ssa.Return); return isRet }, func(z ssa.Instruction) bool { return z == ssa.Instruction(hc) }, nil)
					if t == nil {
						return true
					}
				}
			}
			return false
		}
		n := 0
		for _, fn := range funcs {
			for _, ci := range Calls(fn, false) {
				if !IsCallTo(ci, irPkg+".Function.emit") {
					continue
				}
				arg := ci.Common().Args[1]
				// the concrete value behind the interface
				var val ssa.Value
				if mi, ok := arg.(*ssa.MakeInterface); ok {
					val = mi.X
				}
				al, ok := val.(*ssa.Alloc)
				if !ok {
					continue // a parameter or a value built elsewhere: decided where it is built
				}
				// only register-bearing instructions (those with a setType method)
				elem := al.Type().(*types.Pointer).Elem()
				if obj, _, _ := types.LookupFieldOrMethod(types.NewPointer(elem), true, p.Types, "setType"); obj == nil {
					continue
				}
				n++
				t, path := PathAvoiding(fn, al, func(in ssa.Instruction) bool { return in == ssa.Instruction(ci) }, func(in ssa.Instruction) bool { return isSetType(in, al) }, nil)
				c.Check(FuncKey(fn)+"::emit("+elem.(*types.Named).Obj().Name()+")::typed#"+itoa(n), ci.Pos(), t == nil, "a value-producing instruction must have its type set before it is emitted (nil Type() is not a type); path from its creation to emit without setType: %s", PathString(fn, path))
			}
		}
		if n < 30 {
			c.Undecided("found only %d emit sites of locally created register instructions", n)
		}
	})

	c.Rule("R2.4", func() {
		c.Floor("R2.4", 6)
		want := map[string]int{"If": 2, "Jump": 1}
		terminators := map[string]bool{"If": true, "Jump": true, "ConstantSwitch": true, "TypeSwitch": true, "Return": true, "Panic": true, "Unreachable": true}
		n := 0
		for _, fn := range funcs {
			Instrs(fn, false, func(in ssa.Instruction) {
				al, ok := in.(*ssa.Alloc)
				if !ok {
					return
				}
				named, ok := types.Unalias(al.Type().(*types.Pointer).Elem()).(*types.Named)
				if !ok || named.Obj().Pkg() == nil || named.Obj().Pkg().Path() != irPkg || !terminators[named.Obj().Name()] {
					return
				}
				n++
				name := named.Obj().Name()
				nEdges := 0
				isRetI := func(x ssa.Instruction) bool { _, ok := x.(*ssa.Return); return ok }
				for _, ci := range Calls(fn, false) {
					weight := 0
					if IsCallTo(ci, irPkg+".addEdge") {
						weight = 1
					} else if h := ci.Common().StaticCallee(); h != nil && h.Blocks != nil && FuncPkgPath(h) == irPkg && h != fn {
						// a helper that adds edges itself: the edges it adds on every path
						for _, hc := range CallsTo(h, false, irPkg+".addEdge") {
							if t, _ := PathAvoiding(h, nil, isRetI, func(x ssa.Instruction) bool { return x == ssa.Instruction(hc) }, nil); t == nil {
								weight++
							}
						}
						// only dedicated edge helpers: a function that creates a terminator itself (emitJump, emitIf, the
						// builder's statement functions) adds the edges of its own terminator, not of the caller's
						createsTerminator := false
						Instrs(h, false, func(x ssa.Instruction) {
							if a2, ok := x.(*ssa.Alloc); ok {
								if nm, ok := types.Unalias(a2.Type().(*types.Pointer).Elem()).(*types.Named); ok && nm.Obj().Pkg() != nil && nm.Obj().Pkg().Path() == irPkg && terminators[nm.Obj().Name()] {
									createsTerminator = true
								}
							}
						})
						if createsTerminator || len(h.Blocks) > 2 {
							weight = 0
						}
					}
					if weight == 0 {
						continue
					}
					// on every path from the creation to the function's return?
					t, _ := PathAvoiding(fn, al, isRetI, func(x ssa.Instruction) bool { return x == ssa.Instruction(ci) }, nil)
					if t == nil {
						nEdges += weight
					}
				}
				key := FuncKey(fn) + "::creates-" + name
				if why, ok := terminatorExempt[fn.Name()+"::creates-"+name]; ok {
					c.CheckTrivial(key, al.Pos(), true, "exempt: %s", why)
					return
				}
				if w, ok := want[name]; ok {
					c.Check(key, al.Pos(), nEdges == w, "a %s has %d successor(s): the function that creates it must add exactly that many CFG edges on every path (adds %d)", name, w, nEdges)
				} else if name == "ConstantSwitch" || name == "TypeSwitch" {
					// one edge per case + default: added in a loop, at least one addEdge call must exist
					c.Check(key, al.Pos(), len(CallsTo(fn, false, irPkg+".addEdge")) > 0, "a %s gets one successor per case: the creating function adds the edges", name)
				} else {
					c.Check(key, al.Pos(), nEdges == 0, "%s has no successors: the creating function must not add an edge on every path (adds %d)", name, nEdges)
				}
			})
		}
		if n < 6 {
			c.Undecided("found only %d creation sites of control instructions", n)
		}
	})

	c.Rule("R2.5", func() {
		c.Floor("R2.5", 2)
		allowed := map[string]string{
			"liftAlloc":    "φ placement of the lifting pass",
			"emitArith":    "",
			"logicalBinop": "value of && / || : one edge per predecessor of the join block",
			"rangeFunc":    "",
		}
		for _, fn := range funcs {
			Instrs(fn, false, func(in ssa.Instruction) {
				al, ok := in.(*ssa.Alloc)
				if !ok {
					return
				}
				named, ok := types.Unalias(al.Type().(*types.Pointer).Elem()).(*types.Named)
				if !ok || named.Obj().Pkg() == nil || named.Obj().Pkg().Path() != irPkg || named.Obj().Name() != "Phi" {
					return
				}
				top := fn
				for top.Parent() != nil {
					top = top.Parent()
				}
				// Edges sized by the number of predecessors, or filled by explicit appends next to addEdge/emitJump
				sized := false
				for _, v := range storedToField(fn, "ir.Phi", "Edges") {
					if DerivesLocal(v, func(x ssa.Value) bool {
						ms, ok := x.(*ssa.MakeSlice)
						return ok && DerivesLocal(ms.Len, IsFieldOf("ir.BasicBlock", "Preds"))
					}) {
						sized = true
					}
					if _, ok := v.(*ssa.Slice); ok {
						sized = true // a literal list of edges, one per emitJump in the same function
					}
					if call, ok := v.(*ssa.Call); ok && IsCallTo(call, "builtin.append") {
						sized = true
					}
				}
				_, listed := allowed[top.Name()]
				c.Check(FuncKey(fn)+"::creates-Phi", al.Pos(), sized || listed, "a φ must be created with one edge slot per predecessor of its block (Edges sized by len(Preds), or built next to the jumps that create the predecessors)")
			})
		}
	})
	// R2.6: a block saved from fn.currentBlock in order to emit into it later
	// (the switch header that is completed once the clauses are known) must
	// still be open then. While the saved block is the current block, calling
	// anything that lowers code can terminate it (a tag like `a && b` ends the
	// block with an If and continues in binop.done); emitting into it
	// afterwards puts a second terminator into a finished block and leaves the
	// real current block without one.
	c.Rule("R2.6", func() {
		c.Floor("R2.6", 4)
		isCur := func(v ssa.Value) bool { return IsFieldOf("ir.Function", "currentBlock")(v) }
		// functions that can change the current block (directly or through callees of go/ir)
		changes := map[*ssa.Function]bool{}
		byName := map[string][]*ssa.Function{}
		for _, fn := range funcs {
			byName[fn.Name()] = append(byName[fn.Name()], fn)
			Instrs(fn, false, func(in ssa.Instruction) {
				if st, ok := in.(*ssa.Store); ok && isCur(st.Addr) {
					changes[fn] = true
				}
			})
		}
		calleesOf := func(ci ssa.CallInstruction) []*ssa.Function {
			cc := ci.Common()
			if cc.IsInvoke() {
				return byName[cc.Method.Name()]
			}
			if callee := cc.StaticCallee(); callee != nil {
				return []*ssa.Function{callee}
			}
			return nil
		}
		for changed := true; changed; {
			changed = false
			for _, fn := range funcs {
				if changes[fn] {
					continue
				}
				for _, ci := range Calls(fn, false) {
					for _, callee := range calleesOf(ci) {
						if changes[callee] {
							changes[fn] = true
							changed = true
						}
					}
				}
			}
		}
		reviewed := map[string]string{
			"(*honnef.co/go/tools/go/ir.builder).switchStmt::saved-block::b.expr(fn, cond)": "the case expressions lowered while the header block is current are constants (the `dynamic` test above sends every other switch to switchStmtDynamic), and b.expr emits nothing for a constant",
		}
		n := 0
		for _, fn := range funcs {
			// saved blocks: loads of fn.currentBlock that are later stored back into it
			Instrs(fn, false, func(in ssa.Instruction) {
				ld, ok := in.(*ssa.UnOp)
				if !ok || ld.Op != token.MUL || !isCur(ld.X) {
					return
				}
				var restores []ssa.Instruction
				var uses []ssa.Instruction // emission into the saved block
				Instrs(fn, false, func(x ssa.Instruction) {
					switch x := x.(type) {
					case *ssa.Store:
						if isCur(x.Addr) && x.Val == ssa.Value(ld) {
							restores = append(restores, x)
							uses = append(uses, x)
						}
					case *ssa.Call:
						name := CalleeName(&x.Call)
						if (name == irPkg+".BasicBlock.emit" || name == irPkg+".addEdge") && len(x.Call.Args) > 0 && x.Call.Args[0] == ssa.Value(ld) {
							uses = append(uses, x)
						}
					}
				})
				if len(restores) == 0 {
					return
				}
				n++
				name := "block"
				if refs := ld.Referrers(); refs != nil {
					for _, r := range *refs {
						if dr, ok := r.(*ssa.DebugRef); ok {
							_ = dr
						}
					}
				}
				if id := c.IdentAt(ld.Pos()); id != "" {
					name = id
				}
				// instructions at which the saved block may be the current block
				inRegion := map[ssa.Instruction]bool{}
				var walk func(from ssa.Instruction)
				seenStart := map[ssa.Instruction]bool{}
				walk = func(from ssa.Instruction) {
					if seenStart[from] {
						return
					}
					seenStart[from] = true
					type pos struct {
						b *ssa.BasicBlock
						i int
					}
					visited := map[*ssa.BasicBlock]bool{}
					queue := []pos{{from.Block(), InstrIndex(from) + 1}}
					for len(queue) > 0 {
						q := queue[0]
						queue = queue[1:]
						stop := false
						for k := q.i; k < len(q.b.Instrs); k++ {
							x := q.b.Instrs[k]
							if st, ok := x.(*ssa.Store); ok && isCur(st.Addr) {
								stop = true // the current block changes here (a restore starts its own walk)
								break
							}
							inRegion[x] = true
						}
						if stop {
							continue
						}
						for _, succ := range q.b.Succs {
							if !visited[succ] {
								visited[succ] = true
								queue = append(queue, pos{succ, 0})
							}
						}
					}
				}
				walk(ld)
				for _, r := range restores {
					walk(r)
				}
				bad := map[string]ssa.Instruction{}
				Instrs(fn, false, func(x ssa.Instruction) {
					ci, ok := x.(ssa.CallInstruction)
					if !ok || !inRegion[x] {
						return
					}
					lowering := false
					for _, callee := range calleesOf(ci) {
						if changes[callee] {
							lowering = true
						}
					}
					if !lowering {
						return
					}
					for _, u := range uses {
						if ReachesFrom(fn, x, u) {
							bad[c.CallText(x.Pos())] = x
							break
						}
					}
				})
				key := FuncKey(fn) + "::saved-block"
				if len(bad) == 0 {
					c.Check(key+"::saved-block-still-open", ld.Pos(), true, "nothing that can end the block runs while the saved block is current and before it is emitted into again")
					return
				}
				for _, callee := range SortedKeys(bad) {
					k := key + "::" + callee
					if why, ok := reviewed[k]; ok {
						c.CheckTrivial(k+"::saved-block-still-open", bad[callee].Pos(), true, "reviewed: %s", why)
						continue
					}
					c.Check(k+"::saved-block-still-open", bad[callee].Pos(), false, "the block saved in %q is the current block when %s runs, which can terminate it and continue in a new block; the saved block is emitted into again afterwards (second terminator in a finished block, the new block left open). Save the block after lowering, or emit into fn.currentBlock", name, callee)
				}
			})
		}
		if n < 4 {
			c.Undecided("found only %d saved-and-restored current blocks in the builder", n)
		}
	})
	// R2.7: the block optimisations run before lifting, when φ-nodes exist only
	// where the builder put them (&&/||, go1.22 loop variables). Threading a
	// jump into a φ-block, or fusing a φ-block into its predecessor, changes
	// which value the φ selects (or leaves a φ in the middle of a block). Both
	// optimisations must therefore give up — before any edit — when the block
	// concerned has φ-nodes.
	c.Rule("R2.7", func() { phiBlockGuardObligations(c, funcs) })
	_ = token.NoPos
}

// phiBlockGuardObligations (shared by C02 R2.7 and C01 R1.6).
func phiBlockGuardObligations(c *Ctx, funcs []*ssa.Function) {
	isMutation := func(in ssa.Instruction) bool {
		switch x := in.(type) {
		case *ssa.Store:
			return IsFieldOf("ir.BasicBlock", "Preds")(x.Addr) || IsFieldOf("ir.BasicBlock", "Succs")(x.Addr) || IsFieldOf("ir.BasicBlock", "Instrs")(x.Addr) ||
				AddrFrom(x.Addr, IsFieldOf("ir.Function", "Blocks")) || AddrFrom(x.Addr, IsFieldOf("ir.BasicBlock", "Instrs"))
		case *ssa.Call:
			switch CalleeName(&x.Call) {
			case irPkg + ".BasicBlock.replacePred", irPkg + ".BasicBlock.replaceSucc", irPkg + ".BasicBlock.removePred":
				return true
			}
		}
		return false
	}
	n := 0
	for _, name := range []string{"jumpThreading", "fuseBlocks"} {
		fn := c.Func("go/ir", name)
		guards := CallsTo(fn, false, irPkg+".BasicBlock.hasPhi")
		mutates := false
		Instrs(fn, false, func(in ssa.Instruction) {
			if isMutation(in) {
				mutates = true
			}
		})
		if !mutates {
			c.Undecided("%s no longer edits the control-flow graph", name)
		}
		n++
		c.Check(FuncKey(fn)+"::gives-up-on-phi-blocks", fn.Pos(), len(guards) > 0, "%s edits predecessor lists / splices blocks and must first test hasPhi() on the block concerned", name)
		for _, g := range guards {
			call := g.(*ssa.Call)
			hasPhiTrue := CallTrueEdges(fn, func(x *ssa.Call) bool { return x == call })
			// from the point where hasPhi() returned true, no edit may be reachable: search from the call, cutting the false edges
			falseEdges := ComplementEdges(hasPhiTrue)
			t, path := PathAvoiding(fn, call, isMutation, nil, falseEdges)
			n++
			c.Check(FuncKey(fn)+"::no-edit-once-a-phi-was-seen", call.Pos(), t == nil && len(hasPhiTrue) > 0, "after hasPhi() answered true for the block, %s must return without editing the graph (a φ selects its value by predecessor position; threading into or fusing a φ-block changes the selection or strands the φ mid-block); path to an edit: %s", name, PathString(fn, path))
		}
	}
	_ = n
}
