package props

import (
	"go/token"
	"go/types"
	"strings"

	"golang.org/x/tools/go/ssa"

	. "verif/checker/engine"
)

// reportSites: functions other than report.Report that may call pass.Report/Reportf directly.
var reportSites = map[string]string{
	Module + "/internal/sharedcheck.CheckRangeStringRunes$1": "reports at the position of the range statement's expression via Reportf (no end position, no fixes)",
	Module + "/internal/sharedcheck.CheckRangeStringRunes":   "reports at the position of the range statement's expression via Reportf (no end position, no fixes)",
}

func init() {
	Register(&Property{
		ID:       "C16",
		Patterns: []string{"./..."},
		NeedSSA:  true,
		Explanation: "Decides the structural part of position/fix plumbing (narrow): analysis.Diagnostic values are built only in report.Report (plus one listed site), with Pos and End taken from one getRange call, and getRange/ shortRange derive start and end from the same node (R16.1); every analysis.TextEdit built in the module takes Pos and End from the same ranger value (or End = Pos + a length) (R16.2); " +
			"the runner converts all six token.Pos values of a diagnostic (diagnostic, related information, text edits; start and end) with report.DisplayPosition and the package's own file set, each target field from its matching source field (R16.3); suggested fixes are forwarded unchanged from the options to the diagnostic (R16.4). " +
			"It does NOT decide that edits parse, type-check or preserve behaviour, that manually built edit.Range{a, b} pairs are ordered and lie in one file, or anything about the replacement text." +
			" Also decided: the functions that render syntax with go/format hand the printer's output on verbatim (no line folding, trimming or replacing of text that is spliced into fixes)." +
			" Also decided: code.MayHaveSideEffects never answers 'no' on a path that skipped an operand its clause examines elsewhere; astutil.Equal pairs every part of a with the same part of b and compares every child that holds syntax (the gate and the equality used by the rewrites that merge or duplicate expressions).",
		RuleText:    "who-may-construct / who-may-call rules over the whole module; value-origin pairing of Pos/End on SSA",
		Assumptions: []string{"for an ast.Node n, n.Pos() <= n.End() and both lie in n's file"},
		Run:         runC16,
		Configs:     []string{"linux/amd64"},
		Mutants: []Mutant{
			{Name: "equal-compares-b-with-itself", File: "go/ast/astutil/util.go", Rule: "R16.7", KeyPart: "CompositeLit::Elts[]-of-a-compared-with-the-same-part-of-b",
				Old: "\t\tfor i, elt := range a.Elts {\n\t\t\tif !Equal(elt, b.Elts[i]) {", New: "\t\tfor i, elt := range b.Elts {\n\t\t\tif !Equal(elt, b.Elts[i]) {"},
			{Name: "equal-forgets-a-child", File: "go/ast/astutil/util.go", Rule: "R16.7", KeyPart: "IndexExpr.Index-compared",
				Old: "\t\treturn Equal(a.X, b.X) && Equal(a.Index, b.Index)\n", New: "\t\treturn Equal(a.X, b.X)\n"},
			{Name: "conversions-count-as-free-of-side-effects", File: "analysis/code/code.go", Rule: "R16.6", KeyPart: "go/ast.CallExpr::Args-examined-before-a-no-answer",
				Old: "\t\tif purity == nil {\n\t\t\treturn true\n\t\t}\n\t\tswitch obj := typeutil.Callee(pass.TypesInfo, expr).(type) {", New: "\t\tif purity == nil {\n\t\t\ttv, ok := pass.TypesInfo.Types[expr.Fun]\n\t\t\treturn !ok || !tv.IsType()\n\t\t}\n\t\tswitch obj := typeutil.Callee(pass.TypesInfo, expr).(type) {"},
			{Name: "slice-bounds-not-examined", File: "analysis/code/code.go", Rule: "R16.6", KeyPart: "SliceExpr",
				Old: "\t\treturn MayHaveSideEffects(pass, expr.X, purity) ||\n\t\t\tMayHaveSideEffects(pass, expr.Low, purity) ||", New: "\t\tif expr.Low == nil && expr.High == nil {\n\t\t\treturn false\n\t\t}\n\t\treturn MayHaveSideEffects(pass, expr.X, purity) ||\n\t\t\tMayHaveSideEffects(pass, expr.Low, purity) ||"},
			{Name: "render-folds-lines", File: "analysis/report/report.go", Rule: "R16.5", KeyPart: "report.Render::printed-source-handed-on-verbatim",
				Old: "\treturn buf.String()\n}\n\nfunc RenderArgs", New: "\treturn strings.Join(strings.Fields(buf.String()), \" \")\n}\n\nfunc RenderArgs"},
			{Name: "replacement-text-trimmed", File: "analysis/edit/edit.go", Rule: "R16.5", KeyPart: "edit.ReplaceWithNode::printed-source-handed-on-verbatim",
				Old: "\t\tPos:     old.Pos(),\n\t\tEnd:     old.End(),\n\t\tNewText: buf.Bytes(),\n\t}\n}\n\n// ReplaceWithPattern", New: "\t\tPos:     old.Pos(),\n\t\tEnd:     old.End(),\n\t\tNewText: bytes.ReplaceAll(buf.Bytes(), []byte(\"\\n\"), []byte(\" \")),\n\t}\n}\n\n// ReplaceWithPattern"},
			{Name: "check-builds-diagnostic-itself", File: "stylecheck/st1003/st1003.go", Rule: "R16.1", KeyPart: "st1003",
				Old: "\tinitialisms := make(map[string]bool, len(il))", New: "\tpass.Report(analysis.Diagnostic{Pos: pass.Files[0].Package, End: pass.Files[0].Name.NamePos, Message: \"x\"})\n\tinitialisms := make(map[string]bool, len(il))"},
			{Name: "report-end-from-other-node", File: "analysis/report/report.go", Rule: "R16.1", KeyPart: "report.Report",
				Old: "\td := analysis.Diagnostic{\n\t\tPos:            pos,\n\t\tEnd:            end,", New: "\t_ = end\n\td := analysis.Diagnostic{\n\t\tPos:            pos,\n\t\tEnd:            node.Pos(),"},
			{Name: "getrange-mixes-nodes", File: "analysis/report/report.go", Rule: "R16.1", KeyPart: "getRange",
				Old: "\t\treturn s.Pos(), s.End(), true\n\tcase fullPositioner:", New: "\t\treturn node.Pos(), s.End(), true\n\tcase fullPositioner:"},
			{Name: "edit-end-from-other-ranger", File: "analysis/edit/edit.go", Rule: "R16.2", KeyPart: "ReplaceWithNode",
				Old: "func ReplaceWithNode(fset *token.FileSet, old Ranger, new ast.Node) analysis.TextEdit {\n\tbuf := &bytes.Buffer{}\n\tif err := format.Node(buf, fset, new); err != nil {\n\t\tpanic(\"internal error: \" + err.Error())\n\t}\n\treturn analysis.TextEdit{\n\t\tPos:     old.Pos(),\n\t\tEnd:     old.End(),",
				New: "func ReplaceWithNode(fset *token.FileSet, old Ranger, new ast.Node) analysis.TextEdit {\n\tbuf := &bytes.Buffer{}\n\tif err := format.Node(buf, fset, new); err != nil {\n\t\tpanic(\"internal error: \" + err.Error())\n\t}\n\treturn analysis.TextEdit{\n\t\tPos:     old.Pos(),\n\t\tEnd:     new.End(),"},
			{Name: "delete-swaps-pos-end", File: "analysis/edit/edit.go", Rule: "R16.2", KeyPart: "Delete",
				Old: "func Delete(old Ranger) analysis.TextEdit {\n\treturn analysis.TextEdit{\n\t\tPos:     old.Pos(),\n\t\tEnd:     old.End(),", New: "func Delete(old Ranger) analysis.TextEdit {\n\treturn analysis.TextEdit{\n\t\tPos:     old.End(),\n\t\tEnd:     old.Pos(),"},
			{Name: "runner-edit-end-uses-pos", File: "lintcmd/runner/runner.go", Rule: "R16.3", KeyPart: "TextEdit.End",
				Old: "\t\t\t\t\t\t\tEnd:      report.DisplayPosition(ar.pkg.Fset, edit.End),", New: "\t\t\t\t\t\t\tEnd:      report.DisplayPosition(ar.pkg.Fset, edit.Pos),"},
			{Name: "runner-related-raw-position", File: "lintcmd/runner/runner.go", Rule: "R16.3", KeyPart: "RelatedInformation.Position",
				Old: "\t\t\t\t\t\tPosition: report.DisplayPosition(ar.pkg.Fset, rel.Pos),", New: "\t\t\t\t\t\tPosition: ar.pkg.Fset.PositionFor(rel.Pos, false),"},
			{Name: "report-drops-fixes", File: "analysis/report/report.go", Rule: "R16.4", KeyPart: "SuggestedFixes",
				Old: "\t\tSuggestedFixes: cfg.Fixes,\n", New: ""},
		},
	})
}

// posEndReceivers returns the receivers of the Pos()/End() calls (by method
// name) a token.Pos value derives from.
func posEndReceivers(v ssa.Value) map[string][]ssa.Value {
	return posEndReceiversDepth(v, 0)
}

func posEndReceiversDepth(v ssa.Value, depth int) map[string][]ssa.Value {
	out := map[string][]ssa.Value{}
	for x := range BackSlice(v, SliceOpts{}) {
		// a helper of the module that returns positions of one of its parameters: bounds(r) = r.Pos(), r.End()
		if depth < 2 {
			var hcall *ssa.Call
			idx := 0
			switch y := x.(type) {
			case *ssa.Extract:
				hcall, _ = y.Tuple.(*ssa.Call)
				idx = y.Index
			case *ssa.Call:
				if _, isTuple := y.Type().(*types.Tuple); !isTuple {
					hcall = y
				}
			}
			if hcall != nil {
				if callee := hcall.Call.StaticCallee(); callee != nil && FuncInModule(callee) && callee.Blocks != nil && callee.Signature.Recv() == nil {
					for _, r := range Returns(callee) {
						if idx >= len(r.Results) {
							continue
						}
						for name, recvs := range posEndReceiversDepth(ReturnOperand(r, idx), depth+1) {
							for _, rv := range recvs {
								for pi, prm := range callee.Params {
									if rv == ssa.Value(prm) && pi < len(hcall.Call.Args) {
										out[name] = append(out[name], hcall.Call.Args[pi])
									}
								}
							}
						}
					}
				}
			}
		}
		call, ok := x.(*ssa.Call)
		if !ok {
			continue
		}
		name := ""
		var recv ssa.Value
		if call.Call.IsInvoke() {
			name, recv = call.Call.Method.Name(), call.Call.Value
		} else if callee := call.Call.StaticCallee(); callee != nil && callee.Signature.Recv() != nil && len(call.Call.Args) > 0 {
			name, recv = callee.Name(), call.Call.Args[0]
		}
		if name == "Pos" || name == "End" {
			out[name] = append(out[name], recv)
		}
	}
	return out
}

func sameValue(a, b ssa.Value) bool {
	if a == b {
		return true
	}
	return AccessPath(a) == AccessPath(b) && !strings.HasPrefix(AccessPath(a), "?")
}

func runC16(c *Ctx) {
	linked := linkedPackages(c)
	var funcs []*ssa.Function
	for _, fn := range c.ModuleFuncs() {
		p := FuncPkgPath(fn)
		if linked[p] && len(fn.Blocks) > 0 && !strings.Contains(p, "/internal/xtools-internal") {
			funcs = append(funcs, fn)
		}
	}
	report := c.Func("analysis/report", "Report")

	// unexported helpers of package report that only Report (or another such helper) calls are part of Report
	reportHelpers := map[*ssa.Function]bool{}
	for _, h := range DeepFuncs(report, 2) {
		if h == report || h.Parent() != nil || h.Object() == nil || h.Object().Exported() {
			continue
		}
		onlyFromReport := true
		for _, fn := range funcs {
			top := fn
			for top.Parent() != nil {
				top = top.Parent()
			}
			if top == report || top == h {
				continue
			}
			for _, ci := range Calls(fn, false) {
				if ci.Common().StaticCallee() == h && !reportHelpers[top] {
					onlyFromReport = false
				}
			}
		}
		if onlyFromReport {
			reportHelpers[h] = true
		}
	}
	// the value stored to a field of the diagnostic, seen from Report: a helper's parameter is replaced by
	// the argument Report passes
	reportStored := func(typ, field string) []ssa.Value {
		var out []ssa.Value
		for _, f := range append([]*ssa.Function{report}, SortedFuncs(reportHelpers)...) {
			for _, v := range storedToField(f, typ, field) {
				if prm, ok := v.(*ssa.Parameter); ok && f != report {
					for pi, q := range f.Params {
						if q != prm {
							continue
						}
						for _, g := range DeepFuncs(report, 2) {
							for _, ci := range Calls(g, false) {
								if ci.Common().StaticCallee() == f && pi < len(ci.Common().Args) {
									out = append(out, ci.Common().Args[pi])
								}
							}
						}
					}
					continue
				}
				out = append(out, v)
			}
		}
		return out
	}

	c.Rule("R16.1", func() {
		c.Floor("R16.1", 4)
		nLit, nCall := 0, 0
		for _, fn := range funcs {
			top := fn
			for top.Parent() != nil {
				top = top.Parent()
			}
			Instrs(fn, false, func(in ssa.Instruction) {
				if al, ok := in.(*ssa.Alloc); ok && strings.HasSuffix(al.Type().String(), "*golang.org/x/tools/go/analysis.Diagnostic") && buildsStruct(al) {
					nLit++
					c.Check(FuncKey(fn)+"::builds-analysis.Diagnostic", al.Pos(), top == report || reportHelpers[top], "diagnostics are built in one place, report.Report, which applies the range, version and generated-file rules; a check that builds its own bypasses them")
				}
				call, ok := in.(*ssa.Call)
				if !ok || call.Call.IsInvoke() {
					return
				}
				if DerivesLocal(call.Call.Value, IsFieldOf("analysis.Pass", "Report")) || DerivesLocal(call.Call.Value, IsFieldOf("analysis.Pass", "Reportf")) {
					nCall++
					_, listed := reportSites[fn.String()]
					c.Check(FuncKey(fn)+"::calls-pass.Report", call.Pos(), top == report || reportHelpers[top] || listed, "pass.Report/Reportf may be called only by report.Report and the listed sites")
				}
			})
		}
		if nLit == 0 || nCall == 0 {
			c.Undecided("no construction of analysis.Diagnostic / call of pass.Report found")
		}
		// Pos and End of the literal in Report come from one getRange call
		var posV, endV ssa.Value
		for _, v := range reportStored("analysis.Diagnostic", "Pos") {
			posV = v
		}
		for _, v := range reportStored("analysis.Diagnostic", "End") {
			endV = v
		}
		one := false
		if pe, ok := posV.(*ssa.Extract); ok {
			if ee, ok := endV.(*ssa.Extract); ok {
				if call, ok := pe.Tuple.(*ssa.Call); ok && pe.Tuple == ee.Tuple && IsCallTo(call, reportPkg+".getRange") && pe.Index == 0 && ee.Index == 1 {
					// and the node is Report's node parameter
					one = DerivesLocal(call.Call.Args[0], func(v ssa.Value) bool { return v == ssa.Value(report.Params[1]) })
				}
			}
		}
		c.Check(FuncKey(report)+"::Pos-and-End-from-one-getRange", report.Pos(), one, "the diagnostic's Pos and End are the two results of one getRange(node, …) call on the reported node, so they belong to the same node")
		// getRange / shortRange: start and end from the same value
		for _, name := range []string{"getRange", "shortRange"} {
			fn := c.Func("analysis/report", name)
			bad := ""
			for _, r := range Returns(fn) {
				if len(r.Results) < 2 {
					continue
				}
				pr, er := nodeRoots(ReturnOperand(r, 0)), nodeRoots(ReturnOperand(r, 1))
				if len(pr) == 0 || len(er) == 0 {
					continue // a constant (NoPos)
				}
				same := len(pr) == 1 && len(er) == 1
				for x := range pr {
					if !er[x] {
						same = false
					}
				}
				if !same {
					bad = c.PosStr(r.Pos())
				}
			}
			c.Check(FuncKey(fn)+"::start-and-end-from-the-same-node", fn.Pos(), bad == "", "every return of %s derives start and end from the same node (offending return at %s)", name, bad)
		}
	})

	c.Rule("R16.2", func() {
		c.Floor("R16.2", 8)
		n := 0
		for _, fn := range funcs {
			Instrs(fn, false, func(in ssa.Instruction) {
				al, ok := in.(*ssa.Alloc)
				if !ok || al.Comment != "complit" {
					return
				}
				t := al.Type().String()
				if !strings.HasSuffix(t, "*golang.org/x/tools/go/analysis.TextEdit") {
					return
				}
				var posV, endV ssa.Value
				for _, r := range *al.Referrers() {
					fa, ok := r.(*ssa.FieldAddr)
					if !ok {
						continue
					}
					_, f := FieldOf(fa.X.Type(), fa.Field)
					for _, rr := range *fa.Referrers() {
						if st, ok := rr.(*ssa.Store); ok && st.Addr == fa {
							switch f.Name() {
							case "Pos":
								posV = st.Val
							case "End":
								endV = st.Val
							}
						}
					}
				}
				if posV == nil {
					return
				}
				n++
				key := FuncKey(fn) + "::TextEdit#" + itoa(ordinalIn(fn, al))
				if endV == nil {
					c.Check(key, al.Pos(), false, "a TextEdit without End")
					return
				}
				p, e := posEndReceivers(posV), posEndReceivers(endV)
				ok2 := false
				why := ""
				switch {
				case len(p["Pos"]) == 1 && len(p["End"]) == 0 && len(e["End"]) == 1 && len(e["Pos"]) == 0:
					ok2 = sameValue(p["Pos"][0], e["End"][0])
					why = "Pos from x.Pos(), End from y.End() with x != y"
				case len(p["Pos"]) == 1 && len(e["Pos"]) == 1 && len(e["End"]) == 0 && len(p["End"]) == 0:
					// End = Pos + length
					ok2 = sameValue(p["Pos"][0], e["Pos"][0])
					why = "Pos and End are offsets from different Pos() values"
					if ok2 {
						// End must add at least what Pos adds: End's slice contains Pos's value or the same offset
						ok2 = DerivesLocal(endV, func(v ssa.Value) bool { bo, ok := v.(*ssa.BinOp); return ok && bo.Op == token.ADD })
						why = "End is not Pos plus a length"
					}
				default:
					why = "Pos must come from a single x.Pos() and End from the same x's End() (or be Pos plus a length)"
				}
				c.Check(key, al.Pos(), ok2, "a text edit's range must come from one ranger so that End does not precede Pos and both lie in one file: %s", why)
			})
		}
		if n < 8 {
			c.Undecided("found only %d analysis.TextEdit literals", n)
		}
	})

	c.Rule("R16.3", func() {
		c.Floor("R16.3", 6)
		ardo := c.Func("lintcmd/runner", "(*analyzerRunner).do")
		var rep *ssa.Function
		for _, an := range ardo.AnonFuncs {
			if len(storedToField(an, "runner.Diagnostic", "Position")) > 0 {
				rep = an
			}
		}
		if rep == nil {
			c.Undecided("the Report closure of (*analyzerRunner).do was not found")
		}
		pairs := []struct{ typ, field, srcTyp, srcField string }{
			{"runner.Diagnostic", "Position", "analysis.Diagnostic", "Pos"},
			{"runner.Diagnostic", "End", "analysis.Diagnostic", "End"},
			{"runner.TextEdit", "Position", "analysis.TextEdit", "Pos"},
			{"runner.TextEdit", "End", "analysis.TextEdit", "End"},
			{"runner.RelatedInformation", "Position", "analysis.RelatedInformation", "Pos"},
			{"runner.RelatedInformation", "End", "analysis.RelatedInformation", "End"},
		}
		for _, p := range pairs {
			vals := storedToField(rep, p.typ, p.field)
			ok := len(vals) > 0
			why := "no store found"
			for _, v := range vals {
				fsetV, posV, isDisp := displayCall(v)
				if !isDisp {
					ok, why = false, "not computed by report.DisplayPosition"
					continue
				}
				if !Derives(fsetV, IsFieldOf("loader.Package", "Fset")) {
					ok, why = false, "not the loaded package's file set"
				}
				src := DerivesLocal(posV, IsFieldOf(p.srcTyp, p.srcField))
				other := "End"
				if p.srcField == "End" {
					other = "Pos"
				}
				if !src || DerivesLocal(posV, IsFieldOf(p.srcTyp, other)) {
					ok, why = false, "converted from the wrong source field"
				}
			}
			c.Check(FuncKey(ardo)+"::"+p.typ+"."+p.field, rep.Pos(), ok, "%s.%s must be report.DisplayPosition(pkg.Fset, %s.%s): all positions of a problem are resolved the same (//line-aware) way and each from its own source field (%s)", p.typ, p.field, p.srcTyp, p.srcField, why)
		}
	})

	c.Rule("R16.4", func() {
		c.Floor("R16.4", 2)
		fx := false
		for _, v := range reportStored("analysis.Diagnostic", "SuggestedFixes") {
			if DerivesLocal(v, IsFieldOf("report.Options", "Fixes")) {
				fx = true
			}
		}
		c.Check(FuncKey(report)+"::SuggestedFixes-forwarded", report.Pos(), fx, "the fixes a check attaches with report.Fixes reach the diagnostic unchanged")
		rel := false
		for _, v := range reportStored("analysis.Diagnostic", "Related") {
			if DerivesLocal(v, IsFieldOf("report.Options", "Related")) {
				rel = true
			}
		}
		c.Check(FuncKey(report)+"::Related-forwarded", report.Pos(), rel, "related information reaches the diagnostic unchanged")
	})

	// R16.5: source text rendered from syntax is handed on verbatim. The
	// functions that render an AST node with go/format (report.Render for text
	// that checks splice into fixes, the edit helpers for replacement text)
	// return what the printer wrote. go/printer guarantees that its output
	// parses back; any textual post-processing that is not token-aware
	// (folding lines, trimming, replacing) can join two statements or two
	// fields and yields fixes that no longer parse.
	c.Rule("R16.5", func() {
		c.Floor("R16.5", 5)
		rewriterPkgs := map[string]bool{"strings": true, "bytes": true, "regexp": true, "unicode": true, "text/template": true}
		harmless := map[string]bool{
			"bytes.Buffer.String": true, "bytes.Buffer.Bytes": true, "bytes.Buffer.Len": true, "strings.Builder.String": true,
			"strings.Builder.WriteString": true, "bytes.Buffer.WriteString": true, "bytes.Buffer.Write": true, "strings.Builder.Write": true,
			"bytes.Clone": true, "strings.Clone": true, "bytes.NewReader": true, "strings.NewReader": true, "bytes.NewBuffer": true, "bytes.NewBufferString": true,
		}
		isRewriter := func(cc *ssa.CallCommon) (string, bool) {
			name := CalleeName(cc)
			if harmless[name] {
				return "", false
			}
			i := strings.Index(name, ".")
			if i < 0 {
				return "", false
			}
			pkg := name[:i]
			if strings.HasPrefix(name, "text/template.") {
				pkg = "text/template"
			}
			return name, rewriterPkgs[pkg]
		}
		// module functions that rewrite the text they are given: a rewriter is applied to something derived from a parameter
		rewrites := func(g *ssa.Function) string {
			if g == nil || len(g.Blocks) == 0 {
				return ""
			}
			found := ""
			for _, ci := range Calls(g, true) {
				name, bad := isRewriter(ci.Common())
				if !bad {
					continue
				}
				for _, a := range CallArgs(ci.Common()) {
					if Derives(a, func(v ssa.Value) bool { _, ok := v.(*ssa.Parameter); return ok }) {
						found = name
					}
				}
			}
			return found
		}
		n := 0
		for _, fn := range c.ModuleFuncs() {
			pp := FuncPkgPath(fn)
			if pp != Module+"/analysis/report" && pp != Module+"/analysis/edit" && pp != Module+"/analysis/code" {
				continue
			}
			for _, ci := range CallsTo(fn, false, "go/format.Node") {
				n++
				w := ci.Common().Args[0]
				// the buffer the printer writes to
				isBuf := func(v ssa.Value) bool {
					al, ok := v.(*ssa.Alloc)
					return ok && SliceHas(w, SliceOpts{}, func(x ssa.Value) bool { return x == ssa.Value(al) })
				}
				bad := ""
				var badPos = ci.Pos()
				// everything computed from the buffer's contents
				for _, rc := range Calls(fn, false) {
					call, ok := rc.(*ssa.Call)
					if !ok {
						continue
					}
					cn := CalleeName(&call.Call)
					if cn != "bytes.Buffer.String" && cn != "bytes.Buffer.Bytes" && cn != "strings.Builder.String" {
						continue
					}
					if !Derives(call.Call.Args[0], isBuf) {
						continue
					}
					for use := range ForwardFlow(call) {
						uc, ok := use.(ssa.CallInstruction)
						if !ok {
							continue
						}
						if name, isBad := isRewriter(uc.Common()); isBad {
							bad, badPos = name, uc.Pos()
						}
						if g := uc.Common().StaticCallee(); g != nil && FuncInModule(g) {
							if r := rewrites(g); r != "" {
								bad, badPos = g.Name()+" (applies "+r+")", uc.Pos()
							}
						}
					}
				}
				c.Check(FuncKey(fn)+"::printed-source-handed-on-verbatim", badPos, bad == "", "what go/format printed for a syntax node must be returned as it is: it is spliced into suggested fixes, and go/printer's output is only guaranteed to parse if its white space (which separates statements and fields) is left alone; here it is passed through %s", bad)
			}
		}
		if n < 5 {
			c.Undecided("found only %d calls of go/format.Node in the report/edit/code helpers", n)
		}
	})

	// R16.6: code.MayHaveSideEffects is the gate in front of every rewrite that
	// changes how often an operand is evaluated (QF1002/3/5, S1001/9/36, …). It
	// may answer "no side effects" for a composite expression only after it has
	// looked at the operands: within one clause of its type switch, no path to
	// a result other than the constant true may skip an operand that the clause
	// examines on its other paths (a conversion T(f()) is a CallExpr whose
	// argument still runs f).
	c.Rule("R16.6", func() {
		c.Floor("R16.6", 8)
		fn := c.Func("analysis/code", "MayHaveSideEffects")
		if len(fn.Params) < 2 {
			c.Undecided("MayHaveSideEffects changed its signature")
		}
		exprParam := fn.Params[1]
		n := 0
		Instrs(fn, false, func(in ssa.Instruction) {
			ta, ok := in.(*ssa.TypeAssert)
			if !ok || !ta.CommaOk || ta.X != ssa.Value(exprParam) {
				return
			}
			var tv ssa.Value
			if refs := ta.Referrers(); refs != nil {
				for _, r := range *refs {
					if ex, ok := r.(*ssa.Extract); ok && ex.Index == 0 {
						tv = ex
					}
				}
			}
			if tv == nil {
				return
			}
			succ := CondEdges(fn, func(cond ssa.Value) (bool, bool) {
				ex, ok := cond.(*ssa.Extract)
				return ok && ex.Tuple == ssa.Value(ta) && ex.Index == 1, true
			})
			// loads of the node's fields, and the fields handed to recursive calls
			fieldLoads := map[string][]ssa.Instruction{}
			Instrs(fn, false, func(x ssa.Instruction) {
				ld, ok := x.(*ssa.UnOp)
				if !ok || ld.Op != token.MUL {
					return
				}
				fa, ok := ld.X.(*ssa.FieldAddr)
				if !ok || !Derives(fa.X, func(v ssa.Value) bool { return v == tv }) {
					return
				}
				if _, f := FieldOf(fa.X.Type(), fa.Field); f != nil {
					fieldLoads[f.Name()] = append(fieldLoads[f.Name()], ld)
				}
			})
			examined := map[string]bool{}
			for _, ci := range Calls(fn, false) {
				if ci.Common().StaticCallee() != fn || len(ci.Common().Args) < 2 {
					continue
				}
				for name, lds := range fieldLoads {
					for _, ld := range lds {
						if Derives(ci.Common().Args[1], func(v ssa.Value) bool { return v == ld.(ssa.Value) }) {
							examined[name] = true
						}
					}
				}
			}
			if len(examined) == 0 {
				return
			}
			for _, r := range Returns(fn) {
				if inClause, _ := MustPassEdges(fn, r, succ); !inClause || len(succ) == 0 {
					continue
				}
				// the places where a result other than the constant true is decided: the return itself, or, for
				// `a || b` (a φ of true and b), the end of the predecessor that contributes the non-true value
				type site struct{ at ssa.Instruction }
				var sites []ssa.Instruction
				var expand func(v ssa.Value, at ssa.Instruction, depth int)
				expand = func(v ssa.Value, at ssa.Instruction, depth int) {
					if isBoolConst(v, true) {
						return
					}
					if phi, ok := v.(*ssa.Phi); ok && depth < 4 {
						for i, e := range phi.Edges {
							pred := phi.Block().Preds[i]
							expand(e, pred.Instrs[len(pred.Instrs)-1], depth+1)
						}
						return
					}
					sites = append(sites, at)
				}
				expand(ReturnOperand(r, 0), r, 0)
				for _, name := range SortedKeys(examined) {
					n++
					isLoad := func(x ssa.Instruction) bool {
						for _, ld := range fieldLoads[name] {
							if ld == x {
								return true
							}
						}
						return false
					}
					okAll, pathStr := true, ""
					for _, at := range sites {
						if t, path := PathAvoiding(fn, nil, func(x ssa.Instruction) bool { return x == at }, isLoad, nil); t != nil {
							okAll, pathStr = false, PathString(fn, path)
						}
					}
					c.Check(FuncKey(fn)+"::"+TypeString(ta.AssertedType)+"::"+name+"-examined-before-a-no-answer", r.Pos(), okAll, "this result can be 'no side effects' although the operand %s of the %s was never looked at on this path; rewrites that duplicate or drop the expression would then change how often its operand is evaluated; path: %s", name, TypeString(ta.AssertedType), pathStr)
				}
			}
		})
		if n < 8 {
			c.Undecided("found only %d (clause, operand, result) combinations in MayHaveSideEffects", n)
		}
	})

	// R16.7: astutil.Equal decides whether two expressions are "the same" for the
	// rewrites that merge them (QF1002/QF1003 turn if-chains over one tag into a
	// switch, S1017). Every recursive comparison must pair a part of a with the
	// same part of b, and every child of a node kind that can hold an
	// expression must be compared; otherwise different expressions are merged
	// and the rewritten code takes another branch.
	c.Rule("R16.7", func() {
		c.Floor("R16.7", 30)
		eq := c.Func("go/ast/astutil", "Equal")
		if len(eq.Params) != 2 {
			c.Undecided("astutil.Equal changed its signature")
		}
		// root parameter and field path of a value
		var trace func(v ssa.Value, depth int) (root *ssa.Parameter, path string)
		trace = func(v ssa.Value, depth int) (*ssa.Parameter, string) {
			if depth > 12 {
				return nil, ""
			}
			switch x := v.(type) {
			case *ssa.Parameter:
				return x, ""
			case *ssa.UnOp:
				return trace(x.X, depth+1)
			case *ssa.FieldAddr:
				r, p := trace(x.X, depth+1)
				_, f := FieldOf(x.X.Type(), x.Field)
				if f != nil {
					p += "." + f.Name()
				}
				return r, p
			case *ssa.Field:
				r, p := trace(x.X, depth+1)
				_, f := FieldOf(x.X.Type(), x.Field)
				if f != nil {
					p += "." + f.Name()
				}
				return r, p
			case *ssa.IndexAddr:
				r, p := trace(x.X, depth+1)
				return r, p + "[]"
			case *ssa.Index:
				r, p := trace(x.X, depth+1)
				return r, p + "[]"
			case *ssa.TypeAssert:
				return trace(x.X, depth+1)
			case *ssa.Extract:
				return trace(x.Tuple, depth+1)
			case *ssa.MakeInterface:
				return trace(x.X, depth+1)
			case *ssa.ChangeInterface:
				return trace(x.X, depth+1)
			case *ssa.ChangeType:
				return trace(x.X, depth+1)
			case *ssa.Phi:
				// a range loop's element: all edges agree on root and path
				var r0 *ssa.Parameter
				p0 := ""
				for _, e := range x.Edges {
					r, p := trace(e, depth+1)
					if r != nil {
						r0, p0 = r, p
					}
				}
				return r0, p0
			case *ssa.Next, *ssa.Range:
				return nil, ""
			}
			return nil, ""
		}
		a, b := eq.Params[0], eq.Params[1]
		compared := map[string]map[string]bool{} // node type -> fields compared
		nPairs := 0
		clauseOf := func(in ssa.Instruction) string {
			// the case clause: the concrete type a was asserted to on the way
			best := ""
			Instrs(eq, false, func(x ssa.Instruction) {
				ta, ok := x.(*ssa.TypeAssert)
				if !ok || !ta.CommaOk || ta.X != ssa.Value(a) {
					return
				}
				succ := CondEdges(eq, func(cond ssa.Value) (bool, bool) {
					ex, ok := cond.(*ssa.Extract)
					return ok && ex.Tuple == ssa.Value(ta) && ex.Index == 1, true
				})
				if ok, _ := MustPassEdges(eq, in, succ); ok && len(succ) > 0 {
					best = TypeString(ta.AssertedType)
				}
			})
			return best
		}
		note := func(clause, pathA string) {
			if clause == "" {
				return
			}
			if compared[clause] == nil {
				compared[clause] = map[string]bool{}
			}
			f := strings.TrimPrefix(pathA, ".")
			if i := strings.IndexAny(f, ".["); i >= 0 {
				f = f[:i]
			}
			compared[clause][f] = true
		}
		Instrs(eq, false, func(in ssa.Instruction) {
			var x, y ssa.Value
			switch t := in.(type) {
			case *ssa.Call:
				callee := t.Call.StaticCallee()
				if callee == nil || FuncPkgPath(callee) != FuncPkgPath(eq) || len(t.Call.Args) != 2 {
					return
				}
				x, y = t.Call.Args[0], t.Call.Args[1]
			case *ssa.BinOp:
				if t.Op != token.EQL && t.Op != token.NEQ {
					return
				}
				x, y = t.X, t.Y
			default:
				return
			}
			rx, px := trace(x, 0)
			ry, py := trace(y, 0)
			if rx == nil || ry == nil || px == "" {
				return
			}
			if rx == b && ry == a {
				rx, ry, px, py = ry, rx, py, px
			}
			nPairs++
			cl := clauseOf(in)
			okPair := rx == a && ry == b && px == py
			c.Check(FuncKey(eq)+"::"+cl+"::"+strings.TrimPrefix(px, ".")+"-of-a-compared-with-the-same-part-of-b", in.Pos(), okPair, "a comparison inside Equal must pair a%s with b%s; it pairs %s%s with %s%s, so two nodes that differ there are called equal", px, px, rx.Name(), px, ry.Name(), py)
			if okPair {
				note(cl, px)
			}
		})
		// every child that can hold syntax is compared
		astPkg := c.Pkgs["go/ast"]
		if astPkg == nil {
			c.Undecided("go/ast not loaded")
		}
		nodeIface := astPkg.Types.Scope().Lookup("Node").Type().Underlying().(*types.Interface)
		holdsSyntax := func(t types.Type) bool {
			if sl, ok := t.Underlying().(*types.Slice); ok {
				t = sl.Elem()
			}
			if types.IsInterface(t) {
				return types.Implements(t, nodeIface) || t.String() == "go/ast.Expr" || t.String() == "go/ast.Stmt"
			}
			return types.Implements(t, nodeIface)
		}
		reviewedSkip := map[string]string{
			"*go/ast.BasicLit.":     "",
			"*go/ast.CallExpr.":     "",
			"*go/ast.Field.Doc":     "comments are not part of the expression",
			"*go/ast.Field.Comment": "comments are not part of the expression",
			"*go/ast.Field.Tag":     "struct tags do not occur in the expressions Equal is used on (types of conversions and literals are compared by their fields and names)",
		}
		for _, cl := range SortedKeys(compared) {
			tn := strings.TrimPrefix(cl, "*go/ast.")
			obj, _ := astPkg.Types.Scope().Lookup(tn).(*types.TypeName)
			if obj == nil {
				continue
			}
			st, ok := obj.Type().Underlying().(*types.Struct)
			if !ok {
				continue
			}
			for f := range st.Fields() {
				if !holdsSyntax(f.Type()) {
					continue
				}
				key := cl + "." + f.Name()
				if why, ok := reviewedSkip[key]; ok {
					c.CheckTrivial(FuncKey(eq)+"::"+key+"-compared", eq.Pos(), true, "reviewed: %s", why)
					continue
				}
				c.Check(FuncKey(eq)+"::"+key+"-compared", eq.Pos(), compared[cl][f.Name()], "Equal's clause for %s never compares the child %s: two nodes that differ only there are called equal", cl, f.Name())
			}
		}
		if nPairs < 30 {
			c.Undecided("found only %d pairwise comparisons in astutil.Equal", nPairs)
		}
	})
}

// nodeRoots returns the values a position expression is anchored in: for
// x.Pos()/x.End() the root of x, for a position field load the root of the
// struct it is loaded from. Roots are reached by stripping field selections,
// loads, additions of constants and position conversions.
func nodeRoots(v ssa.Value) map[ssa.Value]bool {
	out := map[ssa.Value]bool{}
	var root func(v ssa.Value) ssa.Value
	root = func(v ssa.Value) ssa.Value {
		switch x := v.(type) {
		case *ssa.FieldAddr:
			return root(x.X)
		case *ssa.Field:
			return root(x.X)
		case *ssa.UnOp:
			if x.Op == token.MUL {
				return root(x.X)
			}
		case *ssa.ChangeType:
			return root(x.X)
		case *ssa.MakeInterface:
			return root(x.X)
		case *ssa.ChangeInterface:
			return root(x.X)
		case *ssa.Extract:
			return root(x.Tuple)
		}
		return v
	}
	var walk func(v ssa.Value)
	seen := map[ssa.Value]bool{}
	walk = func(v ssa.Value) {
		if seen[v] {
			return
		}
		seen[v] = true
		switch x := v.(type) {
		case *ssa.Const:
			return
		case *ssa.Phi:
			for _, e := range x.Edges {
				walk(e)
			}
		case *ssa.BinOp:
			walk(x.X)
			walk(x.Y)
		case *ssa.Convert:
			walk(x.X)
		case *ssa.Call:
			name := ""
			var recv ssa.Value
			if x.Call.IsInvoke() {
				name, recv = x.Call.Method.Name(), x.Call.Value
			} else if callee := x.Call.StaticCallee(); callee != nil && callee.Signature.Recv() != nil && len(x.Call.Args) > 0 {
				name, recv = callee.Name(), x.Call.Args[0]
			}
			if name == "Pos" || name == "End" {
				out[root(recv)] = true
				return
			}
			if b, ok := x.Call.Value.(*ssa.Builtin); ok && b.Name() == "len" {
				return
			}
			out[x] = true
		default:
			r := root(v)
			if r != v {
				out[r] = true
			} else {
				out[v] = true
			}
		}
	}
	walk(v)
	return out
}

// ordinalIn returns the index of instruction in among the Allocs of fn (a
// position-free discriminator).
func ordinalIn(fn *ssa.Function, target ssa.Instruction) int {
	n := 0
	found := 0
	Instrs(fn, false, func(in ssa.Instruction) {
		if al, ok := in.(*ssa.Alloc); ok && al.Comment == "complit" && strings.HasSuffix(al.Type().String(), "analysis.TextEdit") {
			n++
			if in == target {
				found = n
			}
		}
	})
	return found
}

// buildsStruct reports whether the cell is a struct value built here: a
// composite literal, or a variable at least one of whose fields is assigned.
func buildsStruct(al *ssa.Alloc) bool {
	if al.Comment == "complit" {
		return true
	}
	refs := al.Referrers()
	if refs == nil {
		return false
	}
	for _, r := range *refs {
		// a variable that receives a whole value (a parameter spill, a copy) is not built here
		if st, ok := r.(*ssa.Store); ok && st.Addr == ssa.Value(al) {
			return false
		}
	}
	for _, r := range *refs {
		if fa, ok := r.(*ssa.FieldAddr); ok {
			for _, rr := range *fa.Referrers() {
				if st, ok := rr.(*ssa.Store); ok && st.Addr == ssa.Value(fa) {
					return true
				}
			}
		}
	}
	return false
}
