package props

import (
	"go/token"
	"go/types"
	"sort"
	"strings"

	"golang.org/x/tools/go/ssa"

	. "verif/checker/engine"
)

// accumulators: fields of the use graph that only ever grow; the verdict is
// reachability over their final contents.
var accumulatorFields = map[string]string{
	"unused.graph.edges":                     "set of edges (insert only)",
	"unused.graph.nodes":                     "node table (append only)",
	"unused.graph.objects":                   "object → node id (insert only)",
	"unused.Node.uses":                       "adjacency list (append only, de-duplicated through graph.edges)",
	"unused.Node.owns":                       "adjacency list (append only, de-duplicated through graph.edges)",
	"unused.graph.namedTypes":                "list of named types (append only)",
	"unused.graph.interfaceTypes":            "list of interface types (append only)",
	"unused.SerializedGraph.nodes":           "merged node table (append only)",
	"unused.SerializedGraph.nodesByPath":     "object path → merged node id (insert only; used to identify the same object across variants)",
	"unused.SerializedGraph.nodesByPosition": "position → merged node id (insert only; used to identify the same object across variants)",
}

func init() {
	Register(&Property{
		ID:       "C17",
		Patterns: []string{"./unused", "./lintcmd"},
		NeedSSA:  true,
		Explanation: "Decides structural necessary conditions of order independence and of merging over variants: inside every loop over a map in package unused the only effects on the use graph go through the monotone accumulators (edge set, node table, object table, adjacency lists), nothing is removed from them anywhere, and slices built in map order are sorted before use (R17.1); " +
			"in (*linter).lint the U1000 problems are produced only after the loop over all package results has finished, only under 'not used in any variant', 'used' is never overwritten by 'unused', and every variant's Used set is recorded regardless of whether U1000 is enabled for it (R17.2); " +
			"the keys built for used and for unused objects are built from the same four origins (package path, file base name, line, name) (R17.3). " +
			"It does NOT decide monotonicity of the rules under added references, or permutation invariance of the rule list itself." +
			" Also decided: no map in package unused is keyed by the printed form of a go/types type or object (not injective: generic interfaces with equally named type parameters print alike)." +
			" Every element of a variant's Used list is entered into the cross-variant map (no filtering by name or kind).",
		RuleText:    "effect sets (field writes) closed over static callees; map-loop bodies on the SSA CFG; guard-edge and reachability queries",
		Assumptions: []string{"reachability over a set of edges does not depend on the order in which the edges were inserted"},
		Run:         runC17,
		Mutants: []Mutant{
			{Name: "interfaces-deduplicated-by-printed-form", File: "unused/unused.go", Rule: "R17.5", KeyPart: "graph).entry::map-key-is-not-a-printed-type",
				Old: "\tfor _, typ := range g.interfaceTypes {\n\t\tallInterfaces[typ] = struct{}{}\n\t}\n", New: "\tprinted := map[string]bool{}\n\tfor _, typ := range g.interfaceTypes {\n\t\tif printed[typ.String()] {\n\t\t\tcontinue\n\t\t}\n\t\tprinted[typ.String()] = true\n\t\tallInterfaces[typ] = struct{}{}\n\t}\n"},
			{Name: "objects-keyed-by-type-string", File: "unused/unused.go", Rule: "R17.5", KeyPart: "map-key-is-not-a-printed-type",
				Old: "\tfor _, typ := range g.interfaceTypes {\n\t\tallInterfaces[typ] = struct{}{}\n\t}\n", New: "\tbyName := map[string]*types.Interface{}\n\tfor _, typ := range g.interfaceTypes {\n\t\tbyName[types.TypeString(typ, nil)] = typ\n\t}\n\tfor _, typ := range byName {\n\t\tallInterfaces[typ] = struct{}{}\n\t}\n"},
			{Name: "context-dependent-memo", File: "unused/unused.go", Rule: "R17.4", KeyPart: "graph.pkg::construction-state",
				Old: "func (g *graph) addUse(by, used NodeID) {\n", New: "func (g *graph) addUse(by, used NodeID) {\n\tif by == 0 {\n\t\tg.pkg = nil\n\t}\n"},
			{Name: "map-loop-overwrites-state", File: "unused/unused.go", Rule: "R17.1", KeyPart: "graph).entry",
				Old: "\t\tfor obj := range g.objects {\n\t\t\tpath := g.fset.PositionFor(obj.Pos(), false).Filename\n", New: "\t\tfor obj := range g.objects {\n\t\t\tg.pkg = obj.Pkg()\n\t\t\tpath := g.fset.PositionFor(obj.Pos(), false).Filename\n"},
			{Name: "edges-removed", File: "unused/unused.go", Rule: "R17.1", KeyPart: "never-shrinks",
				Old: "func (g *graph) addUse(by, used NodeID) {\n\te := edge{by, used, edgeKindUse}\n", New: "func (g *graph) addUse(by, used NodeID) {\n\te := edge{by, used, edgeKindUse}\n\tdelete(g.edges, edge{used, by, edgeKindUse})\n"},
			{Name: "verdict-inside-variant-loop", File: "lintcmd/lint.go", Rule: "R17.2", KeyPart: "after-all-variants",
				Old: "\t\t\t\t\tunuseds = append(unuseds, unusedPair{key, obj})\n\t\t\t\t\tif _, ok := used[key]; !ok {\n\t\t\t\t\t\tused[key] = false\n\t\t\t\t\t}\n",
				New: "\t\t\t\t\tif !used[key] {\n\t\t\t\t\t\tout.Diagnostics = append(out.Diagnostics, diagnostic{Diagnostic: runner.Diagnostic{Position: obj.DisplayPosition, Message: obj.Name, Category: \"U1000\"}, MergeIf: lint.MergeIfAll})\n\t\t\t\t\t}\n"},
			{Name: "reported-even-if-used-elsewhere", File: "lintcmd/lint.go", Rule: "R17.2", KeyPart: "only-if-unused-everywhere",
				Old: "\tfor _, uo := range unuseds {\n\t\tif used[uo.key] {\n\t\t\tcontinue\n\t\t}\n", New: "\tfor _, uo := range unuseds {\n"},
			{Name: "unused-overwrites-used", File: "lintcmd/lint.go", Rule: "R17.2", KeyPart: "used-never-overwritten",
				Old: "\t\t\t\t\tif _, ok := used[key]; !ok {\n\t\t\t\t\t\tused[key] = false\n\t\t\t\t\t}\n", New: "\t\t\t\t\tused[key] = false\n"},
			{Name: "exported-used-objects-not-recorded", File: "lintcmd/lint.go", Rule: "R17.2", KeyPart: "every-used-object-recorded",
				Old: "\t\t\tfor _, obj := range resd.Unused.Used {", New: "\t\t\tfor _, obj := range resd.Unused.Used {\n\t\t\t\tif token.IsExported(obj.Name) {\n\t\t\t\t\tcontinue\n\t\t\t\t}"},
			{Name: "used-only-if-u1000-enabled", File: "lintcmd/lint.go", Rule: "R17.2", KeyPart: "used-recorded-for-every-variant",
				Old: "\t\t\tfor _, obj := range resd.Unused.Used {", New: "\t\t\tfor _, obj := range resd.Unused.Used {\n\t\t\t\tif !allowedAnalyzers[makeCaseFoldedString(\"U1000\")] {\n\t\t\t\t\tbreak\n\t\t\t\t}"},
			{Name: "key-without-package-path", File: "lintcmd/lint.go", Rule: "R17.3", KeyPart: "identifies-object-within-its-package",
				Old: "\t\t\t\tkey := unusedKey{\n\t\t\t\t\tpkgPath: res.Package.PkgPath,\n\t\t\t\t\tbase:    filepath.Base(obj.Position.Filename),\n\t\t\t\t\tline:    obj.Position.Line,\n\t\t\t\t\tname:    obj.Name,\n\t\t\t\t}\n\t\t\t\tused[key] = true\n", New: "\t\t\t\tkey := unusedKey{\n\t\t\t\t\tbase: filepath.Base(obj.Position.Filename),\n\t\t\t\t\tline: obj.Position.Line,\n\t\t\t\t\tname: obj.Name,\n\t\t\t\t}\n\t\t\t\tused[key] = true\n",
				More: []Edit{{File: "lintcmd/lint.go", Old: "\t\t\t\t\tkey := unusedKey{\n\t\t\t\t\t\tpkgPath: res.Package.PkgPath,\n", New: "\t\t\t\t\tkey := unusedKey{\n"}}},
			{Name: "key-uses-full-path-for-unused", File: "lintcmd/lint.go", Rule: "R17.3", KeyPart: "key-parity",
				Old: "\t\t\t\t\tkey := unusedKey{\n\t\t\t\t\t\tpkgPath: res.Package.PkgPath,\n\t\t\t\t\t\tbase:    filepath.Base(obj.Position.Filename),",
				New: "\t\t\t\t\tkey := unusedKey{\n\t\t\t\t\t\tpkgPath: res.Package.PkgPath,\n\t\t\t\t\t\tbase:    obj.Position.Filename,"},
		},
	})
}

func runC17(c *Ctx) {
	var ufuncs []*ssa.Function
	for _, fn := range c.ModuleFuncs() {
		if FuncPkgPath(fn) == unusedPkg && len(fn.Blocks) > 0 {
			ufuncs = append(ufuncs, fn)
		}
	}
	graphTypes := map[string]bool{"unused.graph": true, "unused.Node": true, "unused.SerializedGraph": true}

	// direct field writes per function
	direct := map[*ssa.Function]map[string]token.Pos{}
	for _, fn := range ufuncs {
		m := map[string]token.Pos{}
		for _, a := range FieldAccesses(fn) {
			so := shortOwner(a.Owner)
			if graphTypes[so] && (a.Kind == "write" || a.Kind == "content") {
				// initialising a value under construction (a local composite literal) is not an effect
				if st, ok := a.Instr.(*ssa.Store); ok {
					if fa, ok := st.Addr.(*ssa.FieldAddr); ok {
						if al, ok := fa.X.(*ssa.Alloc); ok && !al.Heap {
							continue
						}
					}
				}
				m[so+"."+a.Field] = a.Instr.Pos()
			}
		}
		direct[fn] = m
	}
	// closure over static callees and closures
	var effects func(fn *ssa.Function, seen map[*ssa.Function]bool) map[string]token.Pos
	effects = func(fn *ssa.Function, seen map[*ssa.Function]bool) map[string]token.Pos {
		out := map[string]token.Pos{}
		if seen[fn] {
			return out
		}
		seen[fn] = true
		for k, v := range direct[fn] {
			out[k] = v
		}
		for _, an := range fn.AnonFuncs {
			for k, v := range effects(an, seen) {
				out[k] = v
			}
		}
		for _, ci := range Calls(fn, false) {
			if callee := ci.Common().StaticCallee(); callee != nil && FuncPkgPath(callee) == unusedPkg {
				for k, v := range effects(callee, seen) {
					out[k] = v
				}
			}
		}
		return out
	}

	c.Rule("R17.1", func() {
		c.Floor("R17.1", 5)
		nLoops := 0
		for _, fn := range ufuncs {
			loops := mapLoops(fn)
			var nexts []*ssa.Next
			for nx := range loops {
				nexts = append(nexts, nx)
			}
			sort.Slice(nexts, func(i, j int) bool { return nexts[i].Pos() < nexts[j].Pos() })
			for li, nx := range nexts {
				body := loops[nx]
				nLoops++
				c.SawFunc(fn.String())
				bad := ""
				var badPos token.Pos
				for b := range body {
					for _, in := range b.Instrs {
						switch x := in.(type) {
						case *ssa.Store:
							if fa, ok := x.Addr.(*ssa.FieldAddr); ok {
								owner, f := FieldOf(fa.X.Type(), fa.Field)
								if f != nil && graphTypes[shortOwner(owner)] {
									k := shortOwner(owner) + "." + f.Name()
									if _, isAcc := accumulatorFields[k]; !isAcc {
										bad, badPos = "direct store to "+k, x.Pos()
									}
								}
							}
						case ssa.CallInstruction:
							callee := x.Common().StaticCallee()
							if callee == nil || FuncPkgPath(callee) != unusedPkg {
								continue
							}
							for k, pos := range effects(callee, map[*ssa.Function]bool{}) {
								if _, isAcc := accumulatorFields[k]; !isAcc {
									bad, badPos = "call to "+callee.Name()+" which writes "+k+" at "+c.PosStr(pos), x.Pos()
								}
							}
						}
					}
				}
				pos := nx.Pos()
				if badPos.IsValid() {
					pos = badPos
				}
				c.Check(FuncKey(fn)+"::map-loop#"+itoa(li)+"::only-accumulates", pos, bad == "", "the body of a loop over a map may change the use graph only through its monotone accumulators (edges, nodes, objects, uses, owns); otherwise the verdict depends on iteration order: %s", bad)
			}
			for _, mo := range findMapOrdered(c, fn) {
				if mo.Kind != "slice" {
					continue
				}
				c.Check(FuncKey(fn)+"::"+mo.Name+"::sorted-before-use", mo.Pos, len(mo.BadUses) == 0, "slice %q is built in map-iteration order and used without a dominating sort", mo.Name)
			}
		}
		if nLoops < 4 {
			c.Undecided("found only %d loops over maps in package unused", nLoops)
		}
		// nothing ever removes from the accumulators
		shrunk := ""
		var shrunkPos token.Pos
		for _, fn := range ufuncs {
			Instrs(fn, false, func(in ssa.Instruction) {
				call, ok := in.(*ssa.Call)
				if !ok || !IsCallTo(call, "builtin.delete", "builtin.clear") {
					return
				}
				if AddrFrom(call.Call.Args[0], func(v ssa.Value) bool {
					return IsFieldOf("unused.graph", "edges")(v) || IsFieldOf("unused.graph", "objects")(v) || IsFieldOf("unused.graph", "nodes")(v)
				}) {
					shrunk, shrunkPos = fn.String(), call.Pos()
				}
			})
			// re-slicing nodes/uses/owns to something shorter
			Instrs(fn, false, func(in ssa.Instruction) {
				st, ok := in.(*ssa.Store)
				if !ok {
					return
				}
				fa, ok := st.Addr.(*ssa.FieldAddr)
				if !ok {
					return
				}
				owner, f := FieldOf(fa.X.Type(), fa.Field)
				if f == nil || !graphTypes[shortOwner(owner)] {
					return
				}
				k := shortOwner(owner) + "." + f.Name()
				if _, isAcc := accumulatorFields[k]; !isAcc {
					return
				}
				switch v := st.Val.(type) {
				case *ssa.Call:
					if IsCallTo(v, "builtin.append") {
						return
					}
				case *ssa.MakeMap, *ssa.MakeSlice, *ssa.Parameter:
					return // construction
				case *ssa.Const:
					return
				}
				if strings.HasPrefix(fn.Name(), "new") {
					return
				}
				if _, fresh := fa.X.(*ssa.Alloc); fresh {
					return // initialising a freshly allocated value
				}
				// seeding an accumulator that is known to be empty with a literal is not a removal
				if sl, isLit := st.Val.(*ssa.Slice); isLit {
					if _, fromArr := sl.X.(*ssa.Alloc); fromArr {
						emptyEdges := LenZeroEdges(fn, func(v ssa.Value) bool {
							return DerivesLocal(v, func(x ssa.Value) bool {
								f2, ok := x.(*ssa.FieldAddr)
								if !ok {
									return false
								}
								o2, ff := FieldOf(f2.X.Type(), f2.Field)
								return ff != nil && shortOwner(o2)+"."+ff.Name() == k
							})
						})
						if ok, _ := MustPassEdges(fn, st, emptyEdges); ok && len(emptyEdges) > 0 {
							return
						}
					}
				}
				shrunk, shrunkPos = fn.String()+" stores a non-append value into "+k, st.Pos()
			})
		}
		c.Check(unusedPkg+"::accumulators::never-shrinks", shrunkPos, shrunk == "", "edges, nodes and objects are only ever added to while the graph is built; a removal makes the verdict depend on traversal order and breaks monotonicity (%s)", shrunk)
	})

	lint := c.Func("lintcmd", "(*linter).lint")

	c.Rule("R17.2", func() {
		c.Floor("R17.2", 4)
		// the loop over results: a rangeindex loop over the value returned by Runner.Run
		var resultsLoad ssa.Instruction
		Instrs(lint, false, func(in ssa.Instruction) {
			// the IndexAddr that loads results[i]
			ia, ok := in.(*ssa.IndexAddr)
			if ok && Derives(ia.X, IsCallResult(runnerPkg+".Runner.Run")) && resultsLoad == nil {
				resultsLoad = ia
			}
		})
		if resultsLoad == nil {
			c.Undecided("(*linter).lint no longer iterates over the results of Runner.Run")
		}
		// the U1000 problem: a store of the constant "U1000" into a Category field
		var emits []ssa.Instruction
		Instrs(lint, false, func(in ssa.Instruction) {
			st, ok := in.(*ssa.Store)
			if !ok || !IsFieldOf("runner.Diagnostic", "Category")(st.Addr) {
				return
			}
			if s, ok := constStringVal(st.Val); ok && s == "U1000" {
				emits = append(emits, st)
			}
		})
		// … or the call of a helper of the package that builds it
		for _, ci := range Calls(lint, false) {
			callee := ci.Common().StaticCallee()
			if callee == nil || FuncPkgPath(callee) != FuncPkgPath(lint) || callee == lint {
				continue
			}
			builds := false
			for _, f := range DeepFuncs(callee, 1) {
				Instrs(f, false, func(in ssa.Instruction) {
					if st, ok := in.(*ssa.Store); ok && IsFieldOf("runner.Diagnostic", "Category")(st.Addr) {
						if s, ok := constStringVal(st.Val); ok && s == "U1000" {
							builds = true
						}
					}
				})
			}
			if builds {
				emits = append(emits, ci)
			}
		}
		if len(emits) == 0 {
			c.Undecided("(*linter).lint no longer synthesises U1000 problems")
		}
		isUsedMap := func(v ssa.Value) bool {
			return strings.Contains(v.Type().String(), "map[honnef.co/go/tools/lintcmd.unusedKey]bool")
		}
		notUsed := CondEdges(lint, func(cond ssa.Value) (bool, bool) {
			l, ok := cond.(*ssa.Lookup)
			return ok && !l.CommaOk && isUsedMap(l.X), false
		})
		for _, e := range emits {
			c.Check(FuncKey(lint)+"::U1000-verdict::after-all-variants", e.Pos(), !ReachesFrom(lint, e, resultsLoad), "the verdict for an object is taken only after the results of all packages/variants have been merged: the loop over results must not be reachable again from the place that emits a U1000 problem")
			ok, p := MustPassEdges(lint, e, notUsed)
			c.Check(FuncKey(lint)+"::U1000-verdict::only-if-unused-everywhere", e.Pos(), ok && len(notUsed) > 0, "a U1000 problem is emitted only on the !used[key] edge, i.e. if no variant used the object; path: %s", PathString(lint, p))
		}
		// used[key] = false only if the key is absent; used[key] = true unconditional within the results loop
		nFalse, nTrue := 0, 0
		Instrs(lint, false, func(in ssa.Instruction) {
			mu, ok := in.(*ssa.MapUpdate)
			if !ok || !isUsedMap(mu.Map) {
				return
			}
			if isBoolConst(mu.Value, false) {
				nFalse++
				absent := ComplementEdges(CondEdges(lint, func(cond ssa.Value) (bool, bool) {
					e, ok := cond.(*ssa.Extract)
					if !ok || e.Index != 1 {
						return false, false
					}
					l, ok := e.Tuple.(*ssa.Lookup)
					return ok && isUsedMap(l.X) && AddrKeyOfLoad(l.Index) == AddrKeyOfLoad(mu.Key), true
				}))
				// storing false where the entry reads false (absent or false) cannot overwrite a true either
				for e := range CondEdges(lint, func(cond ssa.Value) (bool, bool) {
					l, ok := cond.(*ssa.Lookup)
					return ok && !l.CommaOk && isUsedMap(l.X) && AddrKeyOfLoad(l.Index) == AddrKeyOfLoad(mu.Key), false
				}) {
					absent[e] = true
				}
				ok2, p := MustPassEdges(lint, mu, absent)
				c.Check(FuncKey(lint)+"::used-never-overwritten-by-unused", mu.Pos(), ok2 && len(absent) > 0, "used[key] = false may only initialise an absent key; overwriting would let a later variant that does not use the object hide an earlier variant that does; path: %s", PathString(lint, p))
			} else if isBoolConst(mu.Value, true) {
				nTrue++
				// must not depend on whether U1000 is enabled for this package
				u1000On := CondEdges(lint, func(cond ssa.Value) (bool, bool) {
					l, ok := cond.(*ssa.Lookup)
					return ok && !l.CommaOk && !isUsedMap(l.X) && strings.Contains(l.X.Type().String(), "caseFoldedString]bool"), true
				})
				gated, _ := MustPassEdges(lint, mu, u1000On)
				c.Check(FuncKey(lint)+"::used-recorded-for-every-variant", mu.Pos(), !gated || len(u1000On) == 0, "every variant's Used objects are recorded, whether or not U1000 is enabled for that variant")
				// … and every one of them: from the element of Unused.Used that the key is built from, every way to
				// the next element passes the recording (no filter on the object: an exported method of an unexported
				// type is 'unused' in the variant where its type is unreachable and 'used' in the test variant)
				Instrs(lint, false, func(in ssa.Instruction) {
					ia, ok := in.(*ssa.IndexAddr)
					if !ok || !AddrFrom(ia.X, IsFieldOf("unused.Result", "Used")) {
						return
					}
					t, path := PathAvoiding(lint, ia, func(x ssa.Instruction) bool {
						if _, isRet := x.(*ssa.Return); isRet {
							return true
						}
						return x == ssa.Instruction(ia)
					}, func(x ssa.Instruction) bool { return x == ssa.Instruction(mu) }, nil)
					c.Check(FuncKey(lint)+"::every-used-object-recorded", ia.Pos(), t == nil, "every element of a variant's Used list is entered into the used map (no filtering by name or kind): an object that is used in one variant must veto its report from every other variant; path that skips the recording: %s", PathString(lint, path))
				})
			} else {
				c.Check(FuncKey(lint)+"::used-map-stores-constants", mu.Pos(), false, "the used map is only ever set to the constants true/false")
			}
		})
		if nFalse == 0 || nTrue == 0 {
			c.Undecided("(*linter).lint no longer maintains the used map with true/false entries")
		}
	})

	c.Rule("R17.3", func() {
		c.Floor("R17.3", 2)
		unusedKeyObligations(c, lint, true)
	})
	// R17.4: graph construction keeps no state besides the reviewed
	// accumulators. Anything else that is written while the graph is being
	// built and read back later (a memo, a "current X" field) makes the edges
	// that are added depend on what was visited before, i.e. on file and
	// declaration order.
	c.Rule("R17.4", func() {
		c.Floor("R17.4", 5)
		seenKeys := map[string]bool{}
		for _, fn := range ufuncs {
			if fn.Parent() == nil && strings.HasPrefix(fn.Name(), "new") {
				continue // constructors initialise the state
			}
			for _, a := range FieldAccesses(fn) {
				so := shortOwner(a.Owner)
				if !graphTypes[so] || (a.Kind != "write" && a.Kind != "content") {
					continue
				}
				if st, ok := a.Instr.(*ssa.Store); ok {
					if fa, ok := st.Addr.(*ssa.FieldAddr); ok {
						if _, local := fa.X.(*ssa.Alloc); local {
							continue // initialising a function-local value (a literal, a loop copy)
						}
					}
				}
				k := so + "." + a.Field
				key := k + "::construction-state-is-a-reviewed-accumulator"
				if seenKeys[key] {
					continue
				}
				_, isAcc := accumulatorFields[k]
				if isAcc || !seenKeys[key] {
					seenKeys[key] = isAcc
				}
				if !isAcc {
					seenKeys[key] = true
					c.Check(key, a.Instr.Pos(), false, "%s is written in %s while the use graph is being built, but is not one of the reviewed grow-only accumulators (%v): state that is written and read back during construction makes the set of edges depend on the order in which files and declarations are visited", k, fn, SortedKeys(accumulatorFields))
				} else {
					c.Check(key, a.Instr.Pos(), true, "reviewed accumulator: %s", accumulatorFields[k])
				}
			}
		}
	})
	// R17.5: identity of types and objects. The use graph is defined on
	// go/types identities. A map keyed by the printed form of a type or object
	// merges entities that merely look alike (two generic interfaces whose
	// methods mention equally named type parameters, local types of the same
	// name in different scopes), and which one survives is whichever was
	// inserted first — i.e. it depends on file and declaration order.
	c.Rule("R17.5", func() { identityKeyObligations(c, ufuncs) })
}

// identityKeyObligations requires that no map in package unused is keyed by the
// printed form of a go/types Type or Object.
func identityKeyObligations(c *Ctx, ufuncs []*ssa.Function) {
	typesPkg := "go/types"
	isTypesEntity := func(t types.Type) bool {
		// a type from go/types that describes a type or an object
		for depth := 0; depth < 3; depth++ {
			if p, ok := t.(*types.Pointer); ok {
				t = p.Elem()
				continue
			}
			break
		}
		n, ok := types.Unalias(t).(*types.Named)
		if !ok || n.Obj().Pkg() == nil || n.Obj().Pkg().Path() != typesPkg {
			return false
		}
		switch n.Obj().Name() {
		case "Package", "Scope", "Info", "Config":
			return false
		}
		return true
	}
	printed := func(v ssa.Value) string {
		call, ok := v.(*ssa.Call)
		if !ok {
			return ""
		}
		cc := call.Common()
		if cc.IsInvoke() {
			if cc.Method.Name() == "String" && isTypesEntity(cc.Value.Type()) {
				return "(" + TypeString(cc.Value.Type()) + ").String"
			}
			return ""
		}
		name := CalleeName(cc)
		switch name {
		case "go/types.TypeString", "go/types.ObjectString", "go/types.SelectionString", "go/types.ExprString":
			return name
		}
		if callee := cc.StaticCallee(); callee != nil && callee.Signature.Recv() != nil && (callee.Name() == "String" || callee.Name() == "FullName") && isTypesEntity(callee.Signature.Recv().Type()) {
			return name
		}
		if strings.HasPrefix(name, "fmt.Sprint") || name == "fmt.Appendf" {
			// a go/types value among the formatted operands
			for x := range BackSlice(call, SliceOpts{ThroughCalls: true, Stop: func(y ssa.Value) bool {
				c2, ok := y.(*ssa.Call)
				return ok && c2 != call
			}}) {
				if mi, ok := x.(*ssa.MakeInterface); ok && isTypesEntity(mi.X.Type()) {
					return name + " of a " + TypeString(mi.X.Type())
				}
			}
		}
		return ""
	}
	n := 0
	for _, fn := range ufuncs {
		k := 0
		Instrs(fn, false, func(in ssa.Instruction) {
			var key ssa.Value
			var what string
			switch x := in.(type) {
			case *ssa.MapUpdate:
				key, what = x.Key, "inserted"
			case *ssa.Lookup:
				if _, isMap := x.X.Type().Underlying().(*types.Map); isMap {
					key, what = x.Index, "looked up"
				}
			}
			if key == nil {
				return
			}
			if b, ok := key.Type().Underlying().(*types.Basic); !ok || b.Info()&types.IsString == 0 {
				// identity keys (pointers, NodeID, structs of those) — the normal case
				n++
				return
			}
			n++
			how := ""
			for x := range BackSlice(key, SliceOpts{ThroughCalls: true}) {
				if p := printed(x); p != "" {
					how = p
				}
			}
			k++
			c.Check(FuncKey(fn)+"::map-key-is-not-a-printed-type#"+itoa(k), in.Pos(), how == "", "a string key %s here is built with %s: the printed form of a type or object is not injective (type parameters, local types, instantiations print alike), so distinct entities share one slot and the one that was inserted first wins — the verdicts then depend on file and declaration order; key maps by the go/types identity (pointer, typeutil.Map) instead", what, how)
		})
	}
	if n < 10 {
		c.Undecided("found only %d map accesses in package unused", n)
	}
}

// unusedKeyObligations decides what the keys are made of under which used and
// unused objects of all packages of a run meet in (*linter).lint's shared map.
func unusedKeyObligations(c *Ctx, lint *ssa.Function, parity bool) {
	// The keys under which used and unused objects meet in the shared map: what
	// they are made of, followed through local copies, separate field
	// assignments and helper functions of the package.
	var deep func(v ssa.Value, depth int, out map[ssa.Value]bool)
	deep = func(v ssa.Value, depth int, out map[ssa.Value]bool) {
		for x := range BackSlice(v, SliceOpts{ThroughCalls: true}) {
			if out[x] {
				continue
			}
			out[x] = true
			if call, ok := x.(*ssa.Call); ok && depth > 0 {
				if callee := call.Call.StaticCallee(); callee != nil && FuncInModule(callee) && callee.Blocks != nil {
					for _, r := range Returns(callee) {
						for _, res := range r.Results {
							deep(res, depth-1, out)
						}
					}
				}
			}
		}
	}
	atomsOf := func(v ssa.Value) map[string]bool {
		sl := map[ssa.Value]bool{}
		deep(v, 2, sl)
		atoms := map[string]bool{}
		for x := range sl {
			switch x := x.(type) {
			case *ssa.FieldAddr:
				if o, ff := FieldOf(x.X.Type(), x.Field); ff != nil {
					atoms[shortOwner(o)+"."+ff.Name()] = true
				}
			case *ssa.Field:
				if o, ff := FieldOf(x.X.Type(), x.Field); ff != nil {
					atoms[shortOwner(o)+"."+ff.Name()] = true
				}
			case *ssa.Call:
				if callee := x.Call.StaticCallee(); callee == nil || !FuncInModule(callee) {
					atoms["call:"+CalleeName(&x.Call)] = true
				}
			}
		}
		return atoms
	}
	relevant := func(a string) bool {
		switch {
		case strings.HasSuffix(a, ".PkgPath"), a == "token.Position.Filename", a == "token.Position.Line", a == "token.Position.Column", a == "token.Position.Offset",
			a == "unused.Object.Name", a == "unused.Object.Path", a == "call:path/filepath.Base", strings.HasPrefix(a, "call:path/filepath."), strings.HasPrefix(a, "call:strings."):
			return true
		}
		return false
	}
	var usedSide, unusedSide map[string]bool
	var pos token.Pos
	var scan func(fn *ssa.Function)
	scan = func(fn *ssa.Function) {
		Instrs(fn, false, func(in ssa.Instruction) {
			var key ssa.Value
			switch x := in.(type) {
			case *ssa.MapUpdate:
				key = x.Key
			case *ssa.Lookup:
				if _, isMap := x.X.Type().Underlying().(*types.Map); isMap {
					key = x.Index
				}
			}
			if key == nil {
				return
			}
			if _, isStruct := key.Type().Underlying().(*types.Struct); !isStruct {
				return
			}
			at := atomsOf(key)
			merge := func(dst *map[string]bool) {
				if *dst == nil {
					*dst = map[string]bool{}
				}
				for a := range at {
					if relevant(a) {
						(*dst)[a] = true
					}
				}
			}
			if at["unused.Result.Used"] {
				merge(&usedSide)
				pos = in.Pos()
			}
			if at["unused.Result.Unused"] {
				merge(&unusedSide)
			}
		})
		for _, an := range fn.AnonFuncs {
			scan(an)
		}
	}
	scan(lint)
	if usedSide == nil || unusedSide == nil {
		c.Undecided("the shared map in which used and unused objects of all variants meet was not found in (*linter).lint")
	}
	diff := ""
	for a := range usedSide {
		if !unusedSide[a] {
			diff += " only-used-side:" + a
		}
	}
	for a := range unusedSide {
		if !usedSide[a] {
			diff += " only-unused-side:" + a
		}
	}
	if parity {
		c.Check(FuncKey(lint)+"::unusedKey::key-parity", pos, diff == "", "the keys for used and unused objects must be built from the same origins, otherwise an object used in one variant never cancels its unused twin in another (%s)", diff)
	}
	missing := ""
	for _, req := range []struct{ what, atom string }{{"the package path", ".PkgPath"}, {"the base name of the file", "call:path/filepath.Base"}, {"the file name", "token.Position.Filename"}, {"the line", "token.Position.Line"}, {"the object's name", "unused.Object.Name"}} {
		has := false
		for a := range usedSide {
			if a == req.atom || strings.HasSuffix(a, req.atom) {
				has = true
			}
		}
		if !has {
			missing += " " + req.what
		}
	}
	c.Check(FuncKey(lint)+"::unusedKey::identifies-object-within-its-package", pos, missing == "", "objects of all packages of a run meet in one map, keyed by (package path, file base name, line, name): without the package path, objects of unrelated packages that share file name, line and name cancel each other and the problems reported for a package depend on which other packages are linted with it; missing:%s", missing)
	if parity {
		c.Note("R17.3: key origins %v", SortedKeys(usedSide))
	}
}
