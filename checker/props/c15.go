package props

import (
	"go/token"
	"strings"

	"golang.org/x/tools/go/ssa"

	. "verif/checker/engine"
)

func init() {
	Register(&Property{
		ID:       "C15",
		Patterns: []string{"./analysis/facts/nilness", "./analysis/dfa/...", "./staticcheck/sa4023"},
		NeedSSA:  true,
		Explanation: "Soundness of the nilness facts with respect to executions is a semantic relation and is NOT decided. Decided is the 'unknown ⇒ top' discipline that any sound analysis needs: the absorbing element of the merge table is computed from the source (today MaybeNil), and every funnel where the analysis does not know — the pointer-like default, normalisation of missing components, a function without a fact, an unknown or under-described callee, parameters and free variables — yields that element in both components (R15.1); " +
			"every bail-out of impl returns the signature default, results are joined over all return sites with the lattice's Merge (never overwritten), non-pointer results are NeverNil by type, and a fact is exported only after the solver ran and after normalisation (R15.2); SA4023 reports only on facts that are definite in the component it tests (R15.3). Instruction and builtin coverage of the transfer function is decided under C03 (R3.1/R3.2)." +
			" Also decided, after four genuine defects were found there: the dense solver's re-enqueue pairing (shared with C13); the φ-nodes of a block are evaluated in parallel (all incoming values read before any φ is updated); state.get returns a recorded slot only after testing that something was recorded, so the per-kind defaults always apply; a conversion copies the operand's nilness only under IsPointerLike(operand).",
		RuleText:    "constant struct literals evaluated from SSA stores; guard-edge and dominance queries; the merge table is evaluated as in C13",
		Assumptions: []string{"each transfer rule states a fact that holds on normal completion of the instruction (not decided here)"},
		Run:         runC15,
		Mutants: []Mutant{
			{Name: "phis-updated-one-after-the-other", File: "analysis/facts/nilness/nilness.go", Rule: "R15.6", KeyPart: "phis-evaluated-in-parallel",
				Old: "\t\t\tif instr, ok := instr.(*ir.Phi); ok {\n\t\t\t\tincoming = append(incoming, s.get(instr.Edges[i]))\n\t\t\t} else {\n\t\t\t\tbreak\n\t\t\t}\n", New: "\t\t\tif instr, ok := instr.(*ir.Phi); ok {\n\t\t\t\tincoming = append(incoming, s.get(instr.Edges[i]))\n\t\t\t\ts.set(instr, incoming[len(incoming)-1])\n\t\t\t} else {\n\t\t\t\tbreak\n\t\t\t}\n"},
			{Name: "dense-slot-returned-without-looking-at-it", File: "analysis/facts/nilness/nilness.go", Rule: "R15.7", KeyPart: "state).get::recorded-value-returned-only-if-something-was-recorded",
				Old: "\tif num < len(s.m) && s.m[num] != (ValueNilness{}) {\n", New: "\tif num < len(s.m) {\n"},
			{Name: "conversion-copies-from-any-operand", File: "analysis/facts/nilness/nilness.go", Rule: "R15.8", KeyPart: "conversion-copies-nilness-only-from-pointer-like-operands",
				Old: "\t\t\t\tif typeutil.IsPointerLike(v.X.Type()) {\n\t\t\t\t\ts.set(v, s.get(v.X))\n\t\t\t\t} else {\n\t\t\t\t\t// unsafe.Pointer(uintptr)", New: "\t\t\t\tif true || typeutil.IsPointerLike(v.X.Type()) {\n\t\t\t\t\ts.set(v, s.get(v.X))\n\t\t\t\t} else {\n\t\t\t\t\t// unsafe.Pointer(uintptr)"},
			{Name: "worklist-keeps-queued-bit-during-visit", File: "analysis/dfa/dense/forward.go", Rule: "R15.5", KeyPart: "dequeue-clears-membership-bit",
				Old: "\theap.Pop(h)\n\th.inQueue[nid/64] &^= 1 << (nid % 64)\n", New: "\theap.Pop(h)\n"},
			{Name: "cow-clone-skipped-when-growing", File: "analysis/facts/nilness/nilness.go", Rule: "R15.4", KeyPart: "state).set::",
				Old: "\t\ts.cloned = true\n\t\ts.m = slices.Clone(s.m)\n\t}\n\tif num >= len(s.m) {\n\t\ts.m = append(s.m, make([]ValueNilness, num-len(s.m)+1)...)\n\t}\n\ts.m[num] = value\n", New: "\t\ts.cloned = true\n\t\tif num < len(s.m) {\n\t\t\ts.m = slices.Clone(s.m)\n\t\t}\n\t}\n\tif num >= len(s.m) {\n\t\ts.m = append(s.m, make([]ValueNilness, num-len(s.m)+1)...)\n\t}\n\ts.m[num] = value\n"},
			{Name: "cow-setOuter-writes-shared", File: "analysis/facts/nilness/nilness.go", Rule: "R15.4", KeyPart: "setOuter::writes-only-its-own-copy",
				Old: "\t\tif num < len(s.m) && s.m[num].Outer == value {\n\t\t\t// Don't clone if the value already matches.\n\t\t\treturn\n\t\t}\n\t\ts.cloned = true\n\t\ts.m = slices.Clone(s.m)\n", New: "\t\tif num < len(s.m) && s.m[num].Outer == value {\n\t\t\t// Don't clone if the value already matches.\n\t\t\treturn\n\t\t}\n\t\tif num < len(s.m) && s.m[num].Outer == 0 {\n\t\t\ts.m[num].Outer = value\n\t\t\treturn\n\t\t}\n\t\ts.cloned = true\n\t\ts.m = slices.Clone(s.m)\n"},
			{Name: "default-pointer-like-never-nil", File: "analysis/facts/nilness/nilness.go", Rule: "R15.1", KeyPart: "defaultNilness",
				Old: "\t\t// IsPointerLike handles type parameters with type sets, too.\n\t\treturn ValueNilness{MaybeNil, MaybeNil}", New: "\t\t// IsPointerLike handles type parameters with type sets, too.\n\t\treturn ValueNilness{MaybeNil, NeverNil}"},
			{Name: "no-fact-means-never-nil", File: "analysis/facts/nilness/nilness.go", Rule: "R15.1", KeyPart: "Result).Nilness",
				Old: "\tif len(r.m[fn]) == 0 {\n\t\treturn ValueNilness{Inner: MaybeNil, Outer: MaybeNil}\n\t}", New: "\tif len(r.m[fn]) == 0 {\n\t\treturn ValueNilness{Inner: MaybeNil, Outer: NeverNil}\n\t}"},
			{Name: "unknown-callee-never-nil", File: "analysis/facts/nilness/nilness.go", Rule: "R15.1", KeyPart: "unknown-callee",
				Old: "\t\t\t\t// We don't know which function is being called.\n\t\t\t\ts.set(v, ValueNilness{MaybeNil, MaybeNil})", New: "\t\t\t\t// We don't know which function is being called.\n\t\t\t\ts.set(v, ValueNilness{MaybeNil, NeverNil})"},
			{Name: "parameter-never-nil", File: "analysis/facts/nilness/nilness.go", Rule: "R15.1", KeyPart: "state).get",
				Old: "\tcase *ir.Parameter:\n\t\treturn ValueNilness{Inner: MaybeNil, Outer: MaybeNil}", New: "\tcase *ir.Parameter:\n\t\treturn ValueNilness{Inner: MaybeNil, Outer: NeverNil}"},
			{Name: "normalize-invents-fact", File: "analysis/facts/nilness/nilness.go", Rule: "R15.1", KeyPart: "normalize",
				Old: "\tif v.Outer == 0 {\n\t\tv.Outer = MaybeNil\n\t}", New: "\tif v.Outer == 0 {\n\t\tv.Outer = NeverNil\n\t}"},
			{Name: "bailout-returns-nothing-known-as-never", File: "analysis/facts/nilness/nilness.go", Rule: "R15.2", KeyPart: "impl",
				Old: "bailout:\n\treturn defaultNilnessForSignature(pass, fn.Signature)\n", New: "bailout:\n\treturn make([]ValueNilness, fn.Signature.Results().Len())\n"},
			{Name: "last-return-wins", File: "analysis/facts/nilness/nilness.go", Rule: "R15.2", KeyPart: "joined",
				Old: "\t\t\tretNilness[i] = lattice{}.Merge(retNilness[i], s.get(res))", New: "\t\t\tretNilness[i] = s.get(res)"},
			{Name: "sa4023-reports-maybe", File: "staticcheck/sa4023/sa4023.go", Rule: "R15.3", KeyPart: "sa4023",
				Old: "\t\t\t\tif nillity.Outer == nilness.NeverNil &&", New: "\t\t\t\tif nillity.Outer != nilness.MaybeNil &&"},
		},
	})
}

// complitInts returns the constant integer fields of a struct value that is
// built as a composite literal (loaded from a "complit" cell, or the cell
// itself). Fields that are not stored are zero. ok is false if v is not such a
// literal or a field is stored with a non-constant.
func complitInts(v ssa.Value) (map[string]int64, bool) {
	var cell ssa.Value
	switch x := v.(type) {
	case *ssa.Alloc:
		cell = x
	case *ssa.Global:
		cell = x
	case *ssa.UnOp:
		if x.Op == token.MUL {
			switch y := x.X.(type) {
			case *ssa.Alloc:
				cell = y
			case *ssa.Global:
				cell = y
			}
		}
	}
	if cell == nil {
		return nil, false
	}
	out := map[string]int64{}
	// the field stores into the cell: for a local, its referrers; for a package-level variable, every
	// store in its package (it must be written only by the package initialiser)
	var fieldStores []*ssa.Store
	switch cl := cell.(type) {
	case *ssa.Alloc:
		for _, r := range *cl.Referrers() {
			switch r := r.(type) {
			case *ssa.Store:
				if r.Addr == ssa.Value(cl) {
					// a whole value is copied in: only fine if that value is itself such a literal
					return complitInts(r.Val)
				}
			case *ssa.FieldAddr:
				for _, rr := range *r.Referrers() {
					if st, ok := rr.(*ssa.Store); ok && st.Addr == ssa.Value(r) {
						fieldStores = append(fieldStores, st)
					}
				}
			}
		}
	case *ssa.Global:
		if cl.Pkg == nil {
			return nil, false
		}
		var whole *ssa.Store
		defer func() { _ = whole }()
		for _, m := range cl.Pkg.Members {
			fn, ok := m.(*ssa.Function)
			if !ok {
				continue
			}
			for _, f := range DeepFuncs(fn, 0) {
				bad := false
				Instrs(f, false, func(in ssa.Instruction) {
					st, ok := in.(*ssa.Store)
					if !ok {
						return
					}
					if st.Addr == ssa.Value(cl) {
						if f.Name() == "init" && whole == nil {
							whole = st // the initialiser: var x = T{…}
						} else {
							bad = true // assigned as a whole somewhere else
						}
					}
					if fa, ok := st.Addr.(*ssa.FieldAddr); ok && fa.X == ssa.Value(cl) {
						if f.Name() != "init" {
							bad = true // modified after initialisation
						}
						fieldStores = append(fieldStores, st)
					}
				})
				if bad {
					return nil, false
				}
			}
		}
		if whole != nil {
			if len(fieldStores) > 0 {
				return nil, false
			}
			return complitInts(whole.Val)
		}
		if len(fieldStores) == 0 {
			return nil, false
		}
	}
	seen := map[string]bool{}
	for _, st := range fieldStores {
		fa := st.Addr.(*ssa.FieldAddr)
		_, f := FieldOf(fa.X.Type(), fa.Field)
		k, isK := ConstInt(st.Val)
		if !isK || f == nil || seen[f.Name()] {
			return nil, false // not a constant, or assigned more than once
		}
		seen[f.Name()] = true
		out[f.Name()] = k
	}
	return out, true
}

func isTop(v ssa.Value, top int64) (bool, string) {
	m, ok := complitInts(v)
	if !ok {
		return false, "not a constant ValueNilness literal"
	}
	if m["Inner"] == top && m["Outer"] == top {
		return true, ""
	}
	return false, "Inner=" + itoa(int(m["Inner"])) + " Outer=" + itoa(int(m["Outer"]))
}

func runC15(c *Ctx) {
	np := c.Pkg("analysis/facts/nilness")
	var top int64 = -1
	c.Rule("R15.0", func() {
		t, pos := evalSquareTable(c, np, "latticeMerge")
		top = absorbing(t)
		c.Check(nilnessPkg+".latticeMerge::has-absorbing-element", pos, top > 0, "the merge table has an absorbing element ('may be anything'): index %d", top)
		name := ""
		for _, n := range np.Types.Scope().Names() {
			if k, ok := np.Types.Scope().Lookup(n).(interface {
				Val() interface{ String() string }
			}); ok {
				_ = k
			}
		}
		_ = name
	})
	if top <= 0 {
		return
	}

	c.Rule("R15.1", func() {
		c.Floor("R15.1", 8)
		// (a) defaultNilness
		dn := c.Func("analysis/facts/nilness", "defaultNilness")
		ptrLike := CallTrueEdges(dn, func(call *ssa.Call) bool { return strings.HasSuffix(CalleeName(&call.Call), "typeutil.IsPointerLike") })
		n := 0
		for _, r := range Returns(dn) {
			if ok, _ := MustPassEdges(dn, r, ptrLike); ok && len(ptrLike) > 0 {
				n++
				isT, why := isTop(ReturnOperand(r, 0), top)
				c.Check(FuncKey(dn)+"::pointer-like-default-is-top", r.Pos(), isT, "the default for a pointer-like result nothing is known about must be the absorbing element in both components (%s)", why)
			}
		}
		if n == 0 {
			c.Undecided("defaultNilness no longer returns a literal on its IsPointerLike edge")
		}
		// (b) normalize: every constant it stores into the value is top, and both zero tests exist
		nm := c.Func("analysis/facts/nilness", "normalize")
		stores := map[string]bool{}
		Instrs(nm, false, func(in ssa.Instruction) {
			st, ok := in.(*ssa.Store)
			if !ok {
				return
			}
			fa, ok := st.Addr.(*ssa.FieldAddr)
			if !ok {
				return
			}
			_, f := FieldOf(fa.X.Type(), fa.Field)
			k, isK := ConstInt(st.Val)
			if f == nil || !isK {
				return
			}
			stores[f.Name()] = true
			c.Check(FuncKey(nm)+"::"+f.Name()+"-missing-component-becomes-top", st.Pos(), k == top, "normalize may only replace a missing component by the absorbing element, never by a definite fact (stores %d)", k)
			// under the test component == 0 (Inner may additionally be reset for non-interfaces)
			zero := EqEdges(nm, func(x, y ssa.Value) bool {
				kk, ok := ConstInt(y)
				return ok && kk == 0 && AddrFrom(x, IsFieldOf("ValueNilness", f.Name()))
			})
			c.Check(FuncKey(nm)+"::"+f.Name()+"-zero-test-exists", st.Pos(), len(zero) > 0, "the replacement is driven by a test of the component against the zero value")
		})
		// the same written with locals: inner, outer := v.Inner, v.Outer; if inner == 0 { inner = top } …; return ValueNilness{inner, outer}
		for _, r := range Returns(nm) {
			u, ok := ReturnOperand(r, 0).(*ssa.UnOp)
			if !ok {
				continue
			}
			al, ok := u.X.(*ssa.Alloc)
			if !ok {
				continue
			}
			for _, ref := range *al.Referrers() {
				fa, ok := ref.(*ssa.FieldAddr)
				if !ok {
					continue
				}
				_, f := FieldOf(fa.X.Type(), fa.Field)
				for _, rr := range *fa.Referrers() {
					st, ok := rr.(*ssa.Store)
					if !ok || st.Addr != ssa.Value(fa) || f == nil {
						continue
					}
					if _, isK := ConstInt(st.Val); isK {
						continue // handled above
					}
					for x := range BackSlice(st.Val, SliceOpts{NoMemory: true}) {
						k, isK := ConstInt(x)
						if !isK {
							continue
						}
						stores[f.Name()] = true
						c.Check(FuncKey(nm)+"::"+f.Name()+"-missing-component-becomes-top", st.Pos(), k == top, "normalize may only replace a missing component by the absorbing element, never by a definite fact (stores %d)", k)
						zero := EqEdges(nm, func(x, y ssa.Value) bool {
							kk, ok := ConstInt(y)
							return ok && kk == 0 && Derives(x, IsFieldOf("ValueNilness", f.Name()))
						})
						c.Check(FuncKey(nm)+"::"+f.Name()+"-zero-test-exists", st.Pos(), len(zero) > 0, "the replacement is driven by a test of the component against the zero value")
					}
				}
			}
		}
		c.Check(FuncKey(nm)+"::both-components-normalised", nm.Pos(), stores["Inner"] && stores["Outer"], "both components are normalised")
		// (c) (*Result).Nilness without a fact
		rn := c.Func("analysis/facts/nilness", "(*Result).Nilness")
		noFact := EqEdges(rn, func(x, y ssa.Value) bool {
			k, ok := ConstInt(y)
			call, isCall := x.(*ssa.Call)
			return ok && k == 0 && isCall && IsCallTo(call, "builtin.len")
		})
		for e := range LenZeroEdges(rn, func(v ssa.Value) bool { return true }) {
			noFact[e] = true
		}
		for e := range CondEdges(rn, func(cond ssa.Value) (bool, bool) {
			ex, ok := cond.(*ssa.Extract)
			if !ok || ex.Index != 1 {
				return false, false
			}
			l, ok := ex.Tuple.(*ssa.Lookup)
			return ok && l.CommaOk, false // the key is absent: no fact either
		}) {
			noFact[e] = true
		}
		n = 0
		for _, r := range Returns(rn) {
			if ok, _ := MustPassEdges(rn, r, noFact); ok && len(noFact) > 0 {
				n++
				isT, why := isTop(ReturnOperand(r, 0), top)
				c.Check(FuncKey(rn)+"::no-fact-is-top", r.Pos(), isT, "a function without an exported fact was not analysed: its pointer-like results may be anything (%s)", why)
			}
		}
		if n == 0 {
			c.Undecided("(*Result).Nilness no longer has a 'no fact' branch that returns a literal")
		}
		// the fact that is used is normalised
		normUsed := false
		for _, r := range Returns(rn) {
			if call, ok := ReturnOperand(r, 0).(*ssa.Call); ok && IsCallTo(call, nilnessPkg+".normalize") {
				normUsed = true
			}
		}
		c.Check(FuncKey(rn)+"::facts-are-normalised", rn.Pos(), normUsed, "a fact read back is passed through normalize (missing components become top)")
		// (d) handleReturnValue: unknown callee / fewer results than the index
		impl := c.Func("analysis/facts/nilness", "impl")
		var hrv *ssa.Function
		var walk func(f *ssa.Function)
		walk = func(f *ssa.Function) {
			for _, a := range f.AnonFuncs {
				for _, ci := range Calls(a, false) {
					if ci.Common().StaticCallee() == impl {
						hrv = a
					}
				}
				walk(a)
			}
		}
		walk(impl)
		if hrv == nil {
			c.Undecided("the closure of impl that handles call results (it calls impl recursively) was not found")
		}
		unknownCallee := EqEdges(hrv, func(x, y ssa.Value) bool {
			call, ok := x.(*ssa.Call)
			return IsNilConst(y) && ok && strings.HasSuffix(CalleeName(&call.Call), "CallCommon.StaticCallee")
		})
		enough := CmpEdges(hrv, func(x, y ssa.Value) bool {
			call, ok := x.(*ssa.Call)
			_, isParam := y.(*ssa.Parameter)
			return ok && IsCallTo(call, "builtin.len") && (isParam || DerivesLocal(y, func(v ssa.Value) bool { _, ok := v.(*ssa.Parameter); return ok }))
		}, func(rel string, truth bool) bool { return (rel == ">" && truth) || (rel == "<=" && !truth) })
		few := ComplementEdges(enough)
		seenUnknown, seenFew := false, false
		for _, ci := range CallsTo(hrv, false, nilnessPkg+".state.set") {
			arg := ci.Common().Args[2]
			if ok, _ := MustPassEdges(hrv, ci, unknownCallee); ok && len(unknownCallee) > 0 {
				seenUnknown = true
				isT, why := isTop(arg, top)
				c.Check(FuncKey(impl)+"::call-result::unknown-callee-is-top", ci.Pos(), isT, "the result of a call whose callee is not statically known may be anything (%s)", why)
			}
			if ok, _ := MustPassEdges(hrv, ci, few); ok && len(few) > 0 {
				if _, isLit := complitInts(arg); isLit {
					seenFew = true
					isT, why := isTop(arg, top)
					c.Check(FuncKey(impl)+"::call-result::missing-callee-result-is-top", ci.Pos(), isT, "if the callee's summary has fewer results than the index asked for, nothing is known (%s)", why)
				}
			}
		}
		c.Check(FuncKey(impl)+"::call-result::funnels-present", hrv.Pos(), seenUnknown && seenFew, "both unknown-callee funnels exist (unknown callee: %v, short summary: %v)", seenUnknown, seenFew)
		// (e) state.get: Parameter / FreeVar defaults
		get := c.Func("analysis/facts/nilness", "(*state).get")
		for _, kind := range []string{"Parameter", "FreeVar"} {
			edges := CondEdges(get, func(cond ssa.Value) (bool, bool) {
				e, ok := cond.(*ssa.Extract)
				if !ok || e.Index != 1 {
					return false, false
				}
				ta, ok := e.Tuple.(*ssa.TypeAssert)
				return ok && strings.HasSuffix(ta.AssertedType.String(), "go/ir."+kind), true
			})
			found := false
			for e := range edges {
				var succ *ssa.BasicBlock
				for _, b := range get.Blocks {
					if b.Index == e.Block {
						succ = b.Succs[e.Succ]
					}
				}
				if succ == nil {
					continue
				}
				found = true
				isRet := func(in ssa.Instruction) bool { _, ok := in.(*ssa.Return); return ok }
				var bad *ssa.Return
				why := ""
				// every return that can be reached first from this edge must be top
				t, _ := PathAvoiding(get, succ.Instrs[0], func(in ssa.Instruction) bool {
					r, ok := in.(*ssa.Return)
					if !ok {
						return false
					}
					isT, w := isTop(ReturnOperand(r, 0), top)
					if !isT {
						bad, why = r, w
					}
					return !isT
				}, func(in ssa.Instruction) bool {
					r, ok := in.(*ssa.Return)
					if !ok {
						return false
					}
					isT, _ := isTop(ReturnOperand(r, 0), top)
					return isT
				}, nil)
				if r0, ok := succ.Instrs[0].(*ssa.Return); ok && isRet(r0) {
					if isT, w := isTop(ReturnOperand(r0, 0), top); !isT {
						t, bad, why = r0, r0, w
					} else {
						t = nil
					}
				}
				pos := get.Pos()
				if bad != nil {
					pos = bad.Pos()
				}
				c.Check(FuncKey(get)+"::"+kind+"-default-is-top", pos, t == nil, "a %s the analysis has no state for is an input of the function and may be anything (%s)", kind, why)
			}
			if !found {
				c.Check(FuncKey(get)+"::"+kind+"-default-is-top", get.Pos(), false, "state.get no longer has a default for *ir.%s", kind)
			}
		}
	})

	c.Rule("R15.2", func() {
		c.Floor("R15.2", 5)
		impl := c.Func("analysis/facts/nilness", "impl")
		var fwd ssa.Instruction
		for _, ci := range Calls(impl, false) {
			if strings.Contains(CalleeName(ci.Common()), "dfa/dense.Forward") {
				fwd = ci
			}
		}
		if fwd == nil {
			c.Undecided("impl no longer runs dense.Forward")
		}
		for i, r := range Returns(impl) {
			v := ReturnOperand(r, 0)
			switch {
			case IsNilConst(v):
				c.CheckTrivial(FuncKey(impl)+"::return#"+itoa(i)+"::nil-for-no-results", r.Pos(), true, "functions without results have no facts")
			case DerivesLocal(v, IsCallResult(nilnessPkg+".defaultNilnessForSignature")) && !InstrDominates(fwd, r):
				c.Check(FuncKey(impl)+"::return#"+itoa(i)+"::bail-out-is-the-default", r.Pos(), true, "bail-out returns the signature default")
			case DerivesLocal(v, IsFieldOf("nilnessFact", "Rets")) && !InstrDominates(fwd, r):
				c.Check(FuncKey(impl)+"::return#"+itoa(i)+"::imported-fact", r.Pos(), true, "returns the fact imported for the function")
			default:
				c.Check(FuncKey(impl)+"::return#"+itoa(i)+"::computed-after-solving", r.Pos(), InstrDominates(fwd, r), "any other result of impl must come out of the data-flow solution: a return that is neither the signature default, an imported fact nor dominated by dense.Forward claims knowledge about code that was not analysed")
			}
		}
		for _, ci := range Calls(impl, false) {
			if ci.Common().IsInvoke() || !DerivesLocal(ci.Common().Value, IsFieldOf("analysis.Pass", "ExportObjectFact")) {
				continue
			}
			c.Check(FuncKey(impl)+"::export-after-solving", ci.Pos(), InstrDominates(fwd, ci), "a fact is exported only after the solver ran")
			// what is exported has been normalised: a call to normalize dominates the export
			normed := false
			for _, nci := range CallsTo(impl, false, nilnessPkg+".normalize") {
				if ReachesFrom(impl, nci, ci) {
					normed = true
				}
			}
			c.Check(FuncKey(impl)+"::export-after-normalisation", ci.Pos(), normed, "the exported summary went through normalize")
		}
		// results are joined over all return sites
		joined := false
		Instrs(impl, true, func(in ssa.Instruction) {
			st, ok := in.(*ssa.Store)
			if !ok {
				return
			}
			if _, isIdx := st.Addr.(*ssa.IndexAddr); !isIdx {
				return
			}
			call, ok := st.Val.(*ssa.Call)
			if !ok || !IsCallTo(call, nilnessPkg+".lattice.Merge") {
				return
			}
			// Merge(old value of the same cell, state of the returned value)
			args := call.Call.Args
			old := DerivesLocal(args[len(args)-2], func(v ssa.Value) bool {
				u, ok := v.(*ssa.UnOp)
				return ok && u.Op == token.MUL && AddrKey(u.X) == AddrKey(st.Addr)
			})
			cur := DerivesLocal(args[len(args)-1], IsCallResult(nilnessPkg+".state.get"))
			if old && cur {
				joined = true
			}
		})
		c.Check(FuncKey(impl)+"::results-joined-over-all-returns", impl.Pos(), joined, "the summary of a result is the lattice join over all return statements (retNilness[i] = Merge(retNilness[i], state of the returned value)); overwriting would report the last return only")
		// non-pointer results are NeverNil by type, in the summary
		dns := c.Func("analysis/facts/nilness", "defaultNilnessForSignature")
		usesDefault := len(CallsTo(dns, false, nilnessPkg+".defaultNilness")) > 0
		if !usesDefault {
			// inlined: under IsPointerLike(result type) the element stored is the absorbing element
			ptrLike := CallTrueEdges(dns, func(call *ssa.Call) bool { return strings.HasSuffix(CalleeName(&call.Call), "typeutil.IsPointerLike") })
			Instrs(dns, false, func(in ssa.Instruction) {
				st, ok := in.(*ssa.Store)
				if !ok {
					return
				}
				if _, isIdx := st.Addr.(*ssa.IndexAddr); !isIdx {
					return
				}
				if okp, _ := MustPassEdges(dns, st, ptrLike); okp && len(ptrLike) > 0 {
					if isT, _ := isTop(st.Val, top); isT {
						usesDefault = true
					}
				}
			})
		}
		c.Check(FuncKey(dns)+"::per-result-default", dns.Pos(), usesDefault, "the signature default is the per-type default of every result")
	})

	c.Rule("R15.3", func() {
		c.Floor("R15.3", 1)
		// SA4023: reports only when the relevant component is a definite fact
		run := c.FuncOpt("staticcheck/sa4023", "run")
		if run == nil {
			c.Undecided("anchor-missing staticcheck/sa4023.run")
		}
		never := constIntOf(c, "analysis/facts/nilness", "NeverNil")
		always := constIntOf(c, "analysis/facts/nilness", "AlwaysNil")
		all := DeepFuncs(run, 1)
		n := 0
		for _, f := range all {
			isFact := func(v ssa.Value) bool { return Derives(v, IsCallResult(nilnessPkg+".Result.Nilness")) }
			definite := IntCmpConstEdges(f, isFact, true, func(lo, hi int64) bool { return lo == hi && (lo == never || lo == always) })
			tested := IntCmpConstEdges(f, isFact, true, func(lo, hi int64) bool { return true })
			if len(tested) == 0 {
				continue
			}
			// every report in this function is reached only over an edge on which the fact is exactly NeverNil (or AlwaysNil)
			var factCalls []ssa.Instruction
			for _, ci := range CallsTo(f, false, nilnessPkg+".Result.Nilness") {
				factCalls = append(factCalls, ci)
			}
			for _, ci := range Calls(f, false) {
				if !IsCallTo(ci, reportPkg+".Report") {
					continue
				}
				// only the reports that are based on a fact (they come after it was looked up)
				based := false
				for _, fc := range factCalls {
					if InstrDominates(fc, ci) {
						based = true
					}
				}
				if !based {
					continue
				}
				n++
				ok, p := MustPassEdges(f, ci, definite)
				c.Check(strings.TrimPrefix(FuncKey(run), Module+"/")+"::sa4023::tests-a-definite-fact#"+itoa(n), ci.Pos(), ok && len(definite) > 0, "SA4023 may call a comparison with nil impossible only if the fact is exactly NeverNil (or AlwaysNil): the report must lie behind an edge that establishes that; a test that also lets 'maybe' through fires on values that can be nil; path: %s", PathString(f, p))
			}
		}
		if n == 0 {
			c.Undecided("SA4023 no longer branches on the result of (*nilness.Result).Nilness before reporting")
		}
	})
	// R15.4: copy-on-write of the per-edge state. The transfer function is run
	// once per out-edge on the same in-state; a state may write into (or grow)
	// its slice only after it has taken a private copy. "cloned" without a
	// clone makes the refinement for one successor overwrite the other's.
	// R15.5: a summary is read from the solver's result; if the solver stops
	// before the fixpoint (a block that is its own successor never re-evaluated,
	// a store without re-enqueueing), loop-carried states are missing and the
	// summary claims NeverNil/AlwaysNil for values that are not. The dense
	// solver's re-enqueue pairing is therefore part of this property too (same
	// obligations as C13 R13.3).
	c.Rule("R15.5", func() {
		c.Floor("R15.5", 7)
		denseSolverObligations(c)
	})

	// R15.6: the φ-nodes of a block are evaluated in parallel. An incoming value
	// may itself be a φ of the same block (a, b = b, a in a loop); if the
	// transfer reads it after it has already updated that φ on this edge, the
	// second φ never sees the first one's old state and keeps its entry fact
	// for ever (NeverNil for a variable that is nil after one swap).
	c.Rule("R15.6", func() {
		c.Floor("R15.6", 1)
		impl := c.Func("analysis/facts/nilness", "impl")
		n := 0
		for _, f := range append([]*ssa.Function{impl}, impl.AnonFuncs...) {
			var gets, sets []ssa.Instruction
			for _, ci := range Calls(f, false) {
				name := CalleeName(ci.Common())
				args := ci.Common().Args
				switch {
				case strings.HasSuffix(name, "nilness.state.get") && len(args) == 2 && Derives(args[1], IsFieldOf("ir.Phi", "Edges")):
					gets = append(gets, ci)
				case (strings.HasSuffix(name, "nilness.state.set") || strings.HasSuffix(name, "nilness.state.setOuter") || strings.HasSuffix(name, "nilness.state.setInner")) && len(args) >= 2 && strings.HasSuffix(args[1].Type().String(), "ir.Phi"):
					sets = append(sets, ci)
				case (strings.HasSuffix(name, "nilness.state.set")) && len(args) >= 2 && Derives(args[1], func(v ssa.Value) bool {
					ta, ok := v.(*ssa.TypeAssert)
					return ok && strings.HasSuffix(ta.AssertedType.String(), "ir.Phi")
				}):
					sets = append(sets, ci)
				}
			}
			if len(gets) == 0 || len(sets) == 0 {
				continue
			}
			n++
			bad := ""
			for _, st := range sets {
				for _, g := range gets {
					if ReachesFrom(f, st, g) {
						bad = "a φ is updated and an incoming value of (possibly another) φ of the block is read afterwards"
					}
				}
			}
			c.Check(FuncKey(f)+"::phis-evaluated-in-parallel", f.Pos(), bad == "", "all incoming values of a block's φ-nodes are read before any of the φ-nodes is updated: %s", bad)
		}
		if n == 0 {
			c.Undecided("no function of nilness.impl evaluates φ-nodes from their Edges")
		}
	})
	// R15.7: "nothing recorded" is decided by the recorded value, not by the
	// length of the dense state: a slot exists as soon as any higher-numbered
	// value has been recorded, and holds the lattice identity until then. The
	// per-kind defaults (functions, globals and builtins are never nil,
	// parameters may be) must apply in that case too, otherwise a φ of a
	// function value and nil merges to AlwaysNil.
	c.Rule("R15.7", func() {
		c.Floor("R15.7", 1)
		get := c.Func("analysis/facts/nilness", "(*state).get")
		isSlot := func(v ssa.Value) bool {
			u, ok := v.(*ssa.UnOp)
			if !ok || u.Op != token.MUL {
				return false
			}
			ia, ok := u.X.(*ssa.IndexAddr)
			return ok && AddrFrom(ia.X, IsFieldOf("nilness.state", "m"))
		}
		recorded := ComplementEdges(EqEdges(get, func(x, y ssa.Value) bool {
			_, isConst := y.(*ssa.Const)
			return isConst && DerivesLocal(x, isSlot)
		}))
		n := 0
		for _, r := range Returns(get) {
			v := ReturnOperand(r, 0)
			if !DerivesLocal(v, isSlot) {
				continue
			}
			n++
			ok, path := MustPassEdges(get, r, recorded)
			c.Check(FuncKey(get)+"::recorded-value-returned-only-if-something-was-recorded#"+itoa(n), r.Pos(), ok && len(recorded) > 0, "get may return the slot of the dense state only after testing that it is not the identity (a slot exists whenever a higher-numbered value was recorded); otherwise the per-kind defaults are skipped; path: %s", PathString(get, path))
		}
		if n == 0 {
			c.Undecided("(*state).get no longer returns an element of the dense state")
		}
	})
	// R15.8: a conversion copies the operand's nilness only if the operand can
	// be nil at all. For unsafe.Pointer(uintptr) (and []byte(string)) the
	// operand is not pointer-like; its "state" is the NeverNil that get returns
	// for every non-pointer, which says nothing about the result.
	c.Rule("R15.8", func() {
		c.Floor("R15.8", 1)
		impl := c.Func("analysis/facts/nilness", "impl")
		n := 0
		for _, f := range append([]*ssa.Function{impl}, impl.AnonFuncs...) {
			Instrs(f, false, func(in ssa.Instruction) {
				ta, ok := in.(*ssa.TypeAssert)
				if !ok || !ta.CommaOk || !strings.HasSuffix(ta.AssertedType.String(), "go/ir.Convert") {
					return
				}
				var tv ssa.Value
				if refs := ta.Referrers(); refs != nil {
					for _, r := range *refs {
						if ex, ok := r.(*ssa.Extract); ok && ex.Index == 0 {
							tv = ex
						}
					}
				}
				if tv == nil {
					return
				}
				isOperand := func(v ssa.Value) bool {
					u, ok := v.(*ssa.UnOp)
					if !ok || u.Op != token.MUL {
						return false
					}
					fa, ok := u.X.(*ssa.FieldAddr)
					return ok && IsFieldOf("ir.Convert", "X")(fa) && Derives(fa.X, func(x ssa.Value) bool { return x == tv })
				}
				ptrLike := CallTrueEdges(f, func(call *ssa.Call) bool {
					return strings.HasSuffix(CalleeName(&call.Call), "typeutil.IsPointerLike") && Derives(call.Call.Args[0], isOperand)
				})
				for _, ci := range Calls(f, false) {
					if !strings.HasSuffix(CalleeName(ci.Common()), "nilness.state.set") {
						continue
					}
					args := ci.Common().Args
					if len(args) < 3 || !Derives(args[1], func(x ssa.Value) bool { return x == tv }) {
						continue
					}
					// the value set derives from get(operand)
					copies := Derives(args[2], func(x ssa.Value) bool {
						call, ok := x.(*ssa.Call)
						return ok && strings.HasSuffix(CalleeName(&call.Call), "nilness.state.get") && len(call.Call.Args) == 2 && Derives(call.Call.Args[1], isOperand)
					})
					if !copies {
						continue
					}
					n++
					ok, path := MustPassEdges(f, ci, ptrLike)
					c.Check(FuncKey(f)+"::conversion-copies-nilness-only-from-pointer-like-operands#"+itoa(n), ci.Pos(), ok && len(ptrLike) > 0, "the state of a Convert's operand is copied to its result only under IsPointerLike(operand type): for unsafe.Pointer(uintptr) the operand's NeverNil is an artefact of not being a pointer; path: %s", PathString(f, path))
				}
			})
		}
		if n == 0 {
			c.Undecided("nilness no longer copies the operand's state for *ir.Convert")
		}
	})

	c.Rule("R15.4", func() {
		c.Floor("R15.4", 6)
		nWrites := 0
		for _, fn := range c.ModuleFuncs() {
			if FuncPkgPath(fn) != nilnessPkg || fn.Signature.Recv() == nil || !strings.HasSuffix(fn.Signature.Recv().Type().String(), "nilness.state") {
				continue
			}
			isM := IsFieldOf("nilness.state", "m")
			// writes through s.m: element stores and appends
			var writes []ssa.Instruction
			var cloneStores []ssa.Instruction
			Instrs(fn, false, func(in ssa.Instruction) {
				switch x := in.(type) {
				case *ssa.Store:
					addr := x.Addr
					for {
						fa, ok := addr.(*ssa.FieldAddr)
						if !ok {
							break
						}
						addr = fa.X
					}
					if ia, ok := addr.(*ssa.IndexAddr); ok && DerivesLocal(ia.X, isM) {
						writes = append(writes, x)
					}
					if fa, ok := x.Addr.(*ssa.FieldAddr); ok && isM(fa) {
						fresh := false
						for v := range BackSlice(x.Val, SliceOpts{NoMemory: true}) {
							if call, ok := v.(*ssa.Call); ok {
								switch CalleeName(&call.Call) {
								case "slices.Clone":
									fresh = true
								}
							}
							if _, ok := v.(*ssa.MakeSlice); ok && !Derives(x.Val, IsCallResult("builtin.append")) {
								fresh = true
							}
						}
						if fresh {
							cloneStores = append(cloneStores, x)
						}
					}
				case *ssa.Call:
					if IsCallTo(x, "builtin.append") && DerivesLocal(x.Call.Args[0], isM) {
						writes = append(writes, x)
					}
				}
			})
			if len(writes) == 0 {
				continue
			}
			c.SawFunc(fn.String())
			owned := CondEdges(fn, func(cond ssa.Value) (bool, bool) {
				v, neg := StripNot(cond)
				if DerivesLocal(v, IsFieldOf("nilness.state", "cloned")) {
					return true, !neg
				}
				return false, false
			})
			isClone := func(in ssa.Instruction) bool {
				for _, x := range cloneStores {
					if x == in {
						return true
					}
				}
				// a helper method of the state that takes the private copy on every path (s.takeOwnership())
				if ci, ok := in.(ssa.CallInstruction); ok {
					h := ci.Common().StaticCallee()
					if h != nil && h.Blocks != nil && h != fn && FuncPkgPath(h) == nilnessPkg && h.Signature.Recv() != nil && len(ci.Common().Args) > 0 && ci.Common().Args[0] == ssa.Value(fn.Params[0]) {
						var hClones []ssa.Instruction
						Instrs(h, false, func(x ssa.Instruction) {
							st, ok := x.(*ssa.Store)
							if !ok {
								return
							}
							if fa, ok := st.Addr.(*ssa.FieldAddr); ok && isM(fa) && Derives(st.Val, IsCallResult("slices.Clone")) {
								hClones = append(hClones, st)
							}
						})
						for _, hc := range hClones {
							if t, _ := PathAvoiding(h, nil, func(x ssa.Instruction) bool { _, isRet := x.(*ssa.Return); return isRet }, func(x ssa.Instruction) bool { return x == hc }, nil); t == nil {
								return true
							}
						}
					}
				}
				return false
			}
			for i, w := range writes {
				nWrites++
				t, path := PathAvoiding(fn, nil, func(in ssa.Instruction) bool { return in == w }, isClone, owned)
				c.Check(FuncKey(fn)+"::writes-only-its-own-copy#"+itoa(i), w.Pos(), t == nil, "a state may store into or append to its slice only after it took a private copy (s.m = slices.Clone(s.m)) or when it already owns it (s.cloned): the in-state is shared by the transfer runs for all successors; path without a copy: %s", PathString(fn, path))
			}
			// cloned is set only together with a clone
			Instrs(fn, false, func(in ssa.Instruction) {
				st, ok := in.(*ssa.Store)
				if !ok || !IsFieldOf("nilness.state", "cloned")(st.Addr) || !isBoolConst(st.Val, true) {
					return
				}
				nWrites++
				t, path := PathAvoiding(fn, st, func(in ssa.Instruction) bool {
					if _, isRet := in.(*ssa.Return); isRet {
						return true
					}
					for _, w := range writes {
						if w == in {
							return true
						}
					}
					return false
				}, isClone, nil)
				// the two stores are independent: a copy taken earlier in the very same block is as good
				for _, x := range st.Block().Instrs {
					if x == ssa.Instruction(st) {
						break
					}
					if isClone(x) {
						t = nil
					}
				}
				c.Check(FuncKey(fn)+"::cloned-flag-implies-clone", st.Pos(), t == nil, "setting s.cloned promises that s.m is private from here on; every path from the flag to the next write or return must take the copy; path: %s", PathString(fn, path))
			})
		}
		if nWrites < 6 {
			c.Undecided("found only %d copy-on-write sites in nilness.state", nWrites)
		}
	})
}
