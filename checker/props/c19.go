package props

import (
	"go/constant"
	"go/token"
	"go/types"
	"strings"

	"golang.org/x/tools/go/ssa"

	. "verif/checker/engine"
)

const optPkg = Module + "/cmd/structlayout-optimize"
const layoutPkg = Module + "/cmd/structlayout"

func init() {
	Register(&Property{
		ID:       "C19",
		Patterns: []string{"./cmd/structlayout", "./cmd/structlayout-optimize", "./structlayout", "./go/gcsizes"},
		NeedSSA:  true,
		Explanation: "Almost everything in this property is about numbers computed at run time (offsets, sizes, padding for all struct types, against the compiler as oracle) and is NOT decided. Decided is the one clause whose truth is in the shape of the code — 'structlayout-optimize outputs a permutation of the input fields' and 'the listing covers every field': " +
			"the only thing optimize does to the field list is sort it through a sort.Interface whose Swap is a transposition of two elements of that same list and whose Len is its length (R19.1); pad emits every input field exactly once per loop iteration, unconditionally and in order, and everything else it emits is flagged IsPadding (R19.2); main feeds pad with the list optimize sorted and prints pad's result (R19.3); " +
			"structlayout's sizes emits, for every field of the struct, either that field or the recursive listing of its struct type on every path, and every other element it emits is flagged IsPadding (R19.4)." +
			" Also decided (a necessary condition of 'no gaps or overlaps' for nested structs): offset arithmetic in structlayout's sizes and in pad keeps its frame of reference — offsets from the start of the outermost struct are never subtracted from, added to or compared with quantities relative to an inner struct (an abstract interpretation over two units; this is the rule that the lost trailing padding of nested structs, F20, violates).",
		RuleText:    "must-pass-through path rules and value-origin checks on the SSA of the two commands",
		Assumptions: []string{"sort.Sort only calls Len, Less and Swap of the interface it is given"},
		Run:         runC19,
		Mutants: []Mutant{
			{Name: "trailing-padding-relative-size-minus-absolute-end", File: "cmd/structlayout/main.go", Rule: "R19.5", KeyPart: "sizes::offset-arithmetic-keeps-its-frame",
				Old: "\tpad := base + s.Sizeof(typ) - field.End\n", New: "\tpad := s.Sizeof(typ) - field.End\n"},
			{Name: "padding-compares-relative-offset-with-absolute-position", File: "cmd/structlayout/main.go", Rule: "R19.5", KeyPart: "sizes::offset-arithmetic-keeps-its-frame",
				Old: "\tfor i := range offsets {\n\t\toffsets[i] += base\n\t}\n", New: ""},
			{Name: "swap-duplicates-element", File: "cmd/structlayout-optimize/main.go", Rule: "R19.1", KeyPart: "Swap",
				Old: "\ts.fields[i], s.fields[j] = s.fields[j], s.fields[i]\n", New: "\ts.fields[i], s.fields[j] = s.fields[j], s.fields[j]\n"},
			{Name: "optimize-drops-zero-sized", File: "cmd/structlayout-optimize/main.go", Rule: "R19.2", KeyPart: "pad",
				Old: "\t\tfield.Start = pos\n\t\tfield.End = pos + field.Size\n\t\tout = append(out, field)\n", New: "\t\tfield.Start = pos\n\t\tfield.End = pos + field.Size\n\t\tif field.Size != 0 || field.Align > 1 {\n\t\t\tout = append(out, field)\n\t\t}\n"},
			{Name: "padding-not-flagged", File: "cmd/structlayout-optimize/main.go", Rule: "R19.2", KeyPart: "pad",
				Old: "\t\tout = append(out, st.Field{\n\t\t\tIsPadding: true,\n\t\t\tStart:     field.End,", New: "\t\tout = append(out, st.Field{\n\t\t\tStart:     field.End,"},
			{Name: "prints-unsorted-copy", File: "cmd/structlayout-optimize/main.go", Rule: "R19.3", KeyPart: "main",
				Old: "\toptimize(fields)\n\tfields = pad(fields)\n", New: "\toptimize(slices.Clone(fields))\n\tfields = pad(fields)\n",
				More: []Edit{{File: "cmd/structlayout-optimize/main.go", Old: "\t\"os\"\n", New: "\t\"os\"\n\t\"slices\"\n"}}},
			{Name: "layout-skips-empty-struct-fields", File: "cmd/structlayout/main.go", Rule: "R19.4", KeyPart: "sizes",
				Old: "\t\tif typ2, ok := field.Type().Underlying().(*types.Struct); ok && typ2.NumFields() != 0 {\n\t\t\tout = sizes(typ2, prefix+\".\"+field.Name(), pos, out)\n\t\t} else {", New: "\t\tif typ2, ok := field.Type().Underlying().(*types.Struct); ok {\n\t\t\tif typ2.NumFields() != 0 {\n\t\t\t\tout = sizes(typ2, prefix+\".\"+field.Name(), pos, out)\n\t\t\t}\n\t\t} else {"},
		},
	})
}

// paddingLiteral reports whether v is a structlayout.Field literal whose IsPadding is the constant true.
func paddingLiteral(v ssa.Value) bool {
	return paddingLiteralDepth(v, 0)
}

func paddingLiteralDepth(v ssa.Value, depth int) bool {
	ok := false
	for x := range BackSlice(v, SliceOpts{}) {
		// built by a helper of the package: every return of the helper is a padding element
		if call, isCall := x.(*ssa.Call); isCall && depth < 2 {
			if callee := call.Call.StaticCallee(); callee != nil && FuncInModule(callee) && callee.Blocks != nil && strings.HasSuffix(call.Type().String(), "structlayout.Field") {
				all := len(Returns(callee)) > 0
				for _, r := range Returns(callee) {
					if len(r.Results) != 1 || !paddingLiteralDepth(ReturnOperand(r, 0), depth+1) {
						all = false
					}
				}
				if all {
					ok = true
				}
			}
		}
		al, isAl := x.(*ssa.Alloc)
		if !isAl || !strings.HasSuffix(al.Type().String(), "structlayout.Field") {
			continue
		}
		whole := false
		for _, r := range *al.Referrers() {
			if st, isSt := r.(*ssa.Store); isSt && st.Addr == ssa.Value(al) {
				whole = true // a copy of some other element, not an element built here
			}
		}
		if whole {
			continue
		}
		for _, r := range *al.Referrers() {
			fa, isFA := r.(*ssa.FieldAddr)
			if !isFA {
				continue
			}
			if _, f := FieldOf(fa.X.Type(), fa.Field); f == nil || f.Name() != "IsPadding" {
				continue
			}
			for _, rr := range *fa.Referrers() {
				if st, isSt := rr.(*ssa.Store); isSt && c19True(st.Val) {
					ok = true
				}
			}
		}
	}
	return ok
}

func runC19(c *Ctx) {
	c.Rule("R19.1", func() {
		c.Floor("R19.1", 3)
		opt := c.Func("cmd/structlayout-optimize", "optimize")
		// optimize: no stores to elements, no appends; exactly a sort call on a wrapper around the parameter
		param := opt.Params[0]
		sorted := false
		var wrapT string
		for _, ci := range Calls(opt, false) {
			n := CalleeName(ci.Common())
			if n == "sort.Sort" || n == "sort.Stable" {
				if Derives(ci.Common().Args[0], func(v ssa.Value) bool { return v == ssa.Value(param) }) {
					sorted = true
					for x := range BackSlice(ci.Common().Args[0], SliceOpts{}) {
						if mi, ok := x.(*ssa.MakeInterface); ok {
							wrapT = mi.X.Type().String()
						}
					}
				}
			}
		}
		other := ""
		Instrs(opt, false, func(in ssa.Instruction) {
			switch x := in.(type) {
			case *ssa.Store:
				if AddrFrom(x.Addr, func(v ssa.Value) bool { return v == ssa.Value(param) }) {
					other = "stores into the list"
				}
			case *ssa.Call:
				if IsCallTo(x, "builtin.append", "builtin.copy", "builtin.clear") {
					other = "calls " + CalleeName(&x.Call)
				}
			}
		})
		c.Check(FuncKey(opt)+"::only-sorts", opt.Pos(), sorted && other == "", "optimize must only reorder the list it is given (sort.Sort on a wrapper of the parameter); %s", other)
		if wrapT == "" {
			c.Undecided("optimize no longer sorts through a sort.Interface wrapper")
		}
		tn := wrapT[strings.LastIndex(wrapT, ".")+1:]
		swap := c.Func("cmd/structlayout-optimize", "(*"+tn+").Swap")
		length := c.Func("cmd/structlayout-optimize", "(*"+tn+").Len")
		// Swap: two stores; store to [a] the old value of [b] and vice versa
		type st struct{ dst, src string }
		var stores []st
		Instrs(swap, false, func(in ssa.Instruction) {
			s, ok := in.(*ssa.Store)
			if !ok {
				return
			}
			ia, ok := s.Addr.(*ssa.IndexAddr)
			if !ok {
				return
			}
			u, ok := s.Val.(*ssa.UnOp)
			if !ok || u.Op != token.MUL {
				stores = append(stores, st{ia.Index.Name(), "?"})
				return
			}
			ia2, ok := u.X.(*ssa.IndexAddr)
			if !ok {
				stores = append(stores, st{ia.Index.Name(), "?"})
				return
			}
			// both index the same field of the receiver
			same := AccessPath(ia.X) == AccessPath(ia2.X)
			src := ia2.Index.Name()
			if !same {
				src = "?"
			}
			stores = append(stores, st{ia.Index.Name(), src})
		})
		okSwap := len(stores) == 2 && stores[0].dst == stores[1].src && stores[1].dst == stores[0].src && stores[0].dst != stores[1].dst
		// the loads must both precede the stores (read both, then write both)
		c.Check(FuncKey(swap)+"::transposition", swap.Pos(), okSwap, "Swap must exchange exactly the two elements i and j of the list (found element moves %v); anything else duplicates or loses a field", stores)
		okLen := false
		for _, r := range Returns(length) {
			if call, ok := ReturnOperand(r, 0).(*ssa.Call); ok && IsCallTo(call, "builtin.len") && AccessPath(call.Call.Args[0]) != "" {
				okLen = strings.HasSuffix(AccessPath(call.Call.Args[0]), ".fields") || strings.Contains(AccessPath(call.Call.Args[0]), "fields")
			}
		}
		c.Check(FuncKey(length)+"::whole-list", length.Pos(), okLen, "Len is the length of the list that is sorted, so no element is left out")
	})

	c.Rule("R19.2", func() {
		c.Floor("R19.2", 2)
		pad := c.Func("cmd/structlayout-optimize", "pad")
		checkEmit(c, pad, func(v ssa.Value) bool {
			// the loop variable: an element of the parameter
			return DerivesLocal(v, func(x ssa.Value) bool {
				ia, ok := x.(*ssa.IndexAddr)
				return ok && ia.X == ssa.Value(pad.Params[0])
			})
		}, func(u *ssa.UnOp) bool {
			ia := u.X.(*ssa.IndexAddr)
			return DerivesLocal(ia.X, func(v ssa.Value) bool { return v == ssa.Value(pad.Params[0]) })
		}, nil, "pad")
	})

	c.Rule("R19.3", func() {
		c.Floor("R19.3", 2)
		m := c.Func("cmd/structlayout-optimize", "main")
		var optCall, padCall ssa.CallInstruction
		for _, ci := range Calls(m, false) {
			switch CalleeName(ci.Common()) {
			case optPkg + ".optimize":
				optCall = ci
			case optPkg + ".pad":
				padCall = ci
			}
		}
		if optCall == nil || padCall == nil {
			c.Undecided("main no longer calls optimize and pad")
		}
		same := optCall.Common().Args[0] == padCall.Common().Args[0]
		c.Check(FuncKey(m)+"::pad-gets-the-sorted-list", padCall.Pos(), same && InstrDominates(optCall, padCall), "pad must receive the very list that optimize sorted (in place), after it was sorted")
		printed := false
		for _, ci := range Calls(m, false) {
			n := CalleeName(ci.Common())
			if strings.HasSuffix(n, "json.Encoder.Encode") || n == "fmt.Println" {
				for _, a := range ci.Common().Args {
					if Derives(a, func(v ssa.Value) bool { return v == padCall.Value() }) {
						printed = true
					}
				}
			}
		}
		c.Check(FuncKey(m)+"::prints-pad-result", m.Pos(), printed, "what is printed is the result of pad")
	})

	// R19.5: offsets keep their frame of reference. sizes() recurses into
	// nested structs with a base offset; every entry it emits carries offsets
	// from the start of the OUTERMOST struct, while Sizeof/Alignof and the
	// entries' Size are relative. Mixing the two in one subtraction or
	// comparison is right only when base is 0 (this is what lost the trailing
	// padding of nested structs, F20).
	c.Rule("R19.5", func() {
		c.Floor("R19.5", 3)
		for _, name := range []string{"sizes"} {
			offsetDimensionObligations(c, c.Func("cmd/structlayout", name))
		}
		offsetDimensionObligations(c, c.Func("cmd/structlayout-optimize", "pad"))
	})

	c.Rule("R19.4", func() {
		c.Floor("R19.4", 2)
		sz := c.Func("cmd/structlayout", "sizes")
		checkEmit(c, sz, func(v ssa.Value) bool {
			// a field literal built from the i-th *types.Var (its Name / Type)
			return Derives(v, func(x ssa.Value) bool {
				call, ok := x.(*ssa.Call)
				return ok && strings.HasSuffix(CalleeName(&call.Call), "types.Var.Name") || ok && strings.HasSuffix(CalleeName(&call.Call), "types.object.Name")
			})
		}, func(u *ssa.UnOp) bool {
			return strings.HasSuffix(u.Type().String(), "go/types.Var")
		}, func(in ssa.Instruction) bool {
			ci, ok := in.(ssa.CallInstruction)
			return ok && ci.Common().StaticCallee() == sz
		}, "sizes")
	})
}

// checkEmit checks an "emit every element" loop: in fn, the loop that ranges
// over the input has, on every path through its body, either an append of the
// element (isElem on the appended value) or a call accepted by alt; every
// other append of a Field literal must be flagged IsPadding.
func checkEmit(c *Ctx, fn *ssa.Function, isElem func(ssa.Value) bool, isElemLoad func(*ssa.UnOp) bool, alt func(ssa.Instruction) bool, name string) {
	var elemAppends, others []*ssa.Call
	Instrs(fn, false, func(in ssa.Instruction) {
		call, ok := in.(*ssa.Call)
		if !ok || !IsCallTo(call, "builtin.append") {
			return
		}
		if !strings.Contains(call.Type().String(), "structlayout.Field") {
			return
		}
		if isElem(call.Call.Args[1]) && !paddingLiteral(call.Call.Args[1]) {
			elemAppends = append(elemAppends, call)
		} else {
			others = append(others, call)
		}
	})
	if len(elemAppends) == 0 {
		c.Undecided("%s no longer appends its input elements to the output", name)
	}
	for i, o := range others {
		c.Check(FuncKey(fn)+"::extra-element-is-padding#"+itoa(i), o.Pos(), paddingLiteral(o.Call.Args[1]), "every element %s adds beyond the input fields must be marked IsPadding, otherwise the output is not a permutation of the input fields plus padding", name)
	}
	// one iteration = from loading an input element to loading the next one (or returning); every such path
	// passes an element append (or alt). The element loads are found by what they load, so the loop may be
	// a range loop or a three-clause loop.
	emit := func(in ssa.Instruction) bool {
		for _, a := range elemAppends {
			if in == ssa.Instruction(a) {
				return true
			}
		}
		return alt != nil && alt(in)
	}
	var loads []ssa.Instruction
	Instrs(fn, false, func(in ssa.Instruction) {
		u, ok := in.(*ssa.UnOp)
		if !ok || u.Op != token.MUL {
			return
		}
		if _, isIdx := u.X.(*ssa.IndexAddr); !isIdx {
			return
		}
		// an input element: it feeds one of the element appends (or the alternative), and is loaded in a loop
		feeds := false
		for _, a := range elemAppends {
			if Derives(a.Call.Args[1], func(v ssa.Value) bool { return v == ssa.Value(u) }) {
				feeds = true
			}
		}
		if feeds && ReachesFrom(fn, u, u) && isElemLoad(u) {
			loads = append(loads, u)
		}
	})
	if len(loads) == 0 {
		c.Undecided("%s: the loop over the input fields was not found", name)
	}
	var t ssa.Instruction
	var path []int
	first := loads[0]
	for _, ld := range loads {
		ld := ld
		tt, pp := PathAvoiding(fn, ld, func(in ssa.Instruction) bool {
			if _, ok := in.(*ssa.Return); ok {
				return true
			}
			return in == ld
		}, emit, nil)
		if tt != nil {
			t, path, first = tt, pp, ld
		}
	}
	c.Check(FuncKey(fn)+"::every-field-emitted", first.Pos(), t == nil, "every iteration over the input fields must emit that field (unconditionally): a field that is skipped on some path is missing from the output; path: %s", PathString(fn, path))
}

// offsetDimension is a small abstract interpretation that tells offsets from
// the start of the outermost struct ("abs") apart from sizes and offsets that
// are relative to something else ("rel"). A Field's Start and End are abs, its
// Size and Align rel; a parameter called base is abs; what the size functions
// return is rel. abs±rel = abs, abs−abs = rel, rel±rel = rel; rel−abs,
// abs+abs and an ordering comparison between abs and rel are unit errors.
type c19dim int

const (
	dimUnknown c19dim = iota
	dimPoly           // constants: fit either
	dimRel
	dimAbs
)

func (d c19dim) String() string {
	return [...]string{"unknown", "constant", "relative (a size, or an offset within an inner struct)", "absolute (an offset from the start of the outermost struct)"}[d]
}

func offsetDimensionObligations(c *Ctx, fn *ssa.Function) {
	const bottom c19dim = -1 // not computed yet
	dims := map[ssa.Value]c19dim{}
	get := func(v ssa.Value) c19dim {
		if _, isConst := v.(*ssa.Const); isConst {
			return dimPoly
		}
		if p, ok := v.(*ssa.Parameter); ok {
			if p.Name() == "base" {
				return dimAbs
			}
			return dimUnknown
		}
		if d, ok := dims[v]; ok {
			return d
		}
		return dimUnknown // not an instruction of this function
	}
	fieldDim := func(name string) c19dim {
		switch name {
		case "Start", "End":
			return dimAbs
		case "Size", "Align":
			return dimRel
		}
		return dimUnknown
	}
	// join over alternatives; bottom and constants do not contribute
	join := func(a, b c19dim) c19dim {
		switch {
		case a == bottom || a == dimPoly:
			return b
		case b == bottom || b == dimPoly:
			return a
		case a == b:
			return a
		}
		return dimUnknown
	}
	var values []ssa.Value
	Instrs(fn, false, func(in ssa.Instruction) {
		if v, ok := in.(ssa.Value); ok {
			values = append(values, v)
			dims[v] = bottom
		}
	})
	eval := func(v ssa.Value) c19dim {
		switch x := v.(type) {
		case *ssa.Call:
			name := LastField(CalleeName(&x.Call))
			if x.Call.IsInvoke() {
				name = x.Call.Method.Name()
			}
			if name == "Sizeof" || name == "Alignof" {
				return dimRel
			}
			return dimUnknown
		case *ssa.Convert:
			return get(x.X)
		case *ssa.ChangeType:
			return get(x.X)
		case *ssa.Phi:
			d := bottom
			for _, e := range x.Edges {
				d = join(d, get(e))
			}
			return d
		case *ssa.Field:
			if _, f := FieldOf(x.X.Type(), x.Field); f != nil && strings.HasSuffix(x.X.Type().String(), "structlayout.Field") {
				return fieldDim(f.Name())
			}
			return dimUnknown
		case *ssa.UnOp:
			if x.Op != token.MUL {
				return dimUnknown
			}
			switch a := x.X.(type) {
			case *ssa.FieldAddr:
				if owner, f := FieldOf(a.X.Type(), a.Field); f != nil && strings.HasSuffix(owner, "structlayout.Field") {
					return fieldDim(f.Name())
				}
				return dimUnknown
			case *ssa.IndexAddr:
				// the operand of an in-place re-basing (offsets[i] += base): the element as it was produced
				rebased := false
				Instrs(fn, false, func(in ssa.Instruction) {
					st, ok := in.(*ssa.Store)
					if !ok {
						return
					}
					if sa, ok := st.Addr.(*ssa.IndexAddr); ok && sa.X == a.X && sa.Index == a.Index && Derives(st.Val, func(y ssa.Value) bool { return y == ssa.Value(x) }) {
						rebased = true
					}
				})
				if rebased {
					if Derives(a.X, func(y ssa.Value) bool {
						call, ok := y.(*ssa.Call)
						return ok && strings.HasSuffix(strings.ToLower(LastField(CalleeName(&call.Call))), "offsetsof")
					}) {
						return dimRel
					}
					return dimUnknown
				}
				// an element of a list: what was stored into the list's elements in this function
				d := bottom
				n := 0
				Instrs(fn, false, func(in ssa.Instruction) {
					st, ok := in.(*ssa.Store)
					if !ok {
						return
					}
					if ia, ok := st.Addr.(*ssa.IndexAddr); ok && ia.X == a.X {
						n++
						d = join(d, get(st.Val))
					}
				})
				if n == 0 {
					// filled elsewhere: what an Offsetsof function returns is relative to the struct it was asked about
					if Derives(a.X, func(y ssa.Value) bool {
						call, ok := y.(*ssa.Call)
						return ok && strings.HasSuffix(strings.ToLower(LastField(CalleeName(&call.Call))), "offsetsof")
					}) {
						return dimRel
					}
					return dimUnknown
				}
				return d
			case *ssa.Alloc:
				d := bottom
				Instrs(fn, false, func(in ssa.Instruction) {
					if st, ok := in.(*ssa.Store); ok && st.Addr == ssa.Value(a) {
						d = join(d, get(st.Val))
					}
				})
				return d
			}
			return dimUnknown
		case *ssa.BinOp:
			l, r := get(x.X), get(x.Y)
			if l == bottom || r == bottom {
				return bottom
			}
			if l == dimPoly {
				l = dimRel
			}
			if r == dimPoly {
				r = dimRel
			}
			switch {
			case l == dimUnknown || r == dimUnknown:
				return dimUnknown
			case x.Op == token.ADD && l == dimAbs && r == dimAbs:
				return dimAbs // a unit error, reported below; keep a definite kind so that it does not hide others
			case x.Op == token.ADD:
				if l == dimAbs || r == dimAbs {
					return dimAbs
				}
				return dimRel
			case x.Op == token.SUB && l == dimAbs && r == dimAbs:
				return dimRel
			case x.Op == token.SUB && l == dimAbs:
				return dimAbs
			case x.Op == token.SUB && r == dimAbs:
				return dimRel // a unit error, reported below
			case x.Op == token.SUB:
				return dimRel
			}
			return dimUnknown
		}
		return dimUnknown
	}
	for round := 0; round < 30; round++ {
		changed := false
		for _, v := range values {
			nd := eval(v)
			old := dims[v]
			// monotone: bottom → {rel, abs, poly} → unknown
			if old != bottom && old != nd && nd != bottom {
				nd = dimUnknown
			}
			if nd != old && !(nd == bottom) {
				dims[v] = nd
				changed = true
			}
		}
		if !changed {
			break
		}
	}
	dim := func(v ssa.Value) c19dim {
		d := get(v)
		if d == bottom {
			return dimUnknown
		}
		return d
	}
	n := 0
	Instrs(fn, false, func(in ssa.Instruction) {
		x, ok := in.(*ssa.BinOp)
		if !ok {
			return
		}
		if b, isBasic := x.X.Type().Underlying().(*types.Basic); !isBasic || b.Info()&types.IsInteger == 0 {
			return
		}
		l, r := dim(x.X), dim(x.Y)
		if l == dimUnknown || r == dimUnknown || l == dimPoly || r == dimPoly {
			return
		}
		bad := ""
		switch x.Op {
		case token.SUB:
			if l == dimRel && r == dimAbs {
				bad = "subtracts an absolute offset from a relative quantity"
			}
		case token.ADD:
			if l == dimAbs && r == dimAbs {
				bad = "adds two absolute offsets"
			}
		case token.LSS, token.LEQ, token.GTR, token.GEQ, token.EQL, token.NEQ:
			if l != r {
				bad = "compares an absolute offset with a relative quantity"
			}
		default:
			return
		}
		n++
		c.Check(FuncKey(fn)+"::offset-arithmetic-keeps-its-frame#"+itoa(n), x.Pos(), bad == "", "this expression %s (left operand: %s; right operand: %s): the result is only right for a struct that starts at offset 0, so nested structs are laid out with gaps or overlaps", bad, l, r)
	})
}

func c19True(v ssa.Value) bool {
	k, ok := v.(*ssa.Const)
	return ok && k.Value != nil && k.Value.Kind() == constant.Bool && constant.BoolVal(k.Value)
}
