package props

import (
	"go/token"
	"sort"
	"strings"

	"golang.org/x/tools/go/ssa"

	. "verif/checker/engine"
)

func init() {
	Register(&Property{
		ID:       "C14",
		Patterns: []string{"./go/ir"},
		NeedSSA:  true,
		Explanation: "Exactness of the Lengauer–Tarjan implementation on all CFGs is algorithmic and is NOT decided. Decided are the freshness and single-source conditions every dominance query relies on: the dominator tree is built after the last CFG mutation of finishBody (no function that writes Preds/Succs/Index/Blocks is reachable from any call that follows buildDomTree, and optimizeBlocks — whose result 'all blocks reachable' the algorithm assumes — precedes it), and no exported function of go/ir statically reaches a CFG mutator, so the CFG cannot change under an existing tree (R14.1); " +
			"the dominance fields are written only by code reachable from buildDomTree, and the query functions read only those fields (R14.2); numberDomTree assigns preorder numbers before and postorder numbers after visiting the children, and Dominates compares them in the matching directions (pre(b) <= pre(c) and post(c) <= post(b)), both roots (entry, recover) being numbered (R14.3)." +
			" Also decided: Lengauer–Tarjan's vertex orders — steps 2/3 visit the DFS numbering in decreasing order and link afterwards; step 4 resolves deferred immediate dominators in increasing DFS number.",
		RuleText:    "field effect sets closed over static callees in go/ir; ordering queries in finishBody and numberDomTree on the SSA CFG",
		Assumptions: []string{"function bodies are built through the Function.build field (a dynamic call), so the static call graph of exported API functions contains no builder code"},
		Run:         runC14,
		Mutants: []Mutant{
			{Name: "lt-step4-in-block-index-order", File: "go/ir/dom.go", Rule: "R14.5", KeyPart: "deferred-idoms-resolved-in-increasing-dfs-number",
				Old: "\tfor _, w := range preorder[1:] {\n", New: "\tfor _, w := range fn.Blocks[1:] {\n"},
			{Name: "lt-step4-in-reverse-preorder", File: "go/ir/dom.go", Rule: "R14.5", KeyPart: "deferred-idoms-resolved-in-increasing-dfs-number",
				Old: "\tfor _, w := range preorder[1:] {\n", New: "\tfor k := n - 1; k >= 1; k-- {\n\t\tw := preorder[k]\n"},
			{Name: "lt-main-loop-ascending", File: "go/ir/dom.go", Rule: "R14.5", KeyPart: "semidominators-in-decreasing-dfs-number",
				Old: "\tfor i := int32(n) - 1; i > 0; i-- {\n", New: "\tfor i := int32(1); i < int32(n); i++ {\n"},
			{Name: "lt-skips-latch-predecessors", File: "go/ir/dom.go", Rule: "R14.4", KeyPart: "semidominator-considers-every-predecessor",
				Old: "\t\tfor _, v := range w.Preds {\n\t\t\tu := lt.eval(v)\n", New: "\t\tfor _, v := range w.Preds {\n\t\t\tif v == w || lt.parent[v.Index] == w {\n\t\t\t\tcontinue\n\t\t\t}\n\t\t\tu := lt.eval(v)\n"},
			{Name: "optimize-after-domtree", File: "go/ir/func.go", Rule: "R14.1", KeyPart: "finishBody",
				Old: "\toptimizeBlocks(f)\n\tbuildReferrers(f)\n\tbuildDomTree(f)\n", New: "\tbuildReferrers(f)\n\tbuildDomTree(f)\n\toptimizeBlocks(f)\n"},
			{Name: "exported-cfg-mutator", File: "go/ir/func.go", Rule: "R14.1", KeyPart: "exported",
				Old: "func (f *Function) removeNilBlocks() {", New: "// Compact removes nil blocks.\nfunc (f *Function) Compact() { f.removeNilBlocks() }\n\nfunc (f *Function) removeNilBlocks() {"},
			{Name: "dom-field-written-elsewhere", File: "go/ir/blockopt.go", Rule: "R14.2", KeyPart: "writers",
				Old: "\ta.Succs = append(a.succs2[:0], b.Succs...)\n", New: "\ta.Succs = append(a.succs2[:0], b.Succs...)\n\ta.dom.idom = b.dom.idom\n"},
			{Name: "dominates-flipped", File: "go/ir/dom.go", Rule: "R14.3", KeyPart: "Dominates",
				Old: "\treturn b.dom.pre <= c.dom.pre && c.dom.post <= b.dom.post\n", New: "\treturn b.dom.pre <= c.dom.pre && b.dom.post <= c.dom.post\n"},
			{Name: "dominates-strict", File: "go/ir/dom.go", Rule: "R14.3", KeyPart: "Dominates",
				Old: "\treturn b.dom.pre <= c.dom.pre && c.dom.post <= b.dom.post\n", New: "\treturn b.dom.pre < c.dom.pre && c.dom.post <= b.dom.post\n"},
			{Name: "postorder-numbered-before-children", File: "go/ir/dom.go", Rule: "R14.3", KeyPart: "numberDomTree",
				Old: "\tv.dom.pre = pre\n\tpre++\n\tfor _, child := range v.dom.children {\n\t\tpre, post = numberDomTree(child, pre, post)\n\t}\n\tv.dom.post = post\n\tpost++\n",
				New: "\tv.dom.pre = pre\n\tpre++\n\tv.dom.post = post\n\tpost++\n\tfor _, child := range v.dom.children {\n\t\tpre, post = numberDomTree(child, pre, post)\n\t}\n"},
			{Name: "recover-root-not-numbered", File: "go/ir/dom.go", Rule: "R14.3", KeyPart: "both-roots",
				Old: "\tpre, post := numberDomTree(root, 0, 0)\n\tif recover != nil {\n\t\tnumberDomTree(recover, pre, post)\n\t}\n", New: "\tpre, post := numberDomTree(root, 0, 0)\n\t_, _ = pre, post\n"},
		},
	})
}

func runC14(c *Ctx) {
	var funcs []*ssa.Function
	for _, fn := range c.ModuleFuncs() {
		if FuncPkgPath(fn) == irPkg && len(fn.Blocks) > 0 {
			funcs = append(funcs, fn)
		}
	}
	cfgFields := map[string]bool{"ir.BasicBlock.Preds": true, "ir.BasicBlock.Succs": true, "ir.BasicBlock.Index": true, "ir.Function.Blocks": true}
	domFields := map[string]bool{"ir.BasicBlock.dom": true, "ir.domInfo.idom": true, "ir.domInfo.children": true, "ir.domInfo.pre": true, "ir.domInfo.post": true}
	writes := func(fn *ssa.Function, set map[string]bool) (string, token.Pos) {
		for _, a := range FieldAccesses(fn) {
			k := shortOwner(a.Owner) + "." + a.Field
			if set[k] && (a.Kind == "write" || a.Kind == "content") {
				// construction of a fresh block is not a mutation of a built CFG
				if st, ok := a.Instr.(*ssa.Store); ok {
					if fa, ok := st.Addr.(*ssa.FieldAddr); ok {
						if al, ok := fa.X.(*ssa.Alloc); ok && al.Comment == "complit" {
							continue
						}
					}
				}
				return k, a.Instr.Pos()
			}
		}
		return "", token.NoPos
	}
	mutator := map[*ssa.Function]string{}
	for _, fn := range funcs {
		if k, _ := writes(fn, cfgFields); k != "" {
			mutator[fn] = k
		}
	}
	// static reachability to a mutator
	memo := map[*ssa.Function]string{}
	var reachMut func(fn *ssa.Function, seen map[*ssa.Function]bool) string
	reachMut = func(fn *ssa.Function, seen map[*ssa.Function]bool) string {
		if v, ok := memo[fn]; ok {
			return v
		}
		if seen[fn] {
			return ""
		}
		seen[fn] = true
		res := ""
		if k, ok := mutator[fn]; ok {
			res = fn.Name() + " (writes " + k + ")"
		}
		if res == "" {
			for _, ci := range Calls(fn, true) {
				if callee := ci.Common().StaticCallee(); callee != nil && FuncPkgPath(callee) == irPkg {
					if r := reachMut(callee, seen); r != "" {
						res = callee.Name() + " → " + r
						break
					}
				}
			}
		}
		memo[fn] = res
		return res
	}

	c.Rule("R14.1", func() {
		c.Floor("R14.1", 3)
		var names []string
		for fn, k := range mutator {
			names = append(names, fn.Name()+":"+k)
		}
		sort.Strings(names)
		c.Note("R14.1: CFG mutators in go/ir (functions writing Preds/Succs/Index/Blocks): %v", names)
		if len(mutator) < 6 {
			c.Undecided("found only %d CFG mutators in go/ir", len(mutator))
		}
		fb := c.Func("go/ir", "(*Function).finishBody")
		var dom, opt ssa.Instruction
		for _, ci := range Calls(fb, false) {
			if IsCallTo(ci, irPkg+".buildDomTree") {
				dom = ci
			}
			if IsCallTo(ci, irPkg+".optimizeBlocks") {
				opt = ci
			}
		}
		if dom == nil {
			c.Undecided("finishBody no longer calls buildDomTree")
		}
		c.Check(FuncKey(fb)+"::optimizeBlocks-before-buildDomTree", dom.Pos(), opt != nil && InstrDominates(opt, dom), "block optimisation (which removes unreachable blocks, the algorithm's precondition, and rewires edges) runs before the dominator tree is built")
		bad := ""
		var badPos token.Pos
		for _, ci := range Calls(fb, false) {
			if ci == dom || !ReachesFrom(fb, dom, ci) {
				continue
			}
			callee := ci.Common().StaticCallee()
			if callee == nil || FuncPkgPath(callee) != irPkg {
				continue
			}
			if r := reachMut(callee, map[*ssa.Function]bool{}); r != "" {
				bad, badPos = callee.Name()+" → "+r, ci.Pos()
			}
		}
		pos := dom.Pos()
		if badPos.IsValid() {
			pos = badPos
		}
		c.Check(FuncKey(fb)+"::no-CFG-mutation-after-buildDomTree", pos, bad == "", "after buildDomTree nothing may change Preds/Succs/Index/Blocks, otherwise dominance queries answer for a CFG that no longer exists; mutation reachable: %s", bad)
		// direct mutation in finishBody after the call
		Instrs(fb, false, func(in ssa.Instruction) {
			st, ok := in.(*ssa.Store)
			if !ok || !ReachesFrom(fb, dom, st) {
				return
			}
			if fa, ok := st.Addr.(*ssa.FieldAddr); ok {
				if owner, f := FieldOf(fa.X.Type(), fa.Field); f != nil && cfgFields[shortOwner(owner)+"."+f.Name()] {
					c.Check(FuncKey(fb)+"::no-CFG-mutation-after-buildDomTree::direct", st.Pos(), false, "finishBody writes %s.%s after building the dominator tree", shortOwner(owner), f.Name())
				}
			}
		})
		// no exported function statically reaches a mutator
		n := 0
		for _, fn := range funcs {
			obj := fn.Object()
			if obj == nil || !obj.Exported() || fn.Parent() != nil {
				continue
			}
			if recv := fn.Signature.Recv(); recv != nil {
				// methods of unexported types are not API
				t := recv.Type().String()
				t = t[strings.LastIndex(t, ".")+1:]
				if t != "" && t[0] >= 'a' && t[0] <= 'z' {
					continue
				}
			}
			n++
			if r := reachMut(fn, map[*ssa.Function]bool{}); r != "" {
				c.Check(FuncKey(fn)+"::exported-function-cannot-mutate-CFG", fn.Pos(), false, "an exported function of go/ir statically reaches a CFG mutator (%s): clients could change a built function's CFG without the dominator tree being rebuilt", r)
			}
		}
		c.Check(irPkg+"::exported-API-does-not-mutate-CFGs", token.NoPos, n > 50, "%d exported functions/methods of go/ir examined", n)
	})

	c.Rule("R14.2", func() {
		c.Floor("R14.2", 6)
		bdt := c.Func("go/ir", "buildDomTree")
		reach := map[*ssa.Function]bool{}
		var walk func(fn *ssa.Function)
		walk = func(fn *ssa.Function) {
			if reach[fn] {
				return
			}
			reach[fn] = true
			for _, ci := range Calls(fn, true) {
				if callee := ci.Common().StaticCallee(); callee != nil && FuncPkgPath(callee) == irPkg {
					walk(callee)
				}
			}
		}
		walk(bdt)
		delete(reach, c.FuncOpt("go/ir", "sanityCheckDomTree"))
		nw := 0
		for _, fn := range funcs {
			k, pos := writes(fn, domFields)
			if k == "" {
				continue
			}
			nw++
			c.Check(FuncKey(fn)+"::dominance-writers::"+k, pos, reach[fn], "dominance information (%s) may be written only by buildDomTree and the functions it calls; any other writer makes Idom/Dominates disagree with the CFG", k)
		}
		if nw < 2 {
			c.Undecided("found only %d writers of dominance fields", nw)
		}
		// callers of those writers
		for _, fn := range funcs {
			for _, ci := range Calls(fn, true) {
				callee := ci.Common().StaticCallee()
				if callee == nil || !reach[callee] || callee == bdt {
					continue
				}
				if k, _ := writes(callee, domFields); k == "" {
					continue
				}
				caller := fn
				for caller.Parent() != nil {
					caller = caller.Parent()
				}
				c.Check(FuncKey(fn)+"::calls-"+callee.Name(), ci.Pos(), reach[caller], "%s rewrites dominance numbers and may be called only while the tree is being built", callee.Name())
			}
		}
		// buildDomTree is called from finishBody only
		for _, fn := range funcs {
			for _, ci := range CallsTo(fn, true, irPkg+".buildDomTree") {
				c.Check(FuncKey(fn)+"::calls-buildDomTree", ci.Pos(), strings.HasSuffix(fn.String(), "finishBody"), "the dominator tree is built once, by finishBody, on the final CFG")
			}
		}
		// the query functions read only dom fields
		for _, q := range []string{"(*BasicBlock).Idom", "(*BasicBlock).Dominees", "(*BasicBlock).Dominates"} {
			fn := c.Func("go/ir", q)
			okQ := true
			for _, a := range FieldAccesses(fn) {
				k := shortOwner(a.Owner) + "." + a.Field
				if !domFields[k] {
					okQ = false
				}
			}
			c.Check(FuncKey(fn)+"::reads-only-dominance-fields", fn.Pos(), okQ, "the query answers from the fields buildDomTree filled")
		}
	})

	c.Rule("R14.3", func() {
		c.Floor("R14.3", 4)
		nd := c.Func("go/ir", "numberDomTree")
		var rec []ssa.Instruction
		for _, ci := range Calls(nd, false) {
			if ci.Common().StaticCallee() == nd {
				rec = append(rec, ci)
			}
		}
		var preSt, postSt ssa.Instruction
		Instrs(nd, false, func(in ssa.Instruction) {
			st, ok := in.(*ssa.Store)
			if !ok {
				return
			}
			if IsFieldOf("ir.domInfo", "pre")(st.Addr) {
				preSt = st
			}
			if IsFieldOf("ir.domInfo", "post")(st.Addr) {
				postSt = st
			}
		})
		if len(rec) == 0 || preSt == nil || postSt == nil {
			c.Undecided("numberDomTree no longer numbers pre and post around a recursive visit of the children")
		}
		preFirst, postLast := true, true
		for _, r := range rec {
			if !InstrDominates(preSt, r) {
				preFirst = false
			}
			if ReachesFrom(nd, postSt, r) || !ReachesFrom(nd, r, postSt) {
				postLast = false
			}
		}
		c.Check(FuncKey(nd)+"::preorder-number-before-children", preSt.Pos(), preFirst, "a node's preorder number is assigned before its children are visited")
		c.Check(FuncKey(nd)+"::postorder-number-after-children", postSt.Pos(), postLast, "a node's postorder number is assigned after all its children have been visited")
		// Dominates: pre(b) <= pre(c) && post(c) <= post(b)
		dm := c.Func("go/ir", "(*BasicBlock).Dominates")
		recv, arg := dm.Params[0], dm.Params[1]
		type cmp struct{ field, left, right string }
		var cmps []cmp
		who := func(v ssa.Value) string {
			if DerivesLocal(v, func(x ssa.Value) bool { return x == ssa.Value(recv) }) {
				return "b"
			}
			if DerivesLocal(v, func(x ssa.Value) bool { return x == ssa.Value(arg) }) {
				return "c"
			}
			return "?"
		}
		field := func(v ssa.Value) string {
			f := ""
			for x := range BackSlice(v, SliceOpts{NoMemory: true}) {
				if fa, ok := x.(*ssa.FieldAddr); ok {
					if owner, fl := FieldOf(fa.X.Type(), fa.Field); fl != nil && strings.HasSuffix(owner, "ir.domInfo") {
						f = fl.Name()
					}
				}
			}
			return f
		}
		Instrs(dm, false, func(in ssa.Instruction) {
			bo, ok := in.(*ssa.BinOp)
			if !ok {
				return
			}
			switch bo.Op {
			case token.LEQ:
				cmps = append(cmps, cmp{field(bo.X), who(bo.X), who(bo.Y)})
			case token.GEQ:
				cmps = append(cmps, cmp{field(bo.X), who(bo.Y), who(bo.X)})
			case token.LSS, token.GTR, token.EQL, token.NEQ:
				cmps = append(cmps, cmp{"strict-or-equality:" + field(bo.X), who(bo.X), who(bo.Y)})
			}
		})
		okPre, okPost, extra := false, false, false
		for _, x := range cmps {
			switch {
			case x.field == "pre" && x.left == "b" && x.right == "c":
				okPre = true
			case x.field == "post" && x.left == "c" && x.right == "b":
				okPost = true
			default:
				extra = true
			}
		}
		c.Check(FuncKey(dm)+"::interval-containment", dm.Pos(), okPre && okPost && !extra && len(cmps) == 2, "b dominates c iff pre(b) <= pre(c) and post(c) <= post(b) (reflexive interval containment in the numbered tree); found comparisons %v", cmps)
		// both roots are numbered and the recover subtree continues the numbering
		bdt := c.Func("go/ir", "buildDomTree")
		var calls []*ssa.Call
		for _, ci := range CallsTo(bdt, false, irPkg+".numberDomTree") {
			if call, ok := ci.(*ssa.Call); ok {
				calls = append(calls, call)
			}
		}
		cont := false
		if len(calls) == 2 {
			first, second := calls[0], calls[1]
			if InstrDominates(second, first) {
				first, second = second, first
			}
			a1 := DerivesLocal(second.Call.Args[1], func(v ssa.Value) bool { return v == ssa.Value(first) })
			a2 := DerivesLocal(second.Call.Args[2], func(v ssa.Value) bool { return v == ssa.Value(first) })
			recRoot := DerivesLocal(second.Call.Args[0], IsFieldOf("ir.Function", "Recover"))
			cont = a1 && a2 && recRoot
		}
		c.Check(FuncKey(bdt)+"::both-roots-numbered", bdt.Pos(), cont, "the entry tree and the recover tree are both numbered, the second continuing the numbers of the first so that the two intervals are disjoint")
	})
	// R14.4: Lengauer–Tarjan step 2 takes every predecessor into account. The
	// semidominator of w is a minimum over *all* edges v→w; an iteration that
	// skips EVAL(v) for anything but w itself is only right on reducible graphs.
	// Likewise the DFS numbering visits every successor, and step 3 / step 4
	// run for every vertex (no skipped iteration).
	c.Rule("R14.4", func() {
		c.Floor("R14.4", 3)
		bdt := c.Func("go/ir", "buildDomTree")
		isRet := func(in ssa.Instruction) bool { _, ok := in.(*ssa.Return); return ok }
		// loops over w.Preds in buildDomTree
		n := 0
		Instrs(bdt, false, func(in ssa.Instruction) {
			u, ok := in.(*ssa.UnOp)
			if !ok || u.Op != token.MUL {
				return
			}
			ia, ok := u.X.(*ssa.IndexAddr)
			if !ok || !DerivesLocal(ia.X, IsFieldOf("ir.BasicBlock", "Preds")) {
				return
			}
			// the block whose Preds are iterated
			var w ssa.Value
			for x := range BackSlice(ia.X, SliceOpts{NoMemory: true}) {
				if fa, ok := x.(*ssa.FieldAddr); ok && IsFieldOf("ir.BasicBlock", "Preds")(fa) {
					w = fa.X
				}
			}
			var evals []ssa.Instruction
			for _, ci := range Calls(bdt, false) {
				if strings.HasSuffix(CalleeName(ci.Common()), "ir.ltState.eval") && len(ci.Common().Args) == 2 && Derives(ci.Common().Args[1], func(v ssa.Value) bool { return v == ssa.Value(u) }) {
					evals = append(evals, ci)
				}
			}
			self := EqEdges(bdt, func(x, y ssa.Value) bool { return x == ssa.Value(u) && y == w || y == ssa.Value(u) && x == w })
			t, path := PathAvoiding(bdt, u, func(in ssa.Instruction) bool {
				return isRet(in) || in == ssa.Instruction(u) || in.Block() != u.Block() && in.Block().Dominates(u.Block()) && in == in.Block().Instrs[0] && ReachesFrom(bdt, u, in) && strings.Contains(in.Block().Comment, "loop")
			}, func(in ssa.Instruction) bool {
				for _, e := range evals {
					if e == in {
						return true
					}
				}
				return false
			}, self)
			c.Check(FuncKey(bdt)+"::semidominator-considers-every-predecessor#"+itoa(n), u.Pos(), len(evals) > 0 && t == nil, "every predecessor v of w must go through EVAL(v) when w's semidominator is computed (only v == w may be skipped): sdom(w) is the minimum over all edges into w, and skipping a predecessor is wrong on irreducible graphs; path that skips it: %s", PathString(bdt, path))
			n++
		})
		if n == 0 {
			c.Undecided("buildDomTree no longer iterates over a block's predecessors")
		}
		// the DFS numbers every successor
		dfs := c.Func("go/ir", "(*ltState).dfs")
		var succ *ssa.UnOp
		Instrs(dfs, false, func(in ssa.Instruction) {
			if u, ok := in.(*ssa.UnOp); ok && u.Op == token.MUL {
				if ia, ok := u.X.(*ssa.IndexAddr); ok && DerivesLocal(ia.X, IsFieldOf("ir.BasicBlock", "Succs")) {
					succ = u
				}
			}
		})
		if succ == nil {
			c.Undecided("(*ltState).dfs no longer iterates over Succs")
		}
		var rec []ssa.Instruction
		for _, ci := range Calls(dfs, false) {
			if ci.Common().StaticCallee() == dfs {
				rec = append(rec, ci)
			}
		}
		// a successor may be skipped only if it already has a semidominator (was visited)
		visited := EqEdges(dfs, func(x, y ssa.Value) bool {
			return IsNilConst(y) && DerivesLocal(x, IsFieldOf("ir.ltState", "sdom"))
		})
		t, path := PathAvoiding(dfs, succ, func(in ssa.Instruction) bool { return isRet(in) || in == ssa.Instruction(succ) }, func(in ssa.Instruction) bool {
			for _, r := range rec {
				if r == in {
					return true
				}
			}
			return false
		}, ComplementEdges(visited))
		c.Check(FuncKey(dfs)+"::numbers-every-unvisited-successor", succ.Pos(), len(rec) > 0 && len(visited) > 0 && t == nil, "the preorder DFS recurses into every successor that has no semidominator yet; path that skips one: %s", PathString(dfs, path))
		// nothing in buildDomTree's vertex loops is skipped by a continue that depends on the vertex (step 3/4 run for every vertex)
		c.Check(FuncKey(bdt)+"::uses-eval-link-dfs", bdt.Pos(), len(CallsTo(bdt, false, irPkg+".ltState.eval")) >= 2 && len(CallsTo(bdt, false, irPkg+".ltState.link")) == 1 && len(CallsTo(bdt, false, irPkg+".ltState.dfs")) >= 1, "buildDomTree runs the DFS numbering, EVAL in steps 2 and 3, and LINK once per vertex")
	})
	// R14.5: the vertex orders of Lengauer–Tarjan. Steps 2/3 must visit the
	// vertices in DECREASING DFS number (LINK(parent(w), w) after w's
	// semidominator is known, so that EVAL sees exactly the vertices numbered
	// higher), and step 4 must resolve the deferred immediate dominators
	// (idom(w) = idom(idom(w))) in INCREASING DFS number, because the vertex it
	// defers to must already be final. Any other order (block index order, say)
	// is right on reducible graphs and wrong on goto-built ones.
	c.Rule("R14.5", func() {
		c.Floor("R14.5", 2)
		bdt := c.Func("go/ir", "buildDomTree")
		// the DFS numbering list: the slice handed to (*ltState).dfs
		var pre []ssa.Value
		for _, ci := range CallsTo(bdt, false, irPkg+".ltState.dfs") {
			args := ci.Common().Args
			pre = append(pre, args[len(args)-1])
		}
		if len(pre) == 0 {
			c.Undecided("buildDomTree no longer calls (*ltState).dfs with a numbering list")
		}
		fromPre := func(v ssa.Value) bool {
			return AddrFrom(v, func(x ssa.Value) bool {
				for _, p := range pre {
					if x == p {
						return true
					}
				}
				return false
			})
		}
		// direction in which an index value moves from one iteration to the next
		direction := func(idx ssa.Value) string {
			for depth := 0; depth < 4; depth++ {
				switch x := idx.(type) {
				case *ssa.BinOp:
					if _, ok := ConstInt(x.Y); ok && (x.Op == token.ADD || x.Op == token.SUB) {
						idx = x.X
						continue
					}
				case *ssa.Convert:
					idx = x.X
					continue
				case *ssa.Phi:
					for _, e := range x.Edges {
						if b, ok := e.(*ssa.BinOp); ok && b.X == ssa.Value(x) {
							if k, ok := ConstInt(b.Y); ok && k == 1 {
								switch b.Op {
								case token.ADD:
									return "ascending"
								case token.SUB:
									return "descending"
								}
							}
						}
					}
					return "unknown"
				}
				break
			}
			return "unknown"
		}
		// the vertex an instruction works on, if it is read from the numbering list
		vertexOrder := func(w ssa.Value) (string, bool) {
			for x := range BackSlice(w, SliceOpts{}) {
				ld, ok := x.(*ssa.UnOp)
				if !ok || ld.Op != token.MUL {
					continue
				}
				ia, ok := ld.X.(*ssa.IndexAddr)
				if !ok || !fromPre(ia.X) {
					continue
				}
				return direction(ia.Index), true
			}
			return "", false
		}
		// step 4: store to w.dom.idom of a value read through another idom
		n4 := 0
		Instrs(bdt, false, func(in ssa.Instruction) {
			st, ok := in.(*ssa.Store)
			if !ok || !IsFieldOf("ir.domInfo", "idom")(st.Addr) {
				return
			}
			ld, ok := st.Val.(*ssa.UnOp)
			if !ok || ld.Op != token.MUL || !IsFieldOf("ir.domInfo", "idom")(ld.X) {
				return
			}
			// idom of idom: the address of the loaded field is itself reached through an idom load
			through := AddrFrom(ld.X, func(x ssa.Value) bool {
				u, ok := x.(*ssa.UnOp)
				return ok && u != ld && u.Op == token.MUL && IsFieldOf("ir.domInfo", "idom")(u.X)
			})
			if !through {
				return
			}
			n4++
			var w ssa.Value
			if fa, ok := st.Addr.(*ssa.FieldAddr); ok {
				if fb, ok := fa.X.(*ssa.FieldAddr); ok {
					w = fb.X
				}
			}
			dir, found := "", false
			if w != nil {
				dir, found = vertexOrder(w)
			}
			c.Check(FuncKey(bdt)+"::deferred-idoms-resolved-in-increasing-dfs-number", st.Pos(), found && dir == "ascending",
				"idom(w) = idom(idom(w)) is only right if the vertex it defers to is already final, i.e. if the vertices are processed in increasing DFS number — w must be read from the DFS numbering list with an ascending index (found: from the numbering list=%v, index %s)", found, dir)
		})
		if n4 == 0 {
			c.Undecided("buildDomTree no longer resolves deferred immediate dominators (step 4)")
		}
		// steps 2/3: LINK(parent(w), w) for w read from the numbering list in decreasing order
		for _, ci := range CallsTo(bdt, false, irPkg+".ltState.link") {
			args := ci.Common().Args
			dir, found := vertexOrder(args[len(args)-1])
			c.Check(FuncKey(bdt)+"::semidominators-in-decreasing-dfs-number", ci.Pos(), found && dir == "descending",
				"steps 2 and 3 process the vertices in decreasing DFS number and LINK each one afterwards; w must be read from the DFS numbering list with a descending index (found: from the numbering list=%v, index %s)", found, dir)
		}
	})
}
