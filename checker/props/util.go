package props

import "strconv"

func itoa(i int) string { return strconv.Itoa(i) }
