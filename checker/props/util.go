package props

import (
	"strconv"

	"golang.org/x/tools/go/ssa"

	. "verif/checker/engine"
)

func itoa(i int) string { return strconv.Itoa(i) }

// displayCall recognises a position computed by report.DisplayPosition: either
// the call itself, or a call of a small function/closure whose every return is
// DisplayPosition(<file set>, <its parameter>). It returns the file-set
// expression and the token.Pos argument.
func displayCall(v ssa.Value) (fset, pos ssa.Value, ok bool) {
	const disp = Module + "/analysis/report.DisplayPosition"
	call, isCall := v.(*ssa.Call)
	if !isCall {
		return nil, nil, false
	}
	if IsCallTo(call, disp) {
		return call.Call.Args[0], call.Call.Args[1], true
	}
	var callee *ssa.Function
	if callee = call.Call.StaticCallee(); callee == nil && !call.Call.IsInvoke() {
		for x := range BackSlice(call.Call.Value, SliceOpts{}) {
			if mc, ok := x.(*ssa.MakeClosure); ok {
				callee, _ = mc.Fn.(*ssa.Function)
			}
		}
	}
	if callee == nil || callee.Blocks == nil || len(callee.Blocks) > 2 {
		return nil, nil, false
	}
	for _, r := range Returns(callee) {
		if len(r.Results) != 1 {
			return nil, nil, false
		}
		inner, isInner := ReturnOperand(r, 0).(*ssa.Call)
		if !isInner || !IsCallTo(inner, disp) {
			return nil, nil, false
		}
		for pi, prm := range callee.Params {
			if inner.Call.Args[1] == ssa.Value(prm) && pi < len(call.Call.Args) {
				fset, pos, ok = inner.Call.Args[0], call.Call.Args[pi], true
			}
		}
	}
	return fset, pos, ok
}
