package props

import (
	"go/ast"
	"go/token"
	"go/types"
	"sort"
	"strings"

	"golang.org/x/tools/go/ssa"

	. "verif/checker/engine"
)

func init() {
	Register(&Property{
		ID:       "C06",
		Patterns: []string{"./..."},
		NeedSSA:  true,
		Explanation: "Decides structural necessary conditions of determinism and race freedom of the runner: every write to a package-level variable that is reachable from worker code (package actions, analyzer actions, every analyzer's Run) happens with a mutex on the same variable held (R6.1); " +
			"the dependency counter and the statistics are touched only through sync/atomic (or before any goroutine is started), handlers never write action state through a dependency or trigger, and the graph shape is never written by a handler (R6.2); " +
			"in genericHandle every write to the finished action precedes the first DecrementPending and a dependent is enqueued only by the decrement that reaches zero (R6.3); " +
			"every slice built in map-iteration order in lintcmd, lintcmd/runner, config, go/loader and sarif is sorted before any order-sensitive use or is listed with a reason, and nothing is printed or sent from inside a loop over a map (R6.4); " +
			"the comparator used before printing orders by every field that the formatters print or that de-duplication compares (R6.5). " +
			"It does NOT decide the absence of races inside analyzers' own data structures, the Go scheduler, or go list." +
			" Also decided: filterIgnored tests every directive against every problem, so its outcome does not depend on the map-iteration order in which directives arrive." +
			" A handler releases its worker slot before it sends ready dependents to the unbuffered queue.",
		RuleText:    "whole-module SSA; call graph VTA∘CHA plus callback over-approximation; lock-held dominance, happens-before ordering as CFG path queries, map-order taint with sort sanitisers, comparator chain extraction",
		Assumptions: []string{"the happens-before edge between a finished action and its dependents is the atomic decrement of pending followed by the channel send (Go memory model)", "analyzers do not start goroutines of their own that outlive Run"},
		Run:         runC06,
		Configs:     []string{"linux/amd64", "darwin/amd64", "windows/amd64"},
		Mutants: []Mutant{
			{Name: "slot-released-by-defer", File: "lintcmd/runner/runner.go", Rule: "R6.8", KeyPart: "genericHandle::slot-released-before-enqueueing",
				Old: "\t\t\ta.AddError(err)\n\t\t}\n\t}\n\tif sem != nil {\n\t\tsem.Release()\n\t}\n", New: "\t\t\ta.AddError(err)\n\t\t}\n\t}\n\tif sem != nil {\n\t\tdefer sem.Release()\n\t}\n"},
			{Name: "ignored-problems-skip-later-directives", File: "lintcmd/lint.go", Rule: "R6.7", KeyPart: "filterIgnored::every-directive-tested-against-every-problem",
				Old: "\t\t\tdiag := &diagnostics[i]\n\t\t\tif ig.match(*diag) {", New: "\t\t\tdiag := &diagnostics[i]\n\t\t\tif diag.Severity == severityIgnored {\n\t\t\t\tcontinue\n\t\t\t}\n\t\t\tif ig.match(*diag) {"},
			{Name: "u1000-key-without-package-path", File: "lintcmd/lint.go", Rule: "R6.6", KeyPart: "identifies-object-within-its-package",
				Old: "\t\t\t\tkey := unusedKey{\n\t\t\t\t\tpkgPath: res.Package.PkgPath,\n\t\t\t\t\tbase:    filepath.Base(obj.Position.Filename),\n\t\t\t\t\tline:    obj.Position.Line,\n\t\t\t\t\tname:    obj.Name,\n\t\t\t\t}\n\t\t\t\tused[key] = true\n", New: "\t\t\t\tkey := unusedKey{\n\t\t\t\t\tbase: filepath.Base(obj.Position.Filename),\n\t\t\t\t\tline: obj.Position.Line,\n\t\t\t\t\tname: obj.Name,\n\t\t\t\t}\n\t\t\t\tused[key] = true\n",
				More: []Edit{{File: "lintcmd/lint.go", Old: "\t\t\t\t\tkey := unusedKey{\n\t\t\t\t\t\tpkgPath: res.Package.PkgPath,\n", New: "\t\t\t\t\tkey := unusedKey{\n"}}},
			{Name: "filehash-cache-unlocked", File: "lintcmd/cache/hash.go", Rule: "R6.1", KeyPart: "SetFileHash",
				Old: "func SetFileHash(file string, sum [HashSize]byte) {\n\thashFileCache.Lock()\n", New: "func SetFileHash(file string, sum [HashSize]byte) {\n\thashFileCache.Lock()\n\thashFileCache.Unlock()\n"},
			{Name: "check-memoizes-in-global", File: "stylecheck/st1003/st1003.go", Rule: "R6.1", KeyPart: "st1003",
				Old: "\tinitialisms := make(map[string]bool, len(il))", New: "\tlastInitialisms = il\n\tinitialisms := make(map[string]bool, len(il))",
				More: []Edit{{File: "stylecheck/st1003/st1003.go", Old: "var Analyzer = SCAnalyzer.Analyzer\n", New: "var Analyzer = SCAnalyzer.Analyzer\n\nvar lastInitialisms []string\n"}}},
			{Name: "pending-plain-decrement", File: "lintcmd/runner/runner.go", Rule: "R6.2", KeyPart: "pending",
				Old: "\treturn atomic.AddUint32(&act.pending, ^uint32(0)) == 0\n", New: "\tact.pending--\n\treturn atomic.LoadUint32(&act.pending) == 0\n"},
			{Name: "handler-marks-dependency-failed", File: "lintcmd/runner/runner.go", Rule: "R6.2", KeyPart: "through-dependency",
				Old: "\t\t\t\ta.MarkFailed()\n\t\t\t\tbreak\n", New: "\t\t\t\ta.MarkFailed()\n\t\t\t\tdep.MarkFailed()\n\t\t\t\tbreak\n"},
			{Name: "handler-appends-trigger", File: "lintcmd/runner/runner.go", Rule: "R6.2", KeyPart: "graph-shape",
				Old: "\ta := act.(*packageAction)\n\tdefer func() {\n\t\tr.Stats.finishPackage()", New: "\ta := act.(*packageAction)\n\ta.triggers = append(a.triggers, a)\n\tdefer func() {\n\t\tr.Stats.finishPackage()"},
			{Name: "decrement-before-exec", File: "lintcmd/runner/runner.go", Rule: "R6.3", KeyPart: "writes-precede",
				Old: "\tif !a.IsFailed() {\n\t\tif err := exec(a); err != nil {\n\t\t\ta.MarkFailed()\n\t\t\ta.AddError(err)\n\t\t}\n\t}\n\tif sem != nil {\n\t\tsem.Release()\n\t}\n\n\tfor _, t := range a.Triggers() {\n\t\tif t.DecrementPending() {\n\t\t\tqueue <- t\n\t\t}\n\t}\n",
				New: "\tfor _, t := range a.Triggers() {\n\t\tif t.DecrementPending() {\n\t\t\tqueue <- t\n\t\t}\n\t}\n\tif !a.IsFailed() {\n\t\tif err := exec(a); err != nil {\n\t\t\ta.MarkFailed()\n\t\t\ta.AddError(err)\n\t\t}\n\t}\n\tif sem != nil {\n\t\tsem.Release()\n\t}\n"},
			{Name: "enqueue-unconditionally", File: "lintcmd/runner/runner.go", Rule: "R6.3", KeyPart: "enqueue-only",
				Old: "\t\tif t.DecrementPending() {\n\t\t\tqueue <- t\n\t\t}\n", New: "\t\tt.DecrementPending()\n\t\tqueue <- t\n"},
			{Name: "analyzers-unsorted", File: "lintcmd/cmd.go", Rule: "R6.4", KeyPart: "sortedAnalyzers",
				Old: "\tcs := slices.Collect(maps.Values(cmd.analyzers))\n\tsort.Slice(cs, func(i, j int) bool {\n\t\treturn cs[i].Analyzer.Name < cs[j].Analyzer.Name\n\t})\n\treturn cs\n", New: "\tcs := slices.Collect(maps.Values(cmd.analyzers))\n\treturn cs\n"},
			{Name: "results-in-map-order", File: "lintcmd/runner/runner.go", Rule: "R6.4", KeyPart: "Run::[]lintcmd/runner.Result-in-order-of",
				Old: "\tsort.Slice(out, func(i, j int) bool {\n\t\treturn out[i].Package.ID < out[j].Package.ID\n\t})\n", New: ""},
			{Name: "analyzers-from-map", File: "lintcmd/lint.go", Rule: "R6.4", KeyPart: "lint::[]*golang.org/x/tools/go/analysis.Analyzer-in-order-of",
				Old: "\tfor _, a := range l.opts.analyzers {\n\t\tas = append(as, a.Analyzer)\n\t}", New: "\tfor _, a := range l.analyzers {\n\t\tas = append(as, a.Analyzer)\n\t}"},
			{Name: "sarif-changes-in-map-order", File: "lintcmd/sarif.go", Rule: "R6.4", KeyPart: "sarifFormatter).Format",
				Old:  "\t\t\tfor _, path := range slices.Sorted(maps.Keys(changes)) {\n\t\t\t\tsfix.ArtifactChanges = append(sfix.ArtifactChanges, sarif.ArtifactChange{\n\t\t\t\t\tArtifactLocation: sarifArtifactLocation(path),\n\t\t\t\t\tReplacements:     changes[path],",
				New:  "\t\t\tfor path, replacements := range changes {\n\t\t\t\tsfix.ArtifactChanges = append(sfix.ArtifactChanges, sarif.ArtifactChange{\n\t\t\t\t\tArtifactLocation: sarifArtifactLocation(path),\n\t\t\t\t\tReplacements:     replacements,",
				More: []Edit{{File: "lintcmd/sarif.go", Old: "\t\"maps\"\n\t\"net/url\"", New: "\t\"net/url\""}, {File: "lintcmd/sarif.go", Old: "\t\"regexp\"\n\t\"slices\"\n", New: "\t\"regexp\"\n"}}},
			{Name: "merge-result-printed-unsorted", File: "lintcmd/cmd.go", Rule: "R6.4", KeyPart: "printDiagnostics",
				Old: "func (cmd *Command) printDiagnostics(cs []*lint.Analyzer, diagnostics []diagnostic) int {\n\tif len(diagnostics) > 1 {", New: "func (cmd *Command) printDiagnostics(cs []*lint.Analyzer, diagnostics []diagnostic) int {\n\tif len(diagnostics) > 1 && diagnostics[0].BuildName != \"\" {"},
			{Name: "comparator-without-end", File: "lintcmd/cmd.go", Rule: "R6.5", KeyPart: "End.Column",
				Old: "\t\t\tif ei.Column != ej.Column {\n\t\t\t\treturn ei.Column < ej.Column\n\t\t\t}\n", New: ""},
			{Name: "comparator-without-severity", File: "lintcmd/cmd.go", Rule: "R6.5", KeyPart: "Severity",
				Old: "\t\t\tif di.Severity != dj.Severity {\n\t\t\t\treturn di.Severity < dj.Severity\n\t\t\t}\n", New: ""},
		},
	})
}

// globalWrites lists instructions in fn that write memory rooted at a
// package-level variable of the module.
func globalWrites(fn *ssa.Function) []ssa.Instruction {
	var out []ssa.Instruction
	isModGlobal := func(v ssa.Value) bool {
		g, ok := v.(*ssa.Global)
		return ok && g.Pkg != nil && InModule(g.Pkg.Pkg.Path())
	}
	Instrs(fn, false, func(in ssa.Instruction) {
		switch in := in.(type) {
		case *ssa.Store:
			if AddrFrom(in.Addr, isModGlobal) {
				out = append(out, in)
			}
		case *ssa.MapUpdate:
			if AddrFrom(in.Map, isModGlobal) {
				out = append(out, in)
			}
		}
	})
	return out
}

func globalRootOf(v ssa.Value) string {
	for x := range BackSlice(v, SliceOpts{NoMemory: true}) {
		if g, ok := x.(*ssa.Global); ok {
			return g.Pkg.Pkg.Path() + "." + g.Name()
		}
	}
	return ""
}

func runC06(c *Ctx) {
	table := loadTable(c, "c06_order.tsv")
	linked := linkedPackages(c)
	do := c.Func("lintcmd/runner", "(*subrunner).do")
	ardo := c.Func("lintcmd/runner", "(*analyzerRunner).do")
	gh := c.Func("lintcmd/runner", "genericHandle")
	roots := append([]*ssa.Function{do, ardo, gh}, analyzerRunFuncs(c)...)
	reach, parent := c.Reachable(roots, func(fn *ssa.Function) bool { return FuncInModule(fn) && linked[FuncPkgPath(fn)] })
	var workers []*ssa.Function
	for fn := range reach {
		workers = append(workers, fn)
	}
	sort.Slice(workers, func(i, j int) bool { return workers[i].String() < workers[j].String() })

	c.Rule("R6.1", func() {
		c.Floor("R6.1", 4)
		if len(roots) < 100 {
			c.Undecided("found only %d worker roots", len(roots))
		}
		c.Note("R6.1: %d worker roots, %d module functions reachable from worker code", len(roots), len(workers))
		total := 0
		for _, fn := range c.ModuleFuncs() {
			if linked[FuncPkgPath(fn)] && fn.Name() != "init" && !strings.HasPrefix(fn.Name(), "init#") {
				total += len(globalWrites(fn))
			}
		}
		c.Note("R6.1: %d run-time global-write sites in linked module code in total", total)
		for _, fn := range workers {
			if fn.Name() == "init" || strings.HasPrefix(fn.Name(), "init#") {
				continue
			}
			for _, w := range globalWrites(fn) {
				c.SawFunc(fn.String())
				var addr ssa.Value
				switch w := w.(type) {
				case *ssa.Store:
					addr = w.Addr
				case *ssa.MapUpdate:
					addr = w.Map
				}
				root := globalRootOf(addr)
				held := false
				why := ""
				for _, op := range LockOps(fn) {
					if op.Unlock || op.Deferred {
						continue
					}
					// a lock on (a part of) the same global
					lockRoot := globalRootOf(op.Instr.(ssa.CallInstruction).Common().Args[0])
					if lockRoot != root {
						continue
					}
					if ok, _ := HeldAt(fn, w, LastField(op.Path)); ok {
						held = true
					}
				}
				if !held {
					why = "no mutex belonging to " + root + " is held"
				}
				c.Check(FuncKey(fn)+"::write-to-"+root, w.Pos(), held, "a package-level variable written from worker code (reached via %s) must be written with its mutex held; %s", CallChain(parent, fn), why)
			}
		}
	})

	c.Rule("R6.2", func() {
		c.Floor("R6.2", 12)
		actionTypes := map[string]bool{"runner.baseAction": true, "runner.packageAction": true, "runner.analyzerAction": true}
		// (a) pending / Stats counters: atomic only, or plain stores that no go statement precedes
		for _, fn := range c.ModuleFuncs() {
			if FuncPkgPath(fn) != runnerPkg {
				continue
			}
			Instrs(fn, false, func(in ssa.Instruction) {
				fa, ok := in.(*ssa.FieldAddr)
				if !ok {
					return
				}
				owner, f := FieldOf(fa.X.Type(), fa.Field)
				if f == nil {
					return
				}
				so := shortOwner(owner)
				isCounter := so == "runner.baseAction" && f.Name() == "pending"
				if so == "runner.Stats" {
					if b, ok := f.Type().Underlying().(*types.Basic); ok && b.Kind() == types.Uint32 {
						isCounter = true
					}
				}
				if !isCounter {
					return
				}
				for _, r := range *fa.Referrers() {
					key := FuncKey(fn) + "::" + so + "." + f.Name()
					switch r := r.(type) {
					case ssa.CallInstruction:
						n := CalleeName(r.Common())
						c.Check(key+"::atomic", r.Pos(), strings.HasPrefix(n, "sync/atomic."), "%s.%s is shared between goroutines and must be accessed through sync/atomic (callee %s)", so, f.Name(), n)
					case *ssa.Store:
						// allowed only if no go statement can precede it in this function
						after := false
						Instrs(fn, false, func(g ssa.Instruction) {
							if _, isGo := g.(*ssa.Go); isGo && ReachesFrom(fn, g, r) {
								after = true
							}
						})
						// … and only on an action created in this very function (graph construction)
						fresh := DerivesLocal(fa.X, func(x ssa.Value) bool {
							al, ok := x.(*ssa.Alloc)
							return ok && al.Heap
						})
						c.Check(key+"::plain-store-before-goroutines", r.Pos(), !after && fresh, "a plain store to %s.%s is allowed only on an action that is being constructed in the same function, before any goroutine is started", so, f.Name())
					case *ssa.DebugRef:
					default:
						c.Check(key+"::atomic", r.Pos(), false, "%s.%s is read or written without sync/atomic (%T)", so, f.Name(), r)
					}
				}
			})
		}
		// (b) handlers never write through a dependency/trigger; (c) never write the graph shape
		fromNeighbour := func(v ssa.Value) bool {
			return DerivesLocal(v, func(x ssa.Value) bool {
				if IsFieldOf("baseAction", "deps")(x) || IsFieldOf("baseAction", "triggers")(x) {
					return true
				}
				if call, ok := x.(*ssa.Call); ok {
					if call.Call.IsInvoke() && (call.Call.Method.Name() == "Deps" || call.Call.Method.Name() == "Triggers") {
						return true
					}
					n := CalleeName(&call.Call)
					return strings.HasSuffix(n, "baseAction.Deps") || strings.HasSuffix(n, "baseAction.Triggers")
				}
				return false
			})
		}
		// methods of action types that write receiver fields
		mutators := map[string]bool{}
		for _, fn := range c.ModuleFuncs() {
			if FuncPkgPath(fn) != runnerPkg || fn.Signature.Recv() == nil {
				continue
			}
			rt := fn.Signature.Recv().Type().String()
			if !strings.Contains(rt, "runner.baseAction") && !strings.Contains(rt, "runner.packageAction") && !strings.Contains(rt, "runner.analyzerAction") {
				continue
			}
			for _, a := range FieldAccesses(fn) {
				if actionTypes[shortOwner(a.Owner)] && (a.Kind == "write" || a.Kind == "content") {
					mutators[fn.Name()] = true
				}
			}
		}
		c.Note("R6.2: mutating action methods: %v", SortedKeys(mutators))
		handlerSet := map[*ssa.Function]bool{}
		hreach, _ := c.Reachable([]*ssa.Function{do, ardo, gh}, func(fn *ssa.Function) bool { return FuncPkgPath(fn) == runnerPkg })
		for fn := range hreach {
			handlerSet[fn] = true
		}
		shape := map[string]bool{"deps": true, "triggers": true, "Package": true, "Analyzer": true, "factsOnly": true}
		nChecked := 0
		var hs []*ssa.Function
		for fn := range handlerSet {
			hs = append(hs, fn)
		}
		sort.Slice(hs, func(i, j int) bool { return hs[i].String() < hs[j].String() })
		for _, fn := range hs {
			for _, a := range FieldAccesses(fn) {
				so := shortOwner(a.Owner)
				if !actionTypes[so] || (a.Kind != "write" && a.Kind != "content") {
					continue
				}
				nChecked++
				var base ssa.Value
				if st, ok := a.Instr.(*ssa.Store); ok {
					base = st.Addr
				} else if mu, ok := a.Instr.(*ssa.MapUpdate); ok {
					base = mu.Map
				}
				key := FuncKey(fn) + "::" + so + "." + a.Field
				// the pointer to the action whose field is written
				for {
					fa, ok := base.(*ssa.FieldAddr)
					if !ok {
						break
					}
					base = fa.X
				}
				if base != nil {
					c.Check(key+"::not-through-dependency", a.Instr.Pos(), !fromNeighbour(base), "handlers may write only their own action; %s.%s is written through an element of deps/triggers, which another goroutine may be working on", so, a.Field)
				}
				if shape[a.Field] {
					// allowed on actions created in this very function (the local analyzer graph)
					local := base != nil && DerivesLocal(base, func(x ssa.Value) bool {
						al, ok := x.(*ssa.Alloc)
						return ok && al.Heap && (al.Comment == "complit" || al.Comment == "new")
					}) || base != nil && DerivesLocal(base, IsCallResult(runnerPkg+".newAnalyzerAction"))
					isCtor := strings.HasPrefix(fn.Name(), "new")
					c.Check(key+"::graph-shape-immutable-in-handlers", a.Instr.Pos(), local || isCtor, "the action graph (%s) is fixed before goroutines start; a handler must not rewire it", a.Field)
				}
			}
			// calls to mutating methods on neighbours
			for _, ci := range Calls(fn, false) {
				cc := ci.Common()
				var name string
				var recv ssa.Value
				if cc.IsInvoke() {
					name, recv = cc.Method.Name(), cc.Value
				} else if callee := cc.StaticCallee(); callee != nil && callee.Signature.Recv() != nil && FuncPkgPath(callee) == runnerPkg && len(cc.Args) > 0 {
					name, recv = callee.Name(), cc.Args[0]
				}
				if name == "" || !mutators[name] {
					continue
				}
				nChecked++
				c.Check(FuncKey(fn)+"::"+name+"::not-through-dependency", ci.Pos(), !fromNeighbour(recv), "%s mutates the action it is called on and must not be called on a dependency or trigger", name)
			}
		}
		if nChecked < 8 {
			c.Undecided("only %d action-state writes found in handler code", nChecked)
		}
	})

	c.Rule("R6.3", func() {
		c.Floor("R6.3", 4)
		isDecr := func(in ssa.Instruction) bool {
			ci, ok := in.(ssa.CallInstruction)
			return ok && ci.Common().IsInvoke() && ci.Common().Method.Name() == "DecrementPending"
		}
		var decrs []ssa.Instruction
		Instrs(gh, false, func(in ssa.Instruction) {
			if isDecr(in) {
				decrs = append(decrs, in)
			}
		})
		if len(decrs) == 0 {
			c.Undecided("genericHandle no longer calls DecrementPending")
		}
		// writers of a's state: the exec callback and mutating methods on a
		isWriter := func(in ssa.Instruction) bool {
			ci, ok := in.(ssa.CallInstruction)
			if !ok {
				return false
			}
			cc := ci.Common()
			if cc.IsInvoke() {
				n := cc.Method.Name()
				return n == "MarkFailed" || n == "AddError"
			}
			// call of the exec parameter
			if p, ok := cc.Value.(*ssa.Parameter); ok && p.Parent() == gh {
				return true
			}
			// … or of a local closure of genericHandle that does one of these
			return callsWriterClosure(gh, cc)
		}
		nw := 0
		Instrs(gh, false, func(in ssa.Instruction) {
			if isWriter(in) {
				nw++
			}
		})
		if nw < 2 {
			c.Undecided("genericHandle: expected the exec call and MarkFailed/AddError, found %d writers", nw)
		}
		for _, d := range decrs {
			t, path := PathAvoiding(gh, d, isWriter, nil, nil)
			c.Check(FuncKey(gh)+"::writes-precede-DecrementPending", d.Pos(), t == nil, "every write to the finished action (exec, MarkFailed, AddError) must precede the first DecrementPending, which is the release edge dependents synchronise on; path from the decrement to a later write: %s", PathString(gh, path))
		}
		// enqueue only by the decrement that reached zero
		Instrs(gh, false, func(in ssa.Instruction) {
			snd, ok := in.(*ssa.Send)
			if !ok {
				return
			}
			zero := CondEdges(gh, func(cond ssa.Value) (bool, bool) {
				call, ok := cond.(*ssa.Call)
				return ok && isDecr(call) && (call.Call.Value == snd.X || DerivesLocal(snd.X, func(v ssa.Value) bool { return v == call.Call.Value })), true
			})
			ok2, path := MustPassEdges(gh, snd, zero)
			c.Check(FuncKey(gh)+"::enqueue-only-when-pending-reaches-zero", snd.Pos(), ok2 && len(zero) > 0, "a dependent is sent to the queue only on the true edge of its own DecrementPending (exactly one finished dependency enqueues it, after all have finished); path: %s", PathString(gh, path))
		})
		// DecrementPending itself: atomic add, compare with zero
		dp := c.Func("lintcmd/runner", "(*baseAction).DecrementPending")
		isAtomicAdd := func(v ssa.Value) bool {
			call, ok := v.(*ssa.Call)
			return ok && IsCallTo(call, "sync/atomic.AddUint32", "sync/atomic.AddInt32", "sync/atomic.AddInt64", "sync/atomic.AddUint64") && AddrFrom(call.Call.Args[0], IsFieldOf("baseAction", "pending"))
		}
		zeroEdges := IntCmpConstEdges(dp, isAtomicAdd, true, func(lo, hi int64) bool { return lo == 0 && hi == 0 })
		nonZeroEdges := IntCmpConstEdges(dp, isAtomicAdd, true, func(lo, hi int64) bool { return lo >= 1 })
		okAtomic, sawTrue := true, false
		var judge func(v ssa.Value, at ssa.Instruction, depth int)
		judge = func(v ssa.Value, at ssa.Instruction, depth int) {
			switch x := v.(type) {
			case *ssa.BinOp:
				// the comparison itself: atomic.Add(&pending, ^0) == 0, in either operand order
				a, b := x.X, x.Y
				if _, isK := ConstInt(a); isK {
					a, b = b, a
				}
				k, isK := ConstInt(b)
				if x.Op == token.EQL && isK && k == 0 && isAtomicAdd(a) {
					sawTrue = true
					return
				}
				okAtomic = false
			case *ssa.Const:
				switch {
				case isBoolConst(x, true):
					sawTrue = true
					if ok, _ := MustPassEdges(dp, at, zeroEdges); !ok || len(zeroEdges) == 0 {
						okAtomic = false
					}
				case isBoolConst(x, false):
					if ok, _ := MustPassEdges(dp, at, nonZeroEdges); !ok || len(nonZeroEdges) == 0 {
						okAtomic = false
					}
				default:
					okAtomic = false
				}
			case *ssa.Phi:
				if depth > 3 {
					okAtomic = false
					return
				}
				for i, e := range x.Edges {
					pred := x.Block().Preds[i]
					judge(e, pred.Instrs[len(pred.Instrs)-1], depth+1)
				}
			default:
				okAtomic = false
			}
		}
		for _, r := range Returns(dp) {
			judge(ReturnOperand(r, 0), r, 0)
		}
		okAtomic = okAtomic && sawTrue
		c.Check(FuncKey(dp)+"::atomic-decrement-reaching-zero", dp.Pos(), okAtomic, "DecrementPending reports true exactly for the atomic decrement that makes pending zero")
		// the semaphore is released on every path before dependents are enqueued? (not a correctness condition) — instead: exec runs only when no dependency failed
		t, path := PathAvoiding(gh, nil, func(in ssa.Instruction) bool {
			ci, ok := in.(ssa.CallInstruction)
			if !ok || ci.Common().IsInvoke() {
				return false
			}
			if p, ok := ci.Common().Value.(*ssa.Parameter); ok && p.Parent() == gh {
				return true
			}
			return callsExecClosure(gh, ci.Common())
		}, nil, CondEdges(gh, func(cond ssa.Value) (bool, bool) {
			call, ok := cond.(*ssa.Call)
			return ok && call.Call.IsInvoke() && call.Call.Method.Name() == "IsFailed" && Derives(call.Call.Value, func(v ssa.Value) bool { return v == ssa.Value(gh.Params[0]) }), false
		}))
		c.Check(FuncKey(gh)+"::exec-only-if-not-failed", gh.Pos(), t == nil, "the action runs only on the not-failed edge (a failed dependency marks it failed first); path: %s", PathString(gh, path))
	})

	c.Rule("R6.4", func() {
		c.Floor("R6.4", 8)
		scope := map[string]bool{lintcmdPkg: true, runnerPkg: true, Module + "/config": true, loaderPkg: true, Module + "/sarif": true}
		n := 0
		for _, fn := range c.ModuleFuncs() {
			if !scope[FuncPkgPath(fn)] {
				continue
			}
			for _, mo := range findMapOrdered(c, fn) {
				n++
				c.SawFunc(fn.String())
				key := stableFuncKey(fn) + "::" + mo.Key
				if mo.Key == "" {
					key = stableFuncKey(fn) + "::" + mo.Name
				}
				kind := "order"
				if mo.Kind == "effect" {
					kind = "mapio"
				}
				if len(mo.BadUses) == 0 {
					c.Check(key, mo.Pos, true, "built in map-iteration order and sorted before every use")
					continue
				}
				if e, ok := table[kind][key]; ok {
					if e.class == "sorted-by-callee" {
						// R6.4b below checks the callers
						c.Check(key, mo.Pos, true, "listed: %s", e.reason)
					} else {
						c.CheckTrivial(key, mo.Pos, true, "listed: %s", e.reason)
					}
					continue
				}
				u := mo.BadUses[0]
				if mo.Kind == "effect" {
					c.Check(key, mo.Pos, false, "an order-sensitive effect (%s) is executed inside a loop over a map: its order differs from run to run", mo.Name)
				} else {
					c.Check(key, mo.Pos, false, "slice %q is built in map-iteration order and used at %s without a dominating sort (use: %s); anything derived from its order differs from run to run", mo.Name, c.PosStr(u.Pos()), u)
				}
			}
		}
		if n < 6 {
			c.Undecided("found only %d map-ordered sequences in the output pipeline", n)
		}
		// R6.4b: mergeRuns' result goes only to printDiagnostics, which sorts its parameter before any other use
		pd := c.Func("lintcmd", "(*Command).printDiagnostics")
		for _, fn := range c.ModuleFuncs() {
			if FuncPkgPath(fn) != lintcmdPkg {
				continue
			}
			for _, ci := range CallsTo(fn, false, lintcmdPkg+".mergeRuns") {
				call, ok := ci.(*ssa.Call)
				if !ok {
					continue
				}
				onlyPrint := true
				for in := range ForwardFlow(call) {
					switch x := in.(type) {
					case *ssa.DebugRef, *ssa.Phi, *ssa.Store, *ssa.UnOp:
					case ssa.CallInstruction:
						if !IsCallTo(x, lintcmdPkg+".Command.printDiagnostics") {
							onlyPrint = false
						}
					case *ssa.Return:
					default:
						onlyPrint = false
					}
				}
				c.Check(FuncKey(fn)+"::mergeRuns-result-goes-to-printDiagnostics", call.Pos(), onlyPrint, "the map-ordered result of mergeRuns may only be handed to printDiagnostics")
			}
		}
		param := pd.Params[len(pd.Params)-1]
		fromParam := func(v ssa.Value) bool {
			return DerivesLocal(v, func(x ssa.Value) bool { return x == ssa.Value(param) })
		}
		var sorts []ssa.Instruction
		Instrs(pd, false, func(x ssa.Instruction) {
			if isSortCallOn(x, func(v ssa.Value) bool { return v == ssa.Value(param) }) {
				sorts = append(sorts, x)
			}
		})
		isSort := func(in ssa.Instruction) bool {
			for _, s := range sorts {
				if s == in {
					return true
				}
			}
			return false
		}
		small := IntCmpConstEdges(pd, func(v ssa.Value) bool {
			call, ok := v.(*ssa.Call)
			return ok && IsCallTo(call, "builtin.len") && fromParam(call.Call.Args[0])
		}, true, func(lo, hi int64) bool { return hi <= 1 })
		nFmt := 0
		Instrs(pd, false, func(x ssa.Instruction) {
			ci, ok := x.(ssa.CallInstruction)
			if !ok || !ci.Common().IsInvoke() || ci.Common().Method.Name() != "Format" {
				return
			}
			nFmt++
			t, path := PathAvoiding(pd, nil, func(in ssa.Instruction) bool { return in == x }, isSort, small)
			c.Check(FuncKey(pd)+"::sorts-before-Format", x.Pos(), len(sorts) > 0 && t == nil, "the formatter is reached only after the problems were sorted (or when there is at most one); path that skips the sort: %s", PathString(pd, path))
		})
		if nFmt == 0 {
			c.Undecided("printDiagnostics no longer calls formatter.Format")
		}
	})

	c.Rule("R6.5", func() {
		c.Floor("R6.5", 8)
		rawChain, callPos := sortChainOf(c, "lintcmd", "(*Command).printDiagnostics")
		elem := elemTypeOf(c)
		chain := map[string]bool{}
		for _, f := range expandLeaves(elem, rawChain) {
			chain[f] = true
		}
		// fields compared by equal()
		efd, ep := c.Decl("lintcmd", "diagnostic.equal")
		recv := ep.TypesInfo.ObjectOf(efd.Recv.List[0].Names[0])
		need := map[string]string{}
		for _, pth := range expandLeaves(elem, selectorPaths(ep, efd.Body, recv)) {
			need[pth] = "compared by diagnostic.equal (de-duplication)"
		}
		// fields printed by the formatters
		for _, fn := range c.ModuleFuncs() {
			if FuncPkgPath(fn) != lintcmdPkg || fn.Name() != "Format" {
				continue
			}
			ffd, fp := c.FuncDecl(fn.Object().(*types.Func))
			if ffd == nil || ffd.Body == nil {
				continue
			}
			c.SawFunc(fn.String())
			// the loop variable over the diagnostics parameter
			ast.Inspect(ffd.Body, func(n ast.Node) bool {
				rs, ok := n.(*ast.RangeStmt)
				if !ok || rs.Value == nil {
					return true
				}
				t := fp.TypesInfo.TypeOf(rs.Value)
				if t == nil || !strings.HasSuffix(t.String(), "lintcmd.diagnostic") {
					return true
				}
				id, ok := rs.Value.(*ast.Ident)
				if !ok {
					return true
				}
				for _, pth := range expandLeaves(elem, selectorPaths(fp, rs.Body, fp.TypesInfo.ObjectOf(id))) {
					if _, ok := need[pth]; !ok {
						need[pth] = "printed by " + fn.String()
					}
				}
				return true
			})
		}
		key := FuncKey(c.Func("lintcmd", "(*Command).printDiagnostics")) + "::comparator-total::"
		for _, f := range SortedKeys(need) {
			top := f
			if i := strings.Index(f, "."); i >= 0 {
				top = f[:i]
			}
			if e, ok := table["print"][f]; ok {
				c.CheckTrivial(key+f, callPos, true, "exempt: %s", e.reason)
				continue
			}
			if e, ok := table["print"][top]; ok {
				c.CheckTrivial(key+f, callPos, true, "exempt: %s", e.reason)
				continue
			}
			c.Check(key+f, callPos, chain[f], "field %s is %s but the sort comparator does not order by it: two problems that differ only there keep the order in which they were collected (goroutine/map order), so the output is not byte-identical across runs", f, need[f])
		}
	})
	// R6.6: nothing is shared between packages of one run except what is keyed by
	// the package: the one map in which results of all packages meet (U1000's
	// used/unused objects in (*linter).lint) is keyed with the package path, so
	// the problems reported for a package do not depend on which other packages
	// are linted in the same invocation (same obligation as C17 R17.3).
	c.Rule("R6.6", func() {
		c.Floor("R6.6", 1)
		unusedKeyObligations(c, c.Func("lintcmd", "(*linter).lint"), false)
	})
	// R6.7: the directives of a package arrive in map-iteration order
	// (ParseDirectives ranges over an ast.CommentMap). The outcome of
	// filterIgnored must not depend on that order: every directive is tested
	// against every problem, whatever other directives did before (same
	// obligation as C10 R10.6).
	c.Rule("R6.7", func() {
		c.Floor("R6.7", 1)
		directivePairObligations(c)
	})
	// R6.8: a handler gives its worker slot back before it hands newly ready
	// dependents to the scheduler. The package queue is unbuffered and the
	// scheduler acquires a slot before it receives the next action; a handler
	// that still holds its slot while it blocks on the send deadlocks the run as
	// soon as every slot is held by such a handler (few CPUs, wide fan-out).
	// R6.9: configuration lists never alias inherited storage (same obligations
	// as C11 R11.6). config.Load runs inside the config analyzer of concurrently
	// running package actions; an append into the spare capacity of the default
	// list is a write/write race and hands one package another directory's list.
	c.Rule("R6.9", func() {
		c.Floor("R6.9", 3)
		configListOwnershipObligations(c)
	})
	c.Rule("R6.8", func() {
		c.Floor("R6.8", 1)
		slotReleasedBeforeSendObligations(c)
	})
}

// slotReleasedBeforeSendObligations (shared by C06 R6.8 and C03 R3.10).
func slotReleasedBeforeSendObligations(c *Ctx) {
	gh := c.Func("lintcmd/runner", "genericHandle")
	isRelease := func(in ssa.Instruction) bool {
		call, ok := in.(*ssa.Call) // a deferred Release runs only when the function returns, i.e. after the sends
		return ok && strings.HasSuffix(CalleeName(&call.Call), "sync.Semaphore.Release")
	}
	// no slot to release: the edges on which the semaphore is nil
	noSem := EqEdges(gh, func(x, y ssa.Value) bool {
		return IsNilConst(y) && strings.HasSuffix(x.Type().String(), "sync.Semaphore")
	})
	n := 0
	Instrs(gh, false, func(in ssa.Instruction) {
		snd, ok := in.(*ssa.Send)
		if !ok {
			return
		}
		n++
		t, path := PathAvoiding(gh, nil, func(x ssa.Instruction) bool { return x == ssa.Instruction(snd) }, isRelease, noSem)
		c.Check(FuncKey(gh)+"::slot-released-before-enqueueing#"+itoa(n), snd.Pos(), t == nil, "the handler must release its semaphore slot (not in a defer) before it sends a ready dependent to the queue: the queue is unbuffered and the scheduler needs a free slot to receive, so a handler that sends while holding its slot can deadlock the whole run; path to the send without a release: %s", PathString(gh, path))
	})
	if n == 0 {
		c.Undecided("genericHandle no longer sends ready dependents to the queue")
	}
}

// closuresOf returns the closures of parent that a call value may denote.
func closuresOf(parent *ssa.Function, cc *ssa.CallCommon) []*ssa.Function {
	var out []*ssa.Function
	if cc.IsInvoke() {
		return nil
	}
	for x := range BackSlice(cc.Value, SliceOpts{}) {
		if mc, ok := x.(*ssa.MakeClosure); ok {
			if f, _ := mc.Fn.(*ssa.Function); f != nil && f.Parent() == parent {
				out = append(out, f)
			}
		}
	}
	return out
}

// callsExecClosure: the call invokes a local closure of gh that calls gh's exec parameter.
func callsExecClosure(gh *ssa.Function, cc *ssa.CallCommon) bool {
	for _, f := range closuresOf(gh, cc) {
		for _, ci := range Calls(f, false) {
			for x := range BackSlice(ci.Common().Value, SliceOpts{}) {
				if p, ok := x.(*ssa.Parameter); ok && p.Parent() == gh {
					if _, isFn := p.Type().Underlying().(*types.Signature); isFn {
						return true
					}
				}
			}
		}
	}
	return false
}

// callsWriterClosure: the call invokes a local closure of gh that runs exec or marks the action failed.
func callsWriterClosure(gh *ssa.Function, cc *ssa.CallCommon) bool {
	if callsExecClosure(gh, cc) {
		return true
	}
	for _, f := range closuresOf(gh, cc) {
		for _, ci := range Calls(f, false) {
			if ci.Common().IsInvoke() {
				if n := ci.Common().Method.Name(); n == "MarkFailed" || n == "AddError" {
					return true
				}
			}
		}
	}
	return false
}
