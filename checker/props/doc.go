// Package props holds one file per property; each registers its rules with
// the engine.
package props
