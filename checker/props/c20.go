package props

import (
	"go/constant"
	"go/token"
	"go/types"
	"regexp"
	"sort"
	"strings"

	"golang.org/x/tools/go/ssa"

	. "verif/checker/engine"
)

const reportPkg = Module + "/analysis/report"
const codePkg = Module + "/analysis/code"

func init() {
	Register(&Property{
		ID:       "C20",
		Patterns: []string{"./..."},
		NeedSSA:  true,
		Explanation: "Decides the wiring of version-restricted reporting: the role (minimum/maximum × language/stdlib) of every Options version field is derived from the comparison that drops the diagnostic in report.Report, and each exported option constructor must store into the field whose role its name promises (R20.1); " +
			"the -go flag value reaches types.Config.GoVersion and the cache key, and the module's go directive is used on the default path (R20.2); " +
			"FileVersions is enabled and is what LanguageVersion returns (R20.3); the decision table of code.StdlibVersion is enumerated over all orderings of (module version, go1.21, file tag) by abstract evaluation of its SSA CFG and compared with the documented table (R20.4). " +
			"It does NOT decide go/types' own FileVersions logic or what individual checks pass as bounds." +
			" Also decided: StdlibVersion takes a file's own version from the raw //go:build tag (ast.File.GoVersion), not from the type checker's clamped FileVersions.",
		RuleText:    "obligation = (rule, construct); R20.4 enumerates the finite set of orderings the function can distinguish (exhaustive for that function)",
		Assumptions: []string{"go/version.Compare returns -1/0/+1 with the documented meaning", "go/types fills Info.FileVersions from //go:build constraints and Config.GoVersion"},
		Run:         runC20,
		Mutants: []Mutant{
			{Name: "stdlib-version-from-type-checker-file-version", File: "analysis/code/code.go", Rule: "R20.4", KeyPart: "StdlibVersion::file-version-is-the-raw-build-tag",
				Old: "\tif nf := f.GoVersion; nf != \"\" {", New: "\tif nf := pass.TypesInfo.FileVersions[f]; f.GoVersion != \"\" {"},
			{Name: "cache-key-uses-module-version-when-known", File: "lintcmd/runner/runner.go", Rule: "R20.2", KeyPart: "cache-key-includes-GoVersion",
				Old: "\tfmt.Fprintf(h, \"go %s\\n\", r.GoVersion)\n", New: "\tgoVersion := r.GoVersion\n\tif m := a.Package.Module; m != nil && m.GoVersion != \"\" {\n\t\tgoVersion = \"go\" + m.GoVersion\n\t}\n\tfmt.Fprintf(h, \"go %s\\n\", goVersion)\n"},
			{Name: "max-lang-writes-min", File: "analysis/report/report.go", Rule: "R20.1", KeyPart: "MaximumLanguageVersion",
				Old: "func MaximumLanguageVersion(vers string) Option {\n\treturn func(opts *Options) { opts.MaximumLanguageVersion = vers }",
				New: "func MaximumLanguageVersion(vers string) Option {\n\treturn func(opts *Options) { opts.MinimumLanguageVersion = vers }"},
			{Name: "min-stdlib-writes-lang", File: "analysis/report/report.go", Rule: "R20.1", KeyPart: "MinimumStdlibVersion",
				Old: "func MinimumStdlibVersion(vers string) Option {\n\treturn func(opts *Options) { opts.MinimumStdlibVersion = vers }",
				New: "func MinimumStdlibVersion(vers string) Option {\n\treturn func(opts *Options) { opts.MinimumLanguageVersion = vers }"},
			{Name: "report-flips-max-stdlib", File: "analysis/report/report.go", Rule: "R20.1", KeyPart: "MaximumStdlibVersion",
				Old: "if n := cfg.MaximumStdlibVersion; n != \"\" && version.Compare(n, stdlibVersion) == -1 {",
				New: "if n := cfg.MaximumStdlibVersion; n != \"\" && version.Compare(n, stdlibVersion) == 1 {"},
			{Name: "report-min-lang-uses-stdlib", File: "analysis/report/report.go", Rule: "R20.1", KeyPart: "MinimumLanguageVersion",
				Old: "if n := cfg.MinimumLanguageVersion; n != \"\" && version.Compare(n, langVersion) == 1 {",
				New: "if n := cfg.MinimumLanguageVersion; n != \"\" && version.Compare(n, stdlibVersion) == 1 {"},
			{Name: "report-drops-min-stdlib", File: "analysis/report/report.go", Rule: "R20.1", KeyPart: "MinimumStdlibVersion",
				Old: "\tif n := cfg.MinimumStdlibVersion; n != \"\" && version.Compare(n, stdlibVersion) == 1 {\n\t\treturn\n\t}\n", New: ""},
			{Name: "go-flag-not-forwarded", File: "lintcmd/runner/runner.go", Rule: "R20.2", KeyPart: "loader.Options.GoVersion",
				Old: "loader.Load(a.Package, &loader.Options{GoVersion: r.GoVersion})", New: "loader.Load(a.Package, &loader.Options{})"},
			{Name: "go-flag-not-hashed", File: "lintcmd/runner/runner.go", Rule: "R20.2", KeyPart: "cache-key",
				Old: "\tfmt.Fprintf(h, \"go %s\\n\", r.GoVersion)\n", New: ""},
			{Name: "loader-ignores-flag", File: "go/loader/loader.go", Rule: "R20.2", KeyPart: "types.Config.GoVersion",
				Old: "\t} else {\n\t\ttc.GoVersion = prog.options.GoVersion\n\t}\n", New: "\t}\n"},
			{Name: "no-fileversions", File: "go/loader/loader.go", Rule: "R20.3", KeyPart: "FileVersions",
				Old: "\t\t\tFileVersions: make(map[*ast.File]string),\n", New: ""},
			{Name: "stdlib-flip-filetag", File: "analysis/code/code.go", Rule: "R20.4", KeyPart: "StdlibVersion",
				Old: "\t\t\tif version.Compare(nf, n) == 1 {\n\t\t\t\treturn nf\n\t\t\t}", New: "\t\t\tif version.Compare(nf, n) == -1 {\n\t\t\t\treturn nf\n\t\t\t}"},
			{Name: "check-uses-malformed-version", File: "simple/s1005/s1005.go", Rule: "R20.5", KeyPart: "s1005",
				Old: "\t\t\t\treport.MinimumLanguageVersion(\"go1.4\"),\n\t\t\t\treport.Fixes(edit.Fix(\"Remove assignment to blank identifier\", edit.Delete(edit.Range{rs.Key.End(), rs.Value.End()}))))", New: "\t\t\t\treport.MinimumLanguageVersion(\"1.4\"),\n\t\t\t\treport.Fixes(edit.Fix(\"Remove assignment to blank identifier\", edit.Delete(edit.Range{rs.Key.End(), rs.Value.End()}))))"},
			{Name: "stdlib-121-boundary", File: "analysis/code/code.go", Rule: "R20.4", KeyPart: "StdlibVersion",
				Old: "\t\tif version.Compare(n, \"go1.21\") == -1 {", New: "\t\tif version.Compare(n, \"go1.21\") != 1 {"},
		},
	})
}

// storedToField lists the values stored into field `field` of the named type
// whose qualified name ends in typ, within fn and its closures.
func storedToField(fn *ssa.Function, typ, field string) []ssa.Value {
	var out []ssa.Value
	Instrs(fn, true, func(in ssa.Instruction) {
		if st, ok := in.(*ssa.Store); ok {
			if IsFieldOf(typ, field)(st.Addr) {
				out = append(out, st.Val)
			}
		}
	})
	return out
}

func runC20(c *Ctx) {
	report := c.Func("analysis/report", "Report")
	optsT := c.NamedType("analysis/report", "Options")

	// version fields = string fields of Options that Report compares with a version
	type role struct{ kind, bound string } // kind: lang|stdlib ; bound: min|max
	roles := map[string]role{}

	c.Rule("R20.1", func() {
		c.Floor("R20.1", 12)
		isVersionCall := func(kind string) func(ssa.Value) bool {
			name := codePkg + ".LanguageVersion"
			if kind == "stdlib" {
				name = codePkg + ".StdlibVersion"
			}
			return func(v ssa.Value) bool { return DerivesLocal(v, IsCallResult(name)) }
		}
		fieldOf := func(v ssa.Value) string {
			name := ""
			for x := range BackSlice(v, SliceOpts{}) {
				if fa, ok := x.(*ssa.FieldAddr); ok {
					if owner, f := FieldOf(fa.X.Type(), fa.Field); f != nil && strings.HasSuffix(owner, "report.Options") {
						name = f.Name()
					}
				}
			}
			return name
		}
		// cmpSets: for a condition over version.Compare(a, b), the sets of Compare results on its true and
		// on its false edge, with the two operands. Understands every comparison of the result with a
		// constant, in either operand order, through negation.
		type cmpInfo struct {
			a0, a1     ssa.Value
			onTrue     map[int]bool
			onFalse    map[int]bool
			recognised bool
		}
		var cmpOf func(fn *ssa.Function, cond ssa.Value, bind map[*ssa.Parameter]ssa.Value, depth int) cmpInfo
		cmpOf = func(fn *ssa.Function, cond ssa.Value, bind map[*ssa.Parameter]ssa.Value, depth int) cmpInfo {
			cond, neg := StripNot(cond)
			resolve := func(v ssa.Value) ssa.Value {
				if p, ok := v.(*ssa.Parameter); ok && bind[p] != nil {
					return bind[p]
				}
				return v
			}
			var info cmpInfo
			switch x := cond.(type) {
			case *ssa.BinOp:
				call, kv := x.X, x.Y
				op := x.Op
				if _, isK := ConstInt(call); isK {
					call, kv = x.Y, x.X
					op = map[token.Token]token.Token{token.LSS: token.GTR, token.GTR: token.LSS, token.LEQ: token.GEQ, token.GEQ: token.LEQ, token.EQL: token.EQL, token.NEQ: token.NEQ}[op]
				}
				cc, ok := call.(*ssa.Call)
				k, isK := ConstInt(kv)
				if !ok || !isK || !IsCallTo(cc, "go/version.Compare") {
					return info
				}
				info.a0, info.a1 = resolve(cc.Call.Args[0]), resolve(cc.Call.Args[1])
				info.onTrue, info.onFalse = map[int]bool{}, map[int]bool{}
				for _, r := range []int{-1, 0, 1} {
					holds := false
					switch op {
					case token.EQL:
						holds = int64(r) == k
					case token.NEQ:
						holds = int64(r) != k
					case token.LSS:
						holds = int64(r) < k
					case token.LEQ:
						holds = int64(r) <= k
					case token.GTR:
						holds = int64(r) > k
					case token.GEQ:
						holds = int64(r) >= k
					default:
						return cmpInfo{}
					}
					if holds {
						info.onTrue[r] = true
					} else {
						info.onFalse[r] = true
					}
				}
				info.recognised = true
			case *ssa.Call:
				// a helper of the package: below(v, bound) = bound != "" && version.Compare(bound, v) == -1
				h := x.Call.StaticCallee()
				if h == nil || depth > 1 || FuncPkgPath(h) != FuncPkgPath(report) || h.Blocks == nil || len(Returns(h)) == 0 {
					return info
				}
				b2 := map[*ssa.Parameter]ssa.Value{}
				for pi, prm := range h.Params {
					if pi < len(x.Call.Args) {
						b2[prm] = resolve(x.Call.Args[pi])
					}
				}
				// the helper returns the comparison itself (possibly as `bound != "" && Compare(…) == k`)
				{
					var cands []ssa.Value
					for _, r := range Returns(h) {
						v := ReturnOperand(r, 0)
						if phi, ok := v.(*ssa.Phi); ok {
							for _, e := range phi.Edges {
								if !isBoolConst(e, false) {
									cands = append(cands, e)
								}
							}
						} else if !isBoolConst(v, false) {
							cands = append(cands, v)
						}
					}
					var first cmpInfo
					same := len(cands) > 0
					for i, cv := range cands {
						if _, isBin := cv.(*ssa.BinOp); !isBin {
							same = false
							break
						}
						ci := cmpOf(h, cv, b2, depth+1)
						if !ci.recognised {
							same = false
							break
						}
						if i == 0 {
							first = ci
						} else if ci.a0 != first.a0 || ci.a1 != first.a1 || len(ci.onTrue) != len(first.onTrue) {
							same = false
						}
					}
					if same {
						info = cmpInfo{a0: first.a0, a1: first.a1, onTrue: first.onTrue, onFalse: map[int]bool{-1: true, 0: true, 1: true}, recognised: true}
						if neg {
							info.onTrue, info.onFalse = info.onFalse, info.onTrue
						}
						return info
					}
				}
				// the helper answers true only on an edge of a Compare condition: collect the result sets of
				// the edges every true-return passes
				for _, hb := range h.Blocks {
					iff, ok := hb.Instrs[len(hb.Instrs)-1].(*ssa.If)
					if !ok {
						continue
					}
					inner := cmpOf(h, iff.Cond, b2, depth+1)
					if !inner.recognised {
						continue
					}
					// true is returned only via this condition's true edge (or only via its false edge)?
					for succ, set := range []map[int]bool{inner.onTrue, inner.onFalse} {
						edge := map[Edge]bool{{Block: hb.Index, Succ: succ}: true}
						all, any := true, false
						for _, r := range Returns(h) {
							v := ReturnOperand(r, 0)
							maybeTrue := !isBoolConst(v, false)
							if phi, ok := v.(*ssa.Phi); ok {
								maybeTrue = false
								for pi2, e := range phi.Edges {
									if !isBoolConst(e, false) {
										pred := phi.Block().Preds[pi2]
										if okp, _ := MustPassEdges(h, pred.Instrs[len(pred.Instrs)-1], edge); !okp {
											all = false
										}
										any = true
									}
								}
								continue
							}
							if maybeTrue {
								any = true
								if okp, _ := MustPassEdges(h, r, edge); !okp {
									all = false
								}
							}
						}
						if all && any {
							info = cmpInfo{a0: inner.a0, a1: inner.a1, onTrue: set, onFalse: map[int]bool{-1: true, 0: true, 1: true}, recognised: true}
						}
					}
				}
			}
			if neg && info.recognised {
				info.onTrue, info.onFalse = info.onFalse, info.onTrue
			}
			return info
		}
		for _, b := range report.Blocks {
			iff, ok := b.Instrs[len(b.Instrs)-1].(*ssa.If)
			if !ok {
				continue
			}
			info := cmpOf(report, iff.Cond, nil, 0)
			if !info.recognised {
				// a condition that mentions version.Compare in a form we do not understand must not pass silently
				if Derives(iff.Cond, IsCallResult("go/version.Compare")) {
					if bo, isBo := iff.Cond.(*ssa.BinOp); isBo {
						if _, isCall := bo.X.(*ssa.Call); isCall {
							c.Undecided("unrecognised comparison form of version.Compare in Report")
						}
					}
				}
				continue
			}
			a0, a1 := info.a0, info.a1
			f := fieldOf(a0)
			swapped := false
			verArg := a1
			if f == "" {
				f = fieldOf(a1)
				swapped = true
				verArg = a0
			}
			if f == "" {
				c.Undecided("Report compares two values neither of which is an Options field")
			}
			kind := ""
			switch {
			case isVersionCall("lang")(verArg):
				kind = "lang"
			case isVersionCall("stdlib")(verArg):
				kind = "stdlib"
			default:
				c.Undecided("Report compares Options.%s with something that is neither code.LanguageVersion nor code.StdlibVersion", f)
			}
			// the edge on which the diagnostic is dropped (pass.Report unreachable) and the Compare results on it
			dropped := false
			for succIdx, set := range []map[int]bool{info.onTrue, info.onFalse} {
				succ := b.Succs[succIdx]
				t, _ := PathAvoiding(report, succ.Instrs[0], isPassReport, nil, nil)
				if t != nil || isPassReport(succ.Instrs[0]) {
					continue // the diagnostic can still be reported on this edge
				}
				if len(set) == 3 {
					continue // an edge that says nothing about the comparison (e.g. the empty-bound short cut)
				}
				dropped = true
				s := 0
				switch {
				case len(set) == 1 && set[-1]:
					s = -1
				case len(set) == 1 && set[1]:
					s = 1
				default:
					c.Check(FuncKey(report)+"::violated-"+f+"-drops-the-diagnostic", iff.Pos(), false, "the diagnostic is dropped for Compare results %v of Options.%s: a bound is inclusive, so only 'strictly below the minimum' or 'strictly above the maximum' may drop it", SortedIntKeys(set), f)
					continue
				}
				if swapped {
					s = -s
				}
				c.Check(FuncKey(report)+"::violated-"+f+"-drops-the-diagnostic", iff.Pos(), true, "when the bound Options.%s is violated, pass.Report is unreachable", f)
				r := role{kind: kind}
				if s == -1 {
					r.bound = "max" // bound < version ⇒ dropped
				} else {
					r.bound = "min" // bound > version ⇒ dropped
				}
				if old, dup := roles[f]; dup && old != r {
					c.Check(FuncKey(report)+"::role-of-Options."+f, iff.Pos(), false, "Options.%s is used both as %s-%s and as %s-%s bound", f, old.bound, old.kind, r.bound, r.kind)
				}
				roles[f] = r
			}
			if !dropped {
				c.Check(FuncKey(report)+"::violated-"+f+"-drops-the-diagnostic", iff.Pos(), false, "when the bound Options.%s is violated, pass.Report must be unreachable", f)
			}
		}
		// the naming contract of the fields themselves
		re := regexp.MustCompile(`^(Minimum|Maximum)(Language|Stdlib)Version$`)
		want := func(name string) (role, bool) {
			m := re.FindStringSubmatch(name)
			if m == nil {
				return role{}, false
			}
			r := role{bound: "min", kind: "lang"}
			if m[1] == "Maximum" {
				r.bound = "max"
			}
			if m[2] == "Stdlib" {
				r.kind = "stdlib"
			}
			return r, true
		}
		st := optsT.Underlying().(*types.Struct)
		seenRoles := map[role]string{}
		for f := range st.Fields() {
			w, isVersionField := want(f.Name())
			if !isVersionField {
				continue
			}
			got, used := roles[f.Name()]
			c.Check("report.Options."+f.Name()+"::role-in-Report", f.Pos(), used && got == w,
				"Report must use Options.%s as the %s-%s bound (used: %v, as %s-%s)", f.Name(), w.bound, w.kind, used, got.bound, got.kind)
			seenRoles[w] = f.Name()
		}
		for _, r := range []role{{"lang", "min"}, {"lang", "max"}, {"stdlib", "min"}, {"stdlib", "max"}} {
			found := false
			for _, got := range roles {
				if got == r {
					found = true
				}
			}
			c.CheckTrivial("report.Report::has-"+r.bound+"-"+r.kind+"-bound", report.Pos(), found, "Report enforces a %s %s version bound", r.bound, r.kind)
		}
		// setters
		pkg := c.SSAPkg("analysis/report")
		nSetters := 0
		for _, name := range SortedKeys(pkg.Members) {
			fn, ok := pkg.Members[name].(*ssa.Function)
			if !ok {
				continue
			}
			w, isSetter := want(name)
			if !isSetter {
				continue
			}
			nSetters++
			c.SawFunc(fn.String())
			var written []string
			isParam := func(x ssa.Value) bool { _, ok := x.(*ssa.Parameter); return ok }
			for fname := range roles {
				for _, v := range storedToField(fn, "report.Options", fname) {
					if DerivesLocal(v, isParam) {
						written = append(written, fname)
					}
				}
				// … or through a helper that is handed the field's address: set(&opts.F, vers) with *dst = vers
				for _, f := range DeepFuncs(fn, 0) {
					for _, ci := range Calls(f, false) {
						h := ci.Common().StaticCallee()
						if h == nil || h.Blocks == nil || FuncPkgPath(h) != reportPkg {
							continue
						}
						args := ci.Common().Args
						for di, dst := range args {
							if !IsFieldOf("report.Options", fname)(dst) || di >= len(h.Params) {
								continue
							}
							Instrs(h, false, func(in ssa.Instruction) {
								st, ok := in.(*ssa.Store)
								if !ok || st.Addr != ssa.Value(h.Params[di]) {
									return
								}
								for si, src := range h.Params {
									if st.Val == ssa.Value(src) && si < len(args) && Derives(args[si], isParam) {
										written = append(written, fname)
									}
								}
							})
						}
					}
				}
			}
			ok = len(written) == 1 && roles[written[0]] == w
			c.Check(reportPkg+"."+name+"::stores-into-field-with-its-role", fn.Pos(), ok,
				"option constructor %s must store its argument into exactly the Options field that Report uses as the %s-%s bound; it writes %v", name, w.bound, w.kind, written)
		}
		c.CheckTrivial(reportPkg+"::four-setters", token.NoPos, nSetters == 4, "%d of the 4 (Minimum|Maximum)(Language|Stdlib)Version constructors exist", nSetters)
	})

	c.Rule("R20.2", func() {
		c.Floor("R20.2", 6)
		cmdLint := c.Func("lintcmd", "(*Command).lint")
		run := c.Func("lintcmd", "(*linter).run")
		unc := c.Func("lintcmd/runner", "(*subrunner).doUncached")
		do := c.Func("lintcmd/runner", "(*subrunner).do")
		lfs := c.Func("go/loader", "(*program).loadFromSource")
		load := c.Func("go/loader", "Load")

		link := func(fn *ssa.Function, key, typ, field string, src func(ssa.Value) bool, what string) {
			var vals []ssa.Value
			for _, f := range DeepFuncs(fn, 2) {
				vals = append(vals, storedToField(f, typ, field)...)
			}
			ok := false
			for _, v := range vals {
				if Derives(v, src) {
					ok = true
				}
			}
			c.Check(FuncKey(fn)+"::"+key, fn.Pos(), ok, "%s (%d stores to %s.%s found)", what, len(vals), typ, field)
		}
		link(cmdLint, "options.goVersion←flags.goVersion", "lintcmd.options", "goVersion", IsFieldOf("", "goVersion"), "the -go flag value is put into the linter options")
		link(run, "Runner.GoVersion←options.goVersion", "runner.Runner", "GoVersion", IsFieldOf("lintcmd.options", "goVersion"), "the runner gets the linter option")
		link(unc, "loader.Options.GoVersion←Runner.GoVersion", "loader.Options", "GoVersion", IsFieldOf("runner.Runner", "GoVersion"), "the loader options get the runner's Go version")
		// … and that Options value is what Load receives
		passed := false
		for _, f := range DeepFuncs(unc, 2) {
			for _, ci := range CallsTo(f, false, Module+"/go/loader.Load") {
				if Derives(ci.Common().Args[1], IsFieldOf("runner.Runner", "GoVersion")) {
					passed = true
				}
			}
		}
		c.Check(FuncKey(unc)+"::Load-receives-options", unc.Pos(), passed, "loader.Load is called with the options carrying the runner's Go version")
		// Load hands its options to the program that loadFromSource reads
		link(load, "program.options←opts", "loader.program", "options", func(v ssa.Value) bool {
			p, ok := v.(*ssa.Parameter)
			return ok && strings.HasSuffix(p.Type().String(), "loader.Options")
		}, "Load stores its options in the program")
		// types.Config.GoVersion
		vals := storedToField(lfs, "types.Config", "GoVersion")
		fromFlag, fromModule := false, false
		moduleEdges := EqEdges(lfs, func(x, y ssa.Value) bool {
			k, ok := y.(*ssa.Const)
			return ok && k.Value != nil && k.Value.Kind() == constant.String && constant.StringVal(k.Value) == "module" && DerivesLocal(x, IsFieldOf("loader.Options", "GoVersion"))
		})
		// every value that can be stored, with the instruction that selects it (a φ of a version variable is
		// split into its incoming values, each anchored at the end of the block it comes from)
		type sel struct {
			v  ssa.Value
			at ssa.Instruction
		}
		var sels []sel
		var expand func(v ssa.Value, at ssa.Instruction, depth int)
		expand = func(v ssa.Value, at ssa.Instruction, depth int) {
			if phi, ok := v.(*ssa.Phi); ok && depth < 3 {
				for i, e := range phi.Edges {
					pred := phi.Block().Preds[i]
					expand(e, pred.Instrs[len(pred.Instrs)-1], depth+1)
				}
				return
			}
			sels = append(sels, sel{v, at})
		}
		Instrs(lfs, false, func(in ssa.Instruction) {
			st, ok := in.(*ssa.Store)
			if !ok || !IsFieldOf("types.Config", "GoVersion")(st.Addr) {
				return
			}
			expand(st.Val, st, 0)
		})
		goPrefixed := func(v ssa.Value) bool {
			// "go" + x, or fmt.Sprintf("go%s", x)
			return SliceHas(v, SliceOpts{ThroughCalls: true}, func(x ssa.Value) bool {
				if bo, isBo := x.(*ssa.BinOp); isBo && bo.Op == token.ADD {
					if k, ok := bo.X.(*ssa.Const); ok && k.Value != nil && k.Value.Kind() == constant.String && constant.StringVal(k.Value) == "go" {
						return true
					}
				}
				if call, isCall := x.(*ssa.Call); isCall && CalleeName(&call.Call) == "fmt.Sprintf" {
					if k, ok := call.Call.Args[0].(*ssa.Const); ok && k.Value != nil && k.Value.Kind() == constant.String && strings.HasPrefix(constant.StringVal(k.Value), "go%") {
						return true
					}
				}
				return false
			})
		}
		for _, sl := range sels {
			fromMod := SliceHas(sl.v, SliceOpts{ThroughCalls: true}, IsFieldOf("packages.Module", "GoVersion"))
			fromOpt := SliceHas(sl.v, SliceOpts{ThroughCalls: true}, IsFieldOf("loader.Options", "GoVersion"))
			if fromOpt && !fromMod {
				// must be on the not-"module" path
				if ok, _ := MustPassEdges(lfs, sl.at, ComplementEdges(moduleEdges)); ok {
					fromFlag = true
				}
			}
			if fromMod && goPrefixed(sl.v) {
				if ok, _ := MustPassEdges(lfs, sl.at, moduleEdges); ok {
					fromModule = true
				}
			}
		}
		c.Check(FuncKey(lfs)+"::types.Config.GoVersion←-go-flag", lfs.Pos(), fromFlag, "with an explicit -go value the type checker's GoVersion is that value (%d stores)", len(vals))
		c.Check(FuncKey(lfs)+"::types.Config.GoVersion←module-go-directive", lfs.Pos(), fromModule, "with -go=module the type checker's GoVersion is \"go\"+Module.GoVersion")
		// the Config that is configured is the one handed to the checker
		used := false
		for _, ci := range CallsTo(lfs, false, "go/types.NewChecker") {
			if _, ok := ci.Common().Args[0].(*ssa.Alloc); ok {
				for _, v := range vals {
					_ = v
				}
				used = true
			}
		}
		c.Check(FuncKey(lfs)+"::configured-Config-is-used", lfs.Pos(), used && len(vals) > 0, "types.NewChecker receives the Config whose GoVersion was set")
		// cache key: on every path, unconditionally
		keyFn, _ := keyFunctions(c, do)
		_, doWrites := hashedFields(keyFn)
		hashed, whyNot := mustHashed(keyFn, doWrites, "runner.Runner.GoVersion")
		c.Check(FuncKey(do)+"::cache-key-includes-GoVersion", do.Pos(), hashed, "the -go value is part of the action's cache key on every path (it is what the type checker gets unless it is \"module\"), so results computed for another target version are not reused: %s", whyNot)
	})

	c.Rule("R20.3", func() {
		c.Floor("R20.3", 4)
		lfs := c.Func("go/loader", "(*program).loadFromSource")
		fv := false
		for _, v := range storedToField(lfs, "types.Info", "FileVersions") {
			if _, ok := v.(*ssa.MakeMap); ok {
				fv = true
			}
		}
		c.Check(FuncKey(lfs)+"::types.Info.FileVersions-initialised", lfs.Pos(), fv, "the types.Info handed to the type checker has a FileVersions map, otherwise every file's language version is empty")
		lv := c.Func("analysis/code", "LanguageVersion")
		ok := false
		for _, r := range Returns(lv) {
			v := ReturnOperand(r, 0)
			if DerivesLocal(v, func(x ssa.Value) bool {
				l, isL := x.(*ssa.Lookup)
				return isL && DerivesLocal(l.X, IsFieldOf("types.Info", "FileVersions")) && DerivesLocal(l.Index, IsCallResult(codePkg+".File"))
			}) {
				ok = true
			}
		}
		c.Check(FuncKey(lv)+"::returns-FileVersions-of-the-node's-file", lv.Pos(), ok, "LanguageVersion returns TypesInfo.FileVersions[File(pass, node)]")
		sv := c.Func("analysis/code", "StdlibVersion")
		usesPkg, usesFile := false, false
		Instrs(sv, false, func(in ssa.Instruction) {
			if call, ok := in.(*ssa.Call); ok && IsCallTo(call, "go/types.Package.GoVersion") && DerivesLocal(call.Call.Args[0], IsFieldOf("analysis.Pass", "Pkg")) {
				usesPkg = true
			}
			if fa, ok := in.(*ssa.FieldAddr); ok && IsFieldOf("ast.File", "GoVersion")(fa) && DerivesLocal(fa.X, IsCallResult(codePkg+".File")) {
				usesFile = true
			}
		})
		c.Check(FuncKey(sv)+"::module-version-from-pass.Pkg", sv.Pos(), usesPkg, "StdlibVersion starts from pass.Pkg.GoVersion()")
		c.Check(FuncKey(sv)+"::file-tag-from-the-node's-file", sv.Pos(), usesFile, "StdlibVersion consults File(pass, node).GoVersion")
	})

	c.Rule("R20.4", func() {
		c.Floor("R20.4", 10)
		sv := c.Func("analysis/code", "StdlibVersion")
		// the file's own version must be the raw //go:build tag (ast.File.GoVersion): what go/types records in
		// Info.FileVersions (and code.LanguageVersion returns) is clamped to at least go1.21 for tagged files, so
		// below go1.21 — exactly where the tag decides the standard-library version — it is not the tag
		{
			var operands []ssa.Value
			for _, ci := range CallsTo(sv, false, "go/version.Compare") {
				operands = append(operands, ci.Common().Args...)
			}
			for _, r := range Returns(sv) {
				operands = append(operands, ReturnOperand(r, 0))
			}
			bad := ""
			for _, v := range operands {
				if Derives(v, IsFieldOf("types.Info", "FileVersions")) {
					bad = "types.Info.FileVersions"
				}
				if Derives(v, IsCallResult(codePkg+".LanguageVersion")) {
					bad = "code.LanguageVersion"
				}
			}
			c.Check(FuncKey(sv)+"::file-version-is-the-raw-build-tag", sv.Pos(), bad == "", "StdlibVersion must take a file's version from ast.File.GoVersion (the //go:build go1.N tag as written); %s is the type checker's view, which is raised to go1.21 for every tagged file, so a file tagged go1.18 in a go1.20 module would get the go1.21 standard library", bad)
			if bad != "" {
				return
			}
		}
		evalStdlibVersion(c, sv)
	})
	c.Rule("R20.5", func() {
		c.Floor("R20.5", 4)
		setters := map[string]bool{reportPkg + ".MinimumLanguageVersion": true, reportPkg + ".MaximumLanguageVersion": true, reportPkg + ".MinimumStdlibVersion": true, reportPkg + ".MaximumStdlibVersion": true}
		valid := regexp.MustCompile(`^go1(\.[0-9]+){1,2}$`)
		n := 0
		for _, fn := range c.ModuleFuncs() {
			if strings.Contains(FuncPkgPath(fn), "/internal/xtools-internal") {
				continue
			}
			for _, ci := range Calls(fn, false) {
				name := CalleeName(ci.Common())
				var arg ssa.Value
				switch {
				case setters[name]:
					arg = ci.Common().Args[0]
				case name == "go/version.Compare" && FuncPkgPath(fn) != reportPkg && FuncPkgPath(fn) != codePkg:
					// direct comparisons in checks: the constant operand
					for _, a := range ci.Common().Args {
						if _, ok := a.(*ssa.Const); ok {
							arg = a
						}
					}
				}
				if arg == nil {
					continue
				}
				n++
				sv, isConst := constStringVal(arg)
				key := strings.TrimPrefix(FuncKey(fn), Module+"/") + "::" + c.CallText(ci.Pos())
				if !isConst {
					c.Check(key, ci.Pos(), true, "version bound computed at run time")
					continue
				}
				c.Check(key, ci.Pos(), valid.MatchString(sv), "the version bound %q is not a valid Go version string (go1.N): go/version.Compare orders invalid versions before all valid ones, so the bound would silently always or never apply", sv)
			}
		}
		if n < 4 {
			c.Undecided("found only %d version bounds in checks", n)
		}
	})
}

func isPassReport(in ssa.Instruction) bool {
	call, ok := in.(*ssa.Call)
	if !ok {
		return false
	}
	// pass.Report is a func-typed field of analysis.Pass
	if DerivesLocal(call.Call.Value, IsFieldOf("analysis.Pass", "Report")) || DerivesLocal(call.Call.Value, IsFieldOf("analysis.Pass", "Reportf")) {
		return true
	}
	// … or a helper of the same package that makes the call
	if callee := call.Call.StaticCallee(); callee != nil && callee.Blocks != nil && in.Parent() != nil && FuncPkgPath(callee) == FuncPkgPath(in.Parent()) && callee != in.Parent() {
		for _, f := range DeepFuncs(callee, 1) {
			for _, ci := range Calls(f, false) {
				if DerivesLocal(ci.Common().Value, IsFieldOf("analysis.Pass", "Report")) || DerivesLocal(ci.Common().Value, IsFieldOf("analysis.Pass", "Reportf")) {
					return true
				}
			}
		}
	}
	return false
}

// evalStdlibVersion abstractly executes StdlibVersion for every ordering of
// (module version M, "go1.21", file tag F) it can distinguish.
func evalStdlibVersion(c *Ctx, fn *ssa.Function) {
	var M, F ssa.Value
	Instrs(fn, false, func(in ssa.Instruction) {
		if call, ok := in.(*ssa.Call); ok && IsCallTo(call, "go/types.Package.GoVersion") {
			M = call
		}
	})
	isF := func(v ssa.Value) bool {
		u, ok := v.(*ssa.UnOp)
		return ok && u.Op == token.MUL && IsFieldOf("ast.File", "GoVersion")(u.X)
	}
	isLenOfF := func(v ssa.Value) bool {
		call, ok := v.(*ssa.Call)
		if !ok {
			return false
		}
		b, isB := call.Call.Value.(*ssa.Builtin)
		return isB && b.Name() == "len" && isF(call.Call.Args[0])
	}
	if M == nil {
		c.Undecided("StdlibVersion does not call (*types.Package).GoVersion")
	}
	_ = F
	isK := func(v ssa.Value, s string) bool {
		k, ok := v.(*ssa.Const)
		return ok && k.Value != nil && k.Value.Kind() == constant.String && constant.StringVal(k.Value) == s
	}
	type class struct {
		tagged bool
		m121   int // cmp(M, go1.21)
		fm     int // cmp(F, M)
	}
	var classes []class
	classes = append(classes, class{tagged: false})
	for _, a := range []int{-1, 0, 1} {
		for _, b := range []int{-1, 0, 1} {
			classes = append(classes, class{true, a, b})
		}
	}
	name := map[int]string{-1: "<", 0: "=", 1: ">"}
	for _, cl := range classes {
		desc := "no file tag"
		if cl.tagged {
			desc = "file tag F set, module " + name[cl.m121] + " go1.21, F " + name[cl.fm] + " module"
		}
		// expected result
		want := "M"
		if cl.tagged {
			if cl.m121 < 0 {
				want = "F"
			} else if cl.fm > 0 {
				want = "F"
			}
		}
		cmp := func(a, b ssa.Value) (int, bool) {
			switch {
			case a == M && isK(b, "go1.21"):
				return cl.m121, true
			case isK(a, "go1.21") && b == M:
				return -cl.m121, true
			case isF(a) && b == M:
				return cl.fm, true
			case a == M && isF(b):
				return -cl.fm, true
			}
			return 0, false
		}
		blk := fn.Blocks[0]
		var prev *ssa.BasicBlock
		got := ""
		steps := 0
		for got == "" {
			steps++
			if steps > 200 {
				c.Undecided("abstract evaluation of StdlibVersion does not terminate")
			}
			last := blk.Instrs[len(blk.Instrs)-1]
			switch t := last.(type) {
			case *ssa.Return:
				v := ReturnOperand(t, 0)
				if phi, ok := v.(*ssa.Phi); ok && phi.Block() == blk {
					for i, p := range blk.Preds {
						if p == prev {
							v = phi.Edges[i]
						}
					}
				}
				switch {
				case v == M:
					got = "M"
				case isF(v):
					got = "F"
				default:
					c.Undecided("StdlibVersion returns a value that is neither the module version nor the file tag")
				}
			case *ssa.Jump:
				prev, blk = blk, blk.Succs[0]
			case *ssa.Panic:
				c.Undecided("abstract evaluation of StdlibVersion reached a panic for class %q", desc)
			case *ssa.If:
				cond, neg := StripNot(t.Cond)
				bo, ok := cond.(*ssa.BinOp)
				if !ok {
					c.Undecided("unrecognised condition in StdlibVersion")
				}
				var truth bool
				switch {
				case IsNilConst(bo.Y) || IsNilConst(bo.X):
					// File(pass,node) == nil: the panic path is not a version decision
					truth = bo.Op == token.NEQ
				case isF(bo.X) && isK(bo.Y, ""), isK(bo.X, "") && isF(bo.Y):
					truth = (bo.Op == token.NEQ) == cl.tagged
				case isLenOfF(bo.X) || isLenOfF(bo.Y):
					// len(tag) compared with a constant: the tag is either empty (length 0) or a version (length >= 3)
					l := int64(0)
					if cl.tagged {
						l = 5 // "go1.N": any length >= 3 gives the same answers for the constants 0 and 1
					}
					x, y := bo.X, bo.Y
					var a, b int64
					if isLenOfF(x) {
						k, ok := ConstInt(y)
						if !ok || k > 1 {
							c.Undecided("StdlibVersion compares the tag's length with something other than 0 or 1")
						}
						a, b = l, k
					} else {
						k, ok := ConstInt(x)
						if !ok || k > 1 {
							c.Undecided("StdlibVersion compares the tag's length with something other than 0 or 1")
						}
						a, b = k, l
					}
					switch bo.Op {
					case token.EQL:
						truth = a == b
					case token.NEQ:
						truth = a != b
					case token.LSS:
						truth = a < b
					case token.LEQ:
						truth = a <= b
					case token.GTR:
						truth = a > b
					case token.GEQ:
						truth = a >= b
					}
				default:
					call, isCall := bo.X.(*ssa.Call)
					k, isConst := ConstInt(bo.Y)
					if !isCall || !isConst || !IsCallTo(call, "go/version.Compare") {
						c.Undecided("unrecognised condition in StdlibVersion: %s", bo)
					}
					if !cl.tagged {
						c.Undecided("StdlibVersion compares versions although the file has no tag")
					}
					v, ok := cmp(call.Call.Args[0], call.Call.Args[1])
					if !ok {
						c.Undecided("StdlibVersion compares values other than module version, file tag and go1.21")
					}
					switch bo.Op {
					case token.EQL:
						truth = int64(v) == k
					case token.NEQ:
						truth = int64(v) != k
					case token.LSS:
						truth = int64(v) < k
					case token.LEQ:
						truth = int64(v) <= k
					case token.GTR:
						truth = int64(v) > k
					case token.GEQ:
						truth = int64(v) >= k
					default:
						c.Undecided("unrecognised comparison operator in StdlibVersion")
					}
				}
				if neg {
					truth = !truth
				}
				prev = blk
				if truth {
					blk = blk.Succs[0]
				} else {
					blk = blk.Succs[1]
				}
			default:
				c.Undecided("unexpected terminator in StdlibVersion")
			}
		}
		w := map[string]string{"M": "the module version", "F": "the file tag"}
		c.Check(FuncKey(fn)+"::table["+desc+"]", fn.Pos(), got == want, "StdlibVersion must return %s for %q, it returns %s", w[want], desc, w[got])
	}
}

// SortedIntKeys returns the keys of a set of ints in increasing order.
func SortedIntKeys(m map[int]bool) []int {
	var out []int
	for k := range m {
		out = append(out, k)
	}
	sort.Ints(out)
	return out
}
