package props

import (
	"go/token"
	"go/types"
	"sort"
	"strings"

	"golang.org/x/tools/go/ssa"

	. "verif/checker/engine"
)

// mapOrdered describes a value whose element order is map-iteration order.
type mapOrdered struct {
	Fn   *ssa.Function
	Name string // variable name (for messages)
	Key  string // stable identity: what the order comes from (the ranged map's type), independent of variable names
	Pos  token.Pos
	// unsanitised order-sensitive uses
	BadUses []ssa.Instruction
	Kind    string // "slice" or "effect"
}

var sortFuncs = map[string]bool{
	"sort.Slice": true, "sort.SliceStable": true, "sort.Strings": true, "sort.Ints": true, "sort.Float64s": true, "sort.Sort": true, "sort.Stable": true,
	"slices.Sort": true, "slices.SortFunc": true, "slices.SortStableFunc": true,
}

func isSortCallOn(in ssa.Instruction, v func(ssa.Value) bool) bool {
	ci, ok := in.(ssa.CallInstruction)
	if !ok {
		return false
	}
	name := CalleeName(ci.Common())
	// generic instantiations: slices.Sort[...]
	if i := strings.Index(name, "["); i >= 0 {
		name = name[:i]
	}
	if len(ci.Common().Args) == 0 {
		return false
	}
	if sortFuncs[name] {
		return DerivesLocal(ci.Common().Args[0], v)
	}
	// a helper of the module that sorts the slice it is handed, on every path
	h := ci.Common().StaticCallee()
	if h == nil || h.Blocks == nil || !FuncInModule(h) {
		return false
	}
	for pi, prm := range h.Params {
		if pi >= len(ci.Common().Args) || !DerivesLocal(ci.Common().Args[pi], v) {
			continue
		}
		for _, sc := range Calls(h, false) {
			n2 := CalleeName(sc.Common())
			if i := strings.Index(n2, "["); i >= 0 {
				n2 = n2[:i]
			}
			if !sortFuncs[n2] || len(sc.Common().Args) == 0 || !DerivesLocal(sc.Common().Args[0], func(x ssa.Value) bool { return x == ssa.Value(prm) }) {
				continue
			}
			t, _ := PathAvoiding(h, nil, func(x ssa.Instruction) bool { _, isRet := x.(*ssa.Return); return isRet }, func(x ssa.Instruction) bool { return x == ssa.Instruction(sc) }, nil)
			if t == nil {
				return true
			}
		}
	}
	return false
}

// mapLoops returns, for every loop over a map in fn, the Next instruction and
// the set of blocks of the loop body.
func mapLoops(fn *ssa.Function) map[*ssa.Next]map[*ssa.BasicBlock]bool {
	out := map[*ssa.Next]map[*ssa.BasicBlock]bool{}
	Instrs(fn, false, func(in ssa.Instruction) {
		nx, ok := in.(*ssa.Next)
		if !ok || nx.IsString {
			return
		}
		rg, ok := nx.Iter.(*ssa.Range)
		if !ok {
			return
		}
		if _, isMap := rg.X.Type().Underlying().(*types.Map); !isMap {
			return
		}
		// the natural loop of the header: the blocks from which a back edge (a predecessor of the
		// header that the header dominates) can be reached without passing the header. Code that
		// follows the loop inside an enclosing loop is NOT part of it.
		body := map[*ssa.BasicBlock]bool{}
		hdr := nx.Block()
		var work []*ssa.BasicBlock
		for _, p := range hdr.Preds {
			if hdr.Dominates(p) && p != hdr {
				work = append(work, p)
			}
		}
		for len(work) > 0 {
			b := work[len(work)-1]
			work = work[:len(work)-1]
			if body[b] || b == hdr {
				continue
			}
			body[b] = true
			for _, p := range b.Preds {
				work = append(work, p)
			}
		}
		out[nx] = body
	})
	return out
}

// findMapOrdered lists the map-ordered slices and order-sensitive effects of fn.
func findMapOrdered(c *Ctx, fn *ssa.Function) []mapOrdered {
	var out []mapOrdered
	loops := mapLoops(fn)
	var order []*ssa.Next
	for nx := range loops {
		order = append(order, nx)
	}
	sort.Slice(order, func(i, j int) bool {
		if order[i].Block().Index != order[j].Block().Index {
			return order[i].Block().Index < order[j].Block().Index
		}
		return order[i].Pos() < order[j].Pos()
	})
	for _, nx := range order {
		body := loops[nx]
		hdr := nx.Block()
		inLoop := func(in ssa.Instruction) bool { return body[in.Block()] || in.Block() == hdr }
		// (1) SSA accumulators: phis in the header (or in headers of
		// enclosing loops) that receive an append computed in the body
		for b := range body {
			for _, in := range b.Instrs {
				call, ok := in.(*ssa.Call)
				if !ok || !IsCallTo(call, "builtin.append") {
					continue
				}
				// which phi does the appended-to value come from?
				var acc *ssa.Phi
				for x := range BackSlice(call.Call.Args[0], SliceOpts{NoMemory: true}) {
					if phi, ok := x.(*ssa.Phi); ok && (phi.Block() == hdr || phi.Block().Dominates(hdr)) {
						// the phi must in turn receive this append
						if DerivesLocal(phi, func(v ssa.Value) bool { return v == ssa.Value(call) }) {
							if acc == nil || acc.Block().Dominates(phi.Block()) {
								acc = phi
							}
						}
					}
				}
				if acc == nil {
					continue
				}
				// the family of values carrying the accumulated slice
				family := map[ssa.Value]bool{}
				var grow func(v ssa.Value)
				grow = func(v ssa.Value) {
					if family[v] {
						return
					}
					family[v] = true
					if refs := v.Referrers(); refs != nil {
						for _, r := range *refs {
							switch r := r.(type) {
							case *ssa.Phi:
								grow(r)
							case *ssa.Call:
								if IsCallTo(r, "builtin.append") && r.Call.Args[0] == v {
									grow(r)
								}
							case *ssa.Slice:
								grow(r)
							case *ssa.MakeInterface, *ssa.ChangeType:
								grow(r.(ssa.Value))
							case *ssa.Store:
								// spilled into a local variable: its loads carry the slice
								if al, ok := r.Addr.(*ssa.Alloc); ok && r.Val == v {
									if ar := al.Referrers(); ar != nil {
										for _, l := range *ar {
											if u, ok := l.(*ssa.UnOp); ok && u.Op == token.MUL {
												grow(u)
											}
										}
									}
								}
							}
						}
					}
				}
				grow(acc)
				inFamily := func(v ssa.Value) bool { return family[v] }
				mo := mapOrdered{Fn: fn, Name: strings.TrimPrefix(acc.Comment, "#"), Pos: call.Pos(), Kind: "slice", Key: TypeString(acc.Type()) + "-in-order-of " + rangedMapType(nx)}
				if mo.Name == "" {
					mo.Name = acc.Name()
				}
				var sorts []ssa.Instruction
				Instrs(fn, false, func(x ssa.Instruction) {
					if isSortCallOn(x, inFamily) && !inLoop(x) {
						sorts = append(sorts, x)
					}
				})
				seenUse := map[ssa.Instruction]bool{}
				for v := range family {
					refs := v.Referrers()
					if refs == nil {
						continue
					}
					for _, r := range *refs {
						if seenUse[r] || inLoop(r) {
							continue
						}
						seenUse[r] = true
						if rv, ok := r.(ssa.Value); ok && family[rv] {
							continue
						}
						if _, ok := r.(*ssa.DebugRef); ok {
							continue
						}
						if call, ok := r.(*ssa.Call); ok && IsCallTo(call, "builtin.len", "builtin.cap") {
							continue
						}
						// spilling the slice into a local variable is not a use; the variable's loads are (they are in the family)
						if st, ok := r.(*ssa.Store); ok && family[st.Val] {
							if _, local := st.Addr.(*ssa.Alloc); local {
								continue
							}
						}
						if !sanitisedBy(r, sorts, inFamily) {
							mo.BadUses = append(mo.BadUses, r)
						}
					}
				}
				dup := false
				for _, o := range out {
					if o.Fn == fn && o.Name == mo.Name && o.Kind == "slice" {
						dup = true
					}
				}
				if !dup {
					out = append(out, mo)
				}
			}
		}
		// (2) memory accumulators: x.f = append(x.f, …) inside the loop
		for b := range body {
			for _, in := range b.Instrs {
				st, ok := in.(*ssa.Store)
				if !ok {
					continue
				}
				call, ok := st.Val.(*ssa.Call)
				if !ok || !IsCallTo(call, "builtin.append") {
					continue
				}
				u, ok := call.Call.Args[0].(*ssa.UnOp)
				if !ok || u.Op != token.MUL || AddrKey(u.X) != AddrKey(st.Addr) {
					continue
				}
				key := AddrKey(st.Addr)
				name := strings.TrimPrefix(LastField(AccessPath(st.Addr)), "local:")
				mo := mapOrdered{Fn: fn, Name: name, Pos: st.Pos(), Kind: "slice", Key: TypeString(call.Type()) + "-in-order-of " + rangedMapType(nx)}
				related := func(k2 string) bool {
					return k2 == key || strings.HasPrefix(key, k2+".") || strings.HasPrefix(key, k2+"[")
				}
				var sorts []ssa.Instruction
				Instrs(fn, false, func(x ssa.Instruction) {
					if inLoop(x) {
						return
					}
					if isSortCallOn(x, func(v ssa.Value) bool {
						l, ok := v.(*ssa.UnOp)
						return ok && l.Op == token.MUL && AddrKey(l.X) == key
					}) {
						sorts = append(sorts, x)
					}
				})
				Instrs(fn, false, func(x ssa.Instruction) {
					l, ok := x.(*ssa.UnOp)
					if !ok || l.Op != token.MUL || inLoop(x) || !related(AddrKey(l.X)) {
						return
					}
					if !ReachesFrom(fn, nx, x) {
						return
					}
					// loads that only feed a sort call are the sanitiser itself
					onlySort := true
					var walk func(v ssa.Value)
					walk = func(v ssa.Value) {
						refs := v.Referrers()
						if refs == nil {
							return
						}
						for _, r := range *refs {
							switch r := r.(type) {
							case *ssa.MakeInterface:
								walk(r)
							case *ssa.ChangeType:
								walk(r)
							case *ssa.DebugRef:
							default:
								isS := false
								for _, s := range sorts {
									if s == r {
										isS = true
									}
								}
								if !isS {
									onlySort = false
								}
							}
						}
					}
					walk(l)
					if onlySort && len(*l.Referrers()) > 0 {
						return
					}
					sanitised := false
					for _, s := range sorts {
						if InstrDominates(s, x) {
							sanitised = true
						}
					}
					if !sanitised {
						mo.BadUses = append(mo.BadUses, x)
					}
				})
				out = append(out, mo)
			}
		}
		// (3) order-sensitive effects inside the loop
		for b := range body {
			for _, in := range b.Instrs {
				switch x := in.(type) {
				case *ssa.Send:
					out = append(out, mapOrdered{Fn: fn, Name: "send", Key: "send", Pos: x.Pos(), Kind: "effect", BadUses: []ssa.Instruction{x}})
				case ssa.CallInstruction:
					n := CalleeName(x.Common())
					if strings.HasPrefix(n, "fmt.Fprint") || strings.HasPrefix(n, "fmt.Print") || strings.HasPrefix(n, "log.Print") ||
						strings.HasSuffix(n, ".Encode") || n == "io.WriteString" || strings.HasSuffix(n, "os.File.Write") || strings.HasSuffix(n, "os.File.WriteString") {
						out = append(out, mapOrdered{Fn: fn, Name: n, Key: n, Pos: x.Pos(), Kind: "effect", BadUses: []ssa.Instruction{x}})
					}
				}
			}
		}
	}
	// (4) slices.Collect(maps.Keys/Values(m)), slices.AppendSeq
	Instrs(fn, false, func(in ssa.Instruction) {
		call, ok := in.(*ssa.Call)
		if !ok {
			return
		}
		n := CalleeName(&call.Call)
		if i := strings.Index(n, "["); i >= 0 {
			n = n[:i]
		}
		if n != "slices.Collect" && n != "slices.AppendSeq" {
			return
		}
		fromMap := Derives(call.Call.Args[len(call.Call.Args)-1], func(v ssa.Value) bool {
			c2, ok := v.(*ssa.Call)
			if !ok {
				return false
			}
			m := CalleeName(&c2.Call)
			if i := strings.Index(m, "["); i >= 0 {
				m = m[:i]
			}
			return m == "maps.Keys" || m == "maps.Values" || m == "maps.All"
		})
		if !fromMap {
			return
		}
		mo := mapOrdered{Fn: fn, Name: c.CallText(call.Pos()), Pos: call.Pos(), Kind: "slice", Key: "slice-collected-from " + TypeString(call.Call.Args[len(call.Call.Args)-1].Type())}
		isV := func(v ssa.Value) bool { return v == ssa.Value(call) }
		var sorts []ssa.Instruction
		Instrs(fn, false, func(x ssa.Instruction) {
			if isSortCallOn(x, isV) {
				sorts = append(sorts, x)
			}
		})
		// the value and, if it is spilled into a local variable, its loads
		var uses []ssa.Instruction
		if refs := call.Referrers(); refs != nil {
			for _, r := range *refs {
				if st, ok := r.(*ssa.Store); ok && st.Val == ssa.Value(call) {
					if al, ok := st.Addr.(*ssa.Alloc); ok {
						for _, l := range *al.Referrers() {
							if u, ok := l.(*ssa.UnOp); ok && u.Op == token.MUL && u.Parent() == fn {
								if ur := u.Referrers(); ur != nil {
									for _, x := range *ur {
										if mi, ok := x.(*ssa.MakeInterface); ok {
											uses = append(uses, *mi.Referrers()...)
										} else {
											uses = append(uses, x)
										}
									}
								}
							}
						}
						continue
					}
				}
				uses = append(uses, r)
			}
		}
		sorts = sorts[:0]
		Instrs(fn, false, func(x ssa.Instruction) {
			if isSortCallOn(x, func(v ssa.Value) bool {
				if v == ssa.Value(call) {
					return true
				}
				u, ok := v.(*ssa.UnOp)
				if !ok || u.Op != token.MUL {
					return false
				}
				al, ok := u.X.(*ssa.Alloc)
				if !ok {
					return false
				}
				for _, r := range *al.Referrers() {
					if st, ok := r.(*ssa.Store); ok && st.Val == ssa.Value(call) {
						return true
					}
				}
				return false
			}) {
				sorts = append(sorts, x)
			}
		})
		{
			for _, r := range uses {
				if _, ok := r.(*ssa.DebugRef); ok {
					continue
				}
				if !sanitisedBy(r, sorts, isV) {
					mo.BadUses = append(mo.BadUses, r)
				}
			}
		}
		out = append(out, mo)
	})
	return out
}

// rangedMapType renders the type of the map a loop ranges over.
func rangedMapType(nx *ssa.Next) string {
	if rg, ok := nx.Iter.(*ssa.Range); ok {
		return TypeString(rg.X.Type())
	}
	return "?"
}

// stableFuncKey is FuncKey with the ordinal of a closure ("$7") replaced by
// the closure's signature, so that adding or inlining another closure of the
// same function does not change the key.
func stableFuncKey(fn *ssa.Function) string {
	if fn.Parent() == nil {
		return FuncKey(fn)
	}
	return stableFuncKey(fn.Parent()) + "$" + TypeString(fn.Signature)
}

// sanitisedBy reports whether use r of a map-ordered value is reached only
// after one of the sorts ran: the sort dominates it, or r is a φ (a
// loop-carried variable) and the sort dominates the end of every predecessor
// through which the value flows into it — the slice is sorted in place before
// the back edge is taken.
func sanitisedBy(r ssa.Instruction, sorts []ssa.Instruction, carries func(ssa.Value) bool) bool {
	for _, s := range sorts {
		if s == r || InstrDominates(s, r) {
			return true
		}
	}
	phi, ok := r.(*ssa.Phi)
	if !ok {
		return false
	}
	any := false
	for i, e := range phi.Edges {
		if !carries(e) {
			continue
		}
		any = true
		pred := phi.Block().Preds[i]
		last := pred.Instrs[len(pred.Instrs)-1]
		ok := false
		for _, s := range sorts {
			if InstrDominates(s, last) {
				ok = true
			}
		}
		if !ok {
			return false
		}
	}
	return any
}
