package props

import (
	"fmt"
	"go/ast"
	"go/constant"
	"go/token"
	"go/types"
	"strings"

	"golang.org/x/tools/go/packages"
	"golang.org/x/tools/go/ssa"

	. "verif/checker/engine"
)

const nilnessPkg = Module + "/analysis/facts/nilness"
const densePkg = Module + "/analysis/dfa/dense"
const sparsePkg = Module + "/analysis/dfa/sparse"
const dfaPkg = Module + "/analysis/dfa"

func init() {
	Register(&Property{
		ID:       "C13",
		Patterns: []string{"./analysis/dfa/...", "./analysis/facts/nilness"},
		NeedSSA:  true,
		Explanation: "Decides (a) exhaustively, from the constant table in the source, that the 5-point nilness merge table is associative (125 triples), commutative, idempotent, has 0 as identity, is closed and yields the identity only for identity arguments (R13.1), and that lattice.Merge/Ident/Equals lift it componentwise (R13.2); " +
			"(b) the re-enqueue pairing both solvers need to reach a fixpoint: in the dense solver every changed edge fact re-enqueues that edge's successor, a block is skipped only when it is clean and its input is unchanged, edge facts of unvisited predecessors are never read, the queue's membership bit is cleared on dequeue (R13.3); " +
			"in the sparse solver the users re-enqueued after a change are those of the value whose state changed, every instruction is initially enqueued (R13.4); " +
			"(c) the pointwise lifting in MapLattice/DenseMapLattice covers the keys of both operands, uses the element lattice's Merge on common keys, returns the other operand for an empty one and sizes the dense result by the longer operand (R13.5). " +
			"It does NOT decide termination or leastness on all graphs × transfer functions." +
			" In the sparse solver every instruction of every block is seeded into the worklist unconditionally (values with a preset state never re-enqueue their users).",
		RuleText:    "R13.1 enumerates the whole finite table (exhaustive: true for that clause); the other rules are (rule, function::construct) obligations on the SSA CFG",
		Assumptions: []string{"transfer functions are monotone", "the table is not modified at run time (checked: no store to it)"},
		Run:         runC13,
		Mutants: []Mutant{
			{Name: "table-not-commutative", File: "analysis/facts/nilness/nilness.go", Rule: "R13.1", KeyPart: "commutative",
				Old: "\tNeverNil: {\n\t\t0:              NeverNil,\n\t\tNeverNil:       NeverNil,\n\t\tAlwaysNil:      MaybeNil,\n\t\tMaybeNilGlobal: MaybeNilGlobal,",
				New: "\tNeverNil: {\n\t\t0:              NeverNil,\n\t\tNeverNil:       NeverNil,\n\t\tAlwaysNil:      MaybeNil,\n\t\tMaybeNilGlobal: NeverNil,"},
			{Name: "table-not-associative", File: "analysis/facts/nilness/nilness.go", Rule: "R13.1", KeyPart: "associative",
				Old: "\tAlwaysNil: {\n\t\t0:              AlwaysNil,\n\t\tNeverNil:       MaybeNil,\n\t\tAlwaysNil:      AlwaysNil,\n\t\tMaybeNilGlobal: MaybeNil,",
				New: "\tAlwaysNil: {\n\t\t0:              AlwaysNil,\n\t\tNeverNil:       MaybeNil,\n\t\tAlwaysNil:      AlwaysNil,\n\t\tMaybeNilGlobal: MaybeNilGlobal,"},
			{Name: "merge-crosses-components", File: "analysis/facts/nilness/nilness.go", Rule: "R13.2", KeyPart: "Merge",
				Old: "\t\tInner: latticeMerge[a.Inner][b.Inner],", New: "\t\tInner: latticeMerge[a.Inner][b.Outer],"},
			{Name: "dense-no-reenqueue", File: "analysis/dfa/dense/forward.go", Rule: "R13.3", KeyPart: "enqueue",
				Old: "\t\t\t\tblock.out[i] = edgeFact\n\t\t\t\tfb.queue.enqueue(succNum)\n", New: "\t\t\t\tblock.out[i] = edgeFact\n"},
			{Name: "dense-skip-dirty", File: "analysis/dfa/dense/forward.go", Rule: "R13.3", KeyPart: "skip",
				Old: "\t\tif !block.dirty && fb.l.Equals(in, block.in) {", New: "\t\tif fb.l.Equals(in, block.in) {"},
			{Name: "dense-read-unvisited-pred", File: "analysis/dfa/dense/forward.go", Rule: "R13.3", KeyPart: "unvisited",
				Old: "\t\t\tif pred.dirty {\n\t\t\t\t// We haven't visited this predecessor yet, so it doesn't have\n\t\t\t\t// meaningful out facts.\n\t\t\t\tedgeFact = fb.l.Ident()\n\t\t\t} else {\n\t\t\t\tedgeFact = pred.out[edge.i]\n\t\t\t}",
				New: "\t\t\tedgeFact = pred.out[edge.i]"},
			{Name: "dense-dequeue-keeps-bit", File: "analysis/dfa/dense/forward.go", Rule: "R13.3", KeyPart: "dequeue",
				Old: "\th.inQueue[nid/64] &^= 1 << (nid % 64)\n", New: ""},
			{Name: "sparse-phis-not-seeded", File: "analysis/dfa/sparse/dfa.go", Rule: "R13.4", KeyPart: "all-instructions-initially-enqueued",
				Old: "\t\tfor _, instr := range b.Instrs {\n\t\t\tworklist[instr] = struct{}{}\n", New: "\t\tfor _, instr := range b.Instrs {\n\t\t\tif _, isPhi := instr.(*ir.Phi); isPhi {\n\t\t\t\tcontinue\n\t\t\t}\n\t\t\tworklist[instr] = struct{}{}\n"},
			{Name: "sparse-wrong-referrers", File: "analysis/dfa/sparse/dfa.go", Rule: "R13.4", KeyPart: "Forward",
				Old: "\t\t\t\tif refs := d.Value.Referrers(); refs != nil {\n\t\t\t\t\tfor _, ref := range *refs {\n\t\t\t\t\t\tworklist[ref] = struct{}{}\n\t\t\t\t\t}\n\t\t\t\t}",
				New: "\t\t\t\tfor _, ref := range *instr.Referrers() {\n\t\t\t\t\tworklist[ref] = struct{}{}\n\t\t\t\t}"},
			{Name: "maplattice-drops-b-only", File: "analysis/dfa/lattice.go", Rule: "R13.5", KeyPart: "MapLattice",
				Old: "\tfor k, v2 := range b {\n\t\tif _, ok := a[k]; !ok {\n\t\t\tout[k] = v2\n\t\t}\n\t}\n", New: ""},
			{Name: "maplattice-identity", File: "analysis/dfa/lattice.go", Rule: "R13.5", KeyPart: "MapLattice",
				Old: "func (m MapLattice[Key, Elem, L]) Merge(a, b map[Key]Elem) map[Key]Elem {\n\tif len(a) == 0 {\n\t\treturn b\n\t} else if len(b) == 0 {\n\t\treturn a\n\t}",
				New: "func (m MapLattice[Key, Elem, L]) Merge(a, b map[Key]Elem) map[Key]Elem {\n\tif len(a) == 0 {\n\t\treturn a\n\t} else if len(b) == 0 {\n\t\treturn a\n\t}"},
			{Name: "dense-lattice-min", File: "analysis/dfa/lattice.go", Rule: "R13.5", KeyPart: "DenseMapLattice",
				Old: "\tout := make([]Elem, max(len(a), len(b)))\n\tfor k := range max(len(a), len(b)) {", New: "\tout := make([]Elem, min(len(a), len(b)))\n\tfor k := range min(len(a), len(b)) {"},
		},
	})
}

// evalSquareTable evaluates a package-level `var name = [N][N]T{…}` composite
// literal with constant keys and values.
func evalSquareTable(c *Ctx, p *packages.Package, name string) ([][]int64, token.Pos) {
	obj := p.Types.Scope().Lookup(name)
	if obj == nil {
		c.Undecided("anchor-missing %s.%s", p.PkgPath, name)
	}
	arr, ok := obj.Type().Underlying().(*types.Array)
	if !ok {
		c.Undecided("%s is not an array", name)
	}
	inner, ok := arr.Elem().Underlying().(*types.Array)
	if !ok || inner.Len() != arr.Len() {
		c.Undecided("%s is not a square table", name)
	}
	n := int(arr.Len())
	var lit *ast.CompositeLit
	for _, f := range p.Syntax {
		for _, d := range f.Decls {
			gd, ok := d.(*ast.GenDecl)
			if !ok {
				continue
			}
			for _, s := range gd.Specs {
				vs, ok := s.(*ast.ValueSpec)
				if !ok {
					continue
				}
				for i, id := range vs.Names {
					if p.TypesInfo.Defs[id] == obj && i < len(vs.Values) {
						lit, _ = ast.Unparen(vs.Values[i]).(*ast.CompositeLit)
					}
				}
			}
		}
	}
	if lit == nil {
		c.Undecided("%s is not initialised with a composite literal", name)
	}
	constOf := func(e ast.Expr) int64 {
		tv, ok := p.TypesInfo.Types[e]
		if !ok || tv.Value == nil {
			c.Undecided("non-constant expression %s in %s", types.ExprString(e), name)
		}
		v, ok := constant.Int64Val(constant.ToInt(tv.Value))
		if !ok {
			c.Undecided("non-integer constant in %s", name)
		}
		return v
	}
	table := make([][]int64, n)
	for i := range table {
		table[i] = make([]int64, n)
	}
	fill := func(elts []ast.Expr, set func(idx int, e ast.Expr)) {
		next := 0
		for _, e := range elts {
			if kv, ok := e.(*ast.KeyValueExpr); ok {
				next = int(constOf(kv.Key))
				set(next, kv.Value)
			} else {
				set(next, e)
			}
			next++
		}
	}
	fill(lit.Elts, func(i int, row ast.Expr) {
		rl, ok := ast.Unparen(row).(*ast.CompositeLit)
		if !ok || i >= n {
			c.Undecided("row %d of %s is not a composite literal", i, name)
		}
		fill(rl.Elts, func(j int, e ast.Expr) {
			if j >= n {
				c.Undecided("column out of range in %s", name)
			}
			table[i][j] = constOf(e)
		})
	})
	return table, lit.Pos()
}

// absorbing returns the absorbing element of a merge table (x∧t = t for all x), or -1.
func absorbing(t [][]int64) int64 {
	for cand := range t {
		ok := true
		for x := range t {
			if t[x][cand] != int64(cand) || t[cand][x] != int64(cand) {
				ok = false
			}
		}
		if ok {
			return int64(cand)
		}
	}
	return -1
}

func runC13(c *Ctx) {
	np := c.Pkg("analysis/facts/nilness")

	c.Rule("R13.1", func() {
		c.Floor("R13.1", 6)
		t, pos := evalSquareTable(c, np, "latticeMerge")
		n := len(t)
		key := nilnessPkg + ".latticeMerge::"
		closed, bad := true, ""
		for i := range t {
			for j := range t {
				if t[i][j] < 0 || t[i][j] >= int64(n) {
					closed, bad = false, fmt.Sprintf("[%d][%d]=%d", i, j, t[i][j])
				}
			}
		}
		if !c.Check(key+"closed", pos, closed, "every entry of the %d×%d table is an element of the lattice; %s", n, n, bad) {
			return
		}
		bad = ""
		for i := range t {
			for j := range t {
				if t[i][j] != t[j][i] {
					bad = fmt.Sprintf("merge(%d,%d)=%d but merge(%d,%d)=%d", i, j, t[i][j], j, i, t[j][i])
				}
			}
		}
		c.Check(key+"commutative", pos, bad == "", "%d pairs enumerated; %s", n*n, bad)
		bad = ""
		for i := range t {
			if t[i][i] != int64(i) {
				bad = fmt.Sprintf("merge(%d,%d)=%d", i, i, t[i][i])
			}
		}
		c.Check(key+"idempotent", pos, bad == "", "%d elements enumerated; %s", n, bad)
		bad = ""
		for i := range t {
			if t[i][0] != int64(i) || t[0][i] != int64(i) {
				bad = fmt.Sprintf("merge(%d,0)=%d, merge(0,%d)=%d", i, t[i][0], i, t[0][i])
			}
		}
		c.Check(key+"identity-is-0", pos, bad == "", "0 (the zero value returned by Ident) is the unit of merge; %s", bad)
		bad = ""
		triples := 0
		for i := range t {
			for j := range t {
				for k := range t {
					triples++
					if t[t[i][j]][k] != t[i][t[j][k]] {
						bad = fmt.Sprintf("(%d∧%d)∧%d=%d but %d∧(%d∧%d)=%d", i, j, k, t[t[i][j]][k], i, j, k, t[i][t[j][k]])
					}
				}
			}
		}
		c.Check(key+"associative", pos, bad == "", "%d triples enumerated; %s", triples, bad)
		bad = ""
		for i := range t {
			for j := range t {
				if t[i][j] == 0 && (i != 0 || j != 0) {
					bad = fmt.Sprintf("merge(%d,%d)=0", i, j)
				}
			}
		}
		c.Check(key+"identity-only-from-identity", pos, bad == "", "merge yields the identity only for identity arguments (MapLattice panics otherwise); %s", bad)
		c.Note("R13.1: table evaluated from the AST: %v; absorbing element %d", t, absorbing(t))
		// the table is never written
		written := ""
		for _, fn := range c.ModuleFuncs() {
			if FuncPkgPath(fn) != nilnessPkg {
				continue
			}
			Instrs(fn, false, func(in ssa.Instruction) {
				if st, ok := in.(*ssa.Store); ok && fn.Name() != "init" {
					if AddrFrom(st.Addr, func(v ssa.Value) bool { g, ok := v.(*ssa.Global); return ok && g.Name() == "latticeMerge" }) {
						written = fn.String()
					}
				}
			})
		}
		c.Check(key+"immutable", pos, written == "", "no function stores into the table (writer: %s)", written)
	})

	c.Rule("R13.2", func() {
		c.Floor("R13.2", 4)
		merge := c.Func("analysis/facts/nilness", "lattice.Merge")
		ident := c.Func("analysis/facts/nilness", "lattice.Ident")
		equals := c.Func("analysis/facts/nilness", "lattice.Equals")
		// per result field: which (param, field) pairs feed it
		for _, field := range []string{"Inner", "Outer"} {
			var vals []ssa.Value
			Instrs(merge, false, func(in ssa.Instruction) {
				if st, ok := in.(*ssa.Store); ok && IsFieldOf("ValueNilness", field)(st.Addr) {
					// only stores into the result literal, not the parameter spills
					if AddrFrom(st.Addr, func(v ssa.Value) bool {
						a, ok := v.(*ssa.Alloc)
						if !ok {
							return false
						}
						// a cell that never receives a whole value (so not the spill of a parameter) and that the function returns
						for _, r := range *a.Referrers() {
							if w, isSt := r.(*ssa.Store); isSt && w.Addr == ssa.Value(a) {
								return false
							}
						}
						return true
					}) {
						vals = append(vals, st.Val)
					}
				}
			})
			if len(vals) != 1 {
				c.Undecided("lattice.Merge does not build its result as a ValueNilness literal with field %s", field)
			}
			feeds := map[string]bool{}
			usesTable := false
			for x := range BackSlice(vals[0], SliceOpts{}) {
				if g, ok := x.(*ssa.Global); ok && g.Name() == "latticeMerge" {
					usesTable = true
				}
				fa, ok := x.(*ssa.FieldAddr)
				if !ok {
					continue
				}
				_, f := FieldOf(fa.X.Type(), fa.Field)
				if f == nil {
					continue
				}
				for y := range BackSlice(fa.X, SliceOpts{}) {
					if p, ok := y.(*ssa.Parameter); ok {
						feeds[p.Name()+"."+f.Name()] = true
					}
				}
			}
			params := merge.Params
			want := map[string]bool{params[len(params)-2].Name() + "." + field: true, params[len(params)-1].Name() + "." + field: true}
			ok := usesTable && len(feeds) == 2
			for k := range want {
				if !feeds[k] {
					ok = false
				}
			}
			c.Check(FuncKey(merge)+"::"+field+"-componentwise", merge.Pos(), ok, "result field %s must be latticeMerge[a.%s][b.%s]; it is computed from %v (table used: %v)", field, field, field, SortedKeys(feeds), usesTable)
		}
		// Ident is the zero value
		zero := false
		for _, r := range Returns(ident) {
			if k, ok := ReturnOperand(r, 0).(*ssa.Const); ok && k.Value == nil {
				zero = true
			}
			// … or a literal all of whose fields are the constant 0
			if u, ok := ReturnOperand(r, 0).(*ssa.UnOp); ok {
				if al, ok := u.X.(*ssa.Alloc); ok {
					allZero, any := true, false
					for _, ref := range *al.Referrers() {
						switch x := ref.(type) {
						case *ssa.FieldAddr:
							for _, rr := range *x.Referrers() {
								if st, ok := rr.(*ssa.Store); ok {
									any = true
									if k, isK := ConstInt(st.Val); !isK || k != 0 {
										allZero = false
									}
								}
							}
						case *ssa.Store:
							if x.Addr == ssa.Value(al) {
								allZero = false
							}
						}
					}
					if allZero && any {
						zero = true
					}
				}
			}
		}
		c.Check(FuncKey(ident)+"::zero-value", ident.Pos(), zero, "Ident returns the zero ValueNilness, i.e. table index 0 in both components")
		eq := false
		fromParam := func(v ssa.Value) bool {
			return DerivesLocal(v, func(x ssa.Value) bool { _, ok := x.(*ssa.Parameter); return ok })
		}
		for _, r := range Returns(equals) {
			if bo, ok := ReturnOperand(r, 0).(*ssa.BinOp); ok && bo.Op == token.EQL {
				eq = fromParam(bo.X) && fromParam(bo.Y)
			}
			// a.Inner == b.Inner && a.Outer == b.Outer: a φ that is false unless every field comparison held
			if phi, ok := ReturnOperand(r, 0).(*ssa.Phi); ok {
				fields := map[string]bool{}
				okShape := true
				var walk func(v ssa.Value, depth int)
				walk = func(v ssa.Value, depth int) {
					switch x := v.(type) {
					case *ssa.Const:
						if !isBoolConst(x, false) {
							okShape = false
						}
					case *ssa.BinOp:
						if x.Op != token.EQL || !fromParam(x.X) || !fromParam(x.Y) {
							okShape = false
							return
						}
						for y := range BackSlice(x.X, SliceOpts{}) {
							if fa, ok := y.(*ssa.FieldAddr); ok {
								if _, f := FieldOf(fa.X.Type(), fa.Field); f != nil {
									fields[f.Name()] = true
								}
							}
							if fv, ok := y.(*ssa.Field); ok {
								if _, f := FieldOf(fv.X.Type(), fv.Field); f != nil {
									fields[f.Name()] = true
								}
							}
						}
					case *ssa.Phi:
						if depth > 3 {
							okShape = false
							return
						}
						for _, e := range x.Edges {
							walk(e, depth+1)
						}
					default:
						okShape = false
					}
				}
				walk(phi, 0)
				// the conjunction is complete only if the branch conditions are the other field comparisons
				for _, b := range equals.Blocks {
					if iff, ok := b.Instrs[len(b.Instrs)-1].(*ssa.If); ok {
						walk(iff.Cond, 1)
					}
				}
				if okShape && fields["Inner"] && fields["Outer"] {
					eq = true
				}
			}
		}
		c.Check(FuncKey(equals)+"::structural-equality", equals.Pos(), eq, "Equals is == on both components")
	})

	c.Rule("R13.3", func() {
		c.Floor("R13.3", 7)
		denseSolverObligations(c)
	})

	c.Rule("R13.4", func() {
		c.Floor("R13.4", 3)
		inst := c.NamedType("analysis/dfa/sparse", "Instance")
		var fwd *ssa.Function
		for m := range inst.Methods() {
			if m.Name() == "Forward" {
				fwd = c.Prog.FuncValue(m)
			}
		}
		if fwd == nil || len(fwd.Blocks) == 0 {
			c.Undecided("anchor-missing sparse.(*Instance).Forward")
		}
		c.SawFunc(fwd.String())
		isMappingUpd := func(in ssa.Instruction) bool {
			mu, ok := in.(*ssa.MapUpdate)
			return ok && DerivesLocal(mu.Map, IsFieldOf("Instance", "Mapping"))
		}
		var upd *ssa.MapUpdate
		n := 0
		Instrs(fwd, false, func(in ssa.Instruction) {
			if isMappingUpd(in) {
				upd = in.(*ssa.MapUpdate)
				n++
			}
		})
		if n != 1 {
			c.Undecided("expected one update of ins.Mapping in the solver loop, found %d", n)
		}
		// the worklist insertions after the update
		nIns := 0
		Instrs(fwd, false, func(in ssa.Instruction) {
			mu, ok := in.(*ssa.MapUpdate)
			if !ok || isMappingUpd(in) {
				return
			}
			if !ReachesFrom(fwd, upd, mu) {
				return
			}
			// is this insertion fed by a Referrers() call?
			var recv []ssa.Value
			for x := range BackSlice(mu.Key, SliceOpts{}) {
				if call, ok := x.(*ssa.Call); ok && call.Call.IsInvoke() && call.Call.Method.Name() == "Referrers" {
					recv = append(recv, call.Call.Value)
				}
			}
			if len(recv) == 0 {
				return
			}
			nIns++
			ok = true
			for _, r := range recv {
				// the receiver must be the value that is the key of the mapping update
				same := r == upd.Key || (DerivesLocal(r, IsFieldOf("Mapping", "Value")) && DerivesLocal(upd.Key, IsFieldOf("Mapping", "Value")) && AddrKeyOfLoad(r) == AddrKeyOfLoad(upd.Key))
				if !same {
					ok = false
				}
			}
			c.Check(FuncKey(fwd)+"::re-enqueue-users-of-the-changed-value", mu.Pos(), ok, "after Mapping[v] changed, the instructions re-enqueued must be v.Referrers() for that same v (not the referrers of the instruction that was just processed)")
		})
		// … or a helper of the package that is handed the value and inserts its referrers
		reenqueueHelper := func(ci ssa.CallInstruction) (ssa.Value, bool) {
			h := ci.Common().StaticCallee()
			if h == nil || h.Blocks == nil || FuncPkgPath(h) != FuncPkgPath(fwd) {
				return nil, false
			}
			for pi, prm := range h.Params {
				if pi >= len(ci.Common().Args) {
					continue
				}
				inserts := false
				for _, f := range DeepFuncs(h, 0) {
					Instrs(f, false, func(in ssa.Instruction) {
						mu, ok := in.(*ssa.MapUpdate)
						if !ok {
							return
						}
						for x := range BackSlice(mu.Key, SliceOpts{}) {
							if call, ok := x.(*ssa.Call); ok && call.Call.IsInvoke() && call.Call.Method.Name() == "Referrers" && call.Call.Value == ssa.Value(prm) {
								inserts = true
							}
						}
					})
				}
				if inserts {
					return ci.Common().Args[pi], true
				}
			}
			return nil, false
		}
		for _, ci := range Calls(fwd, false) {
			if !ReachesFrom(fwd, upd, ci) {
				continue
			}
			if r, ok := reenqueueHelper(ci); ok {
				nIns++
				same := r == upd.Key || (DerivesLocal(r, IsFieldOf("Mapping", "Value")) && DerivesLocal(upd.Key, IsFieldOf("Mapping", "Value")) && AddrKeyOfLoad(r) == AddrKeyOfLoad(upd.Key))
				c.Check(FuncKey(fwd)+"::re-enqueue-users-of-the-changed-value", ci.Pos(), same, "after Mapping[v] changed, the instructions re-enqueued must be v.Referrers() for that same v (not the referrers of the instruction that was just processed)")
			}
		}
		if nIns == 0 {
			c.Check(FuncKey(fwd)+"::re-enqueue-users-of-the-changed-value", upd.Pos(), false, "no worklist insertion fed by Referrers() follows the update of ins.Mapping")
		}
		// Referrers is consulted on every path after an update
		t, path := PathAvoiding(fwd, upd, func(in ssa.Instruction) bool {
			if _, ok := in.(*ssa.Return); ok {
				return true
			}
			return isMappingUpd(in)
		}, func(in ssa.Instruction) bool {
			call, ok := in.(*ssa.Call)
			if ok && call.Call.IsInvoke() && call.Call.Method.Name() == "Referrers" {
				return true
			}
			if ci, isCall := in.(ssa.CallInstruction); isCall {
				_, isHelper := reenqueueHelper(ci)
				return isHelper
			}
			return false
		}, nil)
		c.Check(FuncKey(fwd)+"::every-change-re-enqueues", upd.Pos(), t == nil, "every change of a mapping is followed by consulting the changed value's referrers; path: %s", PathString(fwd, path))
		// initial worklist = all instructions
		initAll := false
		Instrs(fwd, false, func(in ssa.Instruction) {
			mu, ok := in.(*ssa.MapUpdate)
			if ok && !isMappingUpd(in) && DerivesLocal(mu.Key, IsFieldOf("BasicBlock", "Instrs")) && DerivesLocal(mu.Key, IsFieldOf("Function", "Blocks")) {
				initAll = true
			}
		})
		// … unconditionally: every element read from a block's instruction list goes into the worklist before the
		// next one is read. Values given an initial state with Set (parameters, constants) never change and so never
		// re-enqueue their users; an instruction that is left out at the start (a φ over parameters, say) is then
		// never evaluated at all.
		skipPath := ""
		Instrs(fwd, false, func(in ssa.Instruction) {
			ld, ok := in.(*ssa.UnOp)
			if !ok || ld.Op != token.MUL {
				return
			}
			ia, ok := ld.X.(*ssa.IndexAddr)
			if !ok || !AddrFrom(ia.X, IsFieldOf("BasicBlock", "Instrs")) {
				return
			}
			t, path := PathAvoiding(fwd, ld, func(x ssa.Instruction) bool {
				if _, isRet := x.(*ssa.Return); isRet {
					return true
				}
				if x == ssa.Instruction(ld) {
					return true
				}
				// reaching the solver loop proper (the first read of the worklist's length / a map range) also ends the seeding
				if r, isRange := x.(*ssa.Range); isRange {
					_ = r
					return true
				}
				return false
			}, func(x ssa.Instruction) bool {
				mu, ok := x.(*ssa.MapUpdate)
				return ok && !isMappingUpd(x) && Derives(mu.Key, func(v ssa.Value) bool { return v == ssa.Value(ld) })
			}, nil)
			if t != nil {
				initAll = false
				skipPath = PathString(fwd, path)
			}
		})
		c.Check(FuncKey(fwd)+"::all-instructions-initially-enqueued", fwd.Pos(), initAll, "the worklist starts with every instruction of every block, whatever its kind (values with a preset state never re-enqueue their users, so an instruction that is not seeded may never be evaluated); path that skips one: %s", skipPath)
		// the update happens only when the state changed
		changed := ComplementEdges(CallTrueEdges(fwd, func(call *ssa.Call) bool { return call.Call.IsInvoke() && call.Call.Method.Name() == "Equals" }))
		ok, p := MustPassEdges(fwd, upd, changed)
		c.Check(FuncKey(fwd)+"::update-only-on-change", upd.Pos(), ok, "Mapping is updated (and users re-enqueued) only when the new state differs, which is what makes the iteration terminate; path: %s", PathString(fwd, p))
	})

	c.Rule("R13.5", func() {
		c.Floor("R13.5", 8)
		for _, tn := range []string{"MapLattice", "DenseMapLattice"} {
			named := c.NamedType("analysis/dfa", tn)
			var merge, equals *ssa.Function
			for m := range named.Methods() {
				switch m.Name() {
				case "Merge":
					merge = c.Prog.FuncValue(m)
				case "Equals":
					equals = c.Prog.FuncValue(m)
				}
			}
			if merge == nil || len(merge.Blocks) == 0 || equals == nil {
				c.Undecided("anchor-missing %s.Merge/Equals", tn)
			}
			c.SawFunc(merge.String())
			ps := merge.Params
			a, b := ps[len(ps)-2], ps[len(ps)-1]
			// returns of a bare parameter must be under len(other)==0
			for i, r := range Returns(merge) {
				p, ok := ReturnOperand(r, 0).(*ssa.Parameter)
				if !ok {
					continue
				}
				other := a
				if p == a {
					other = b
				}
				emptyOther := EqEdges(merge, func(x, y ssa.Value) bool {
					k, isK := ConstInt(y)
					call, isCall := x.(*ssa.Call)
					return isK && k == 0 && isCall && IsCallTo(call, "builtin.len") && call.Call.Args[0] == ssa.Value(other)
				})
				ok2, path := MustPassEdges(merge, r, emptyOther)
				c.Check(dfaPkg+"."+tn+".Merge::identity-shortcut#"+itoa(i), r.Pos(), ok2, "returning operand %s unchanged is right only when the other operand %s is empty (x ∧ 𝟏 = x); path: %s", p.Name(), other.Name(), PathString(merge, path))
			}
			// element merge on common keys uses L.Merge(av, bv) with one arg from each operand
			elemMerge := false
			Instrs(merge, true, func(in ssa.Instruction) {
				call, ok := in.(*ssa.Call)
				if !ok || !call.Call.IsInvoke() || call.Call.Method.Name() != "Merge" {
					return
				}
				fromA := DerivesLocal(call.Call.Args[0], func(v ssa.Value) bool { return v == ssa.Value(a) })
				fromB := DerivesLocal(call.Call.Args[1], func(v ssa.Value) bool { return v == ssa.Value(b) })
				if fromA && fromB {
					elemMerge = true
				}
			})
			c.Check(dfaPkg+"."+tn+".Merge::pointwise-element-merge", merge.Pos(), elemMerge, "common keys are merged with the element lattice: L.Merge(a[k], b[k])")
			if tn == "MapLattice" {
				// both operands' keys are covered: a map update of the result under a range over a and under a range over b
				cover := map[string]bool{}
				Instrs(merge, true, func(in ssa.Instruction) {
					mu, ok := in.(*ssa.MapUpdate)
					if !ok {
						return
					}
					for x := range BackSlice(mu.Key, SliceOpts{}) {
						if rg, ok := x.(*ssa.Range); ok {
							if rg.X == ssa.Value(a) {
								cover["a"] = true
							}
							if rg.X == ssa.Value(b) {
								cover["b"] = true
							}
						}
					}
				})
				c.Check(dfaPkg+".MapLattice.Merge::keys-of-both-operands", merge.Pos(), cover["a"] && cover["b"], "the result must contain the keys of a and the keys of b (covered: %v); dropping one side breaks commutativity and identity", SortedKeys(cover))
			} else {
				// result length = max(len(a), len(b))
				sized := false
				Instrs(merge, true, func(in ssa.Instruction) {
					ms, ok := in.(*ssa.MakeSlice)
					if !ok {
						return
					}
					// max(len(a), len(b)): the builtin, or a variable that starts as one length and is replaced by
					// the other exactly when that one is larger
					isLenOf := func(v ssa.Value, p *ssa.Parameter) bool {
						l, ok := v.(*ssa.Call)
						return ok && IsCallTo(l, "builtin.len") && l.Call.Args[0] == ssa.Value(p)
					}
					for x := range BackSlice(ms.Len, SliceOpts{}) {
						switch x := x.(type) {
						case *ssa.Call:
							if IsCallTo(x, "builtin.max") {
								la, lb := false, false
								for _, arg := range x.Call.Args {
									la = la || isLenOf(arg, a)
									lb = lb || isLenOf(arg, b)
								}
								if la && lb {
									sized = true
								}
							}
						case *ssa.Phi:
							if len(x.Edges) != 2 {
								continue
							}
							for i, e := range x.Edges {
								o := x.Edges[1-i]
								var pe, po *ssa.Parameter
								switch {
								case isLenOf(e, a) && isLenOf(o, b):
									pe, po = a, b
								case isLenOf(e, b) && isLenOf(o, a):
									pe, po = b, a
								default:
									continue
								}
								// edge i carries len(pe): it must be selected only where len(pe) > / >= len(po)
								larger := CmpEdges(merge, func(l, r ssa.Value) bool {
									return isLenOf(l, pe) && (isLenOf(r, po) || r == o) || l == e && (isLenOf(r, po) || r == o)
								},
									func(rel string, truth bool) bool {
										return (rel == ">" || rel == ">=") && truth || (rel == "<" || rel == "<=") && !truth
									})
								pred := x.Block().Preds[i]
								if ok, _ := MustPassEdges(merge, pred.Instrs[len(pred.Instrs)-1], larger); ok && len(larger) > 0 {
									sized = true
								}
							}
						}
					}
				})
				c.Check(dfaPkg+".DenseMapLattice.Merge::result-as-long-as-the-longer-operand", merge.Pos(), sized, "the dense result has max(len(a), len(b)) elements")
				// Equals checks both tails
				tails := map[string]bool{}
				eps := equals.Params
				ea, eb := eps[len(eps)-2], eps[len(eps)-1]
				Instrs(equals, true, func(in ssa.Instruction) {
					call, ok := in.(*ssa.Call)
					if !ok || !strings.HasSuffix(CalleeName(&call.Call), "slices.ContainsFunc") {
						return
					}
					if sl, ok := call.Call.Args[0].(*ssa.Slice); ok && sl.Low != nil {
						if sl.X == ssa.Value(ea) {
							tails["a"] = true
						}
						if sl.X == ssa.Value(eb) {
							tails["b"] = true
						}
					}
				})
				c.Check(dfaPkg+".DenseMapLattice.Equals::both-tails-are-identity", equals.Pos(), tails["a"] && tails["b"], "Equals treats missing elements as identity on both sides (tails checked: %v)", SortedKeys(tails))
			}
		}
		// fwdBuilder.merge
		fm := c.Func("analysis/dfa/dense", "(*fwdBuilder).merge")
		usesMerge := false
		Instrs(fm, false, func(in ssa.Instruction) {
			if call, ok := in.(*ssa.Call); ok && call.Call.IsInvoke() && call.Call.Method.Name() == "Merge" {
				_, p0 := call.Call.Args[0].(*ssa.Parameter)
				_, p1 := call.Call.Args[1].(*ssa.Parameter)
				usesMerge = p0 && p1 && call.Call.Args[0] != call.Call.Args[1]
			}
		})
		c.Check(FuncKey(fm)+"::merges-both-arguments", fm.Pos(), usesMerge, "the solver's merge combines both facts with the lattice's Merge")
	})
}

func anyArg(call *ssa.Call, pred func(ssa.Value) bool) bool {
	for _, a := range call.Call.Args {
		if pred(a) {
			return true
		}
	}
	return false
}

// AddrKeyOfLoad returns the canonical address of the cell a value was loaded
// from (looking through one load), or the value's own key.
func AddrKeyOfLoad(v ssa.Value) string {
	if u, ok := v.(*ssa.UnOp); ok && u.Op == token.MUL {
		return AddrKey(u.X)
	}
	if f, ok := v.(*ssa.Field); ok {
		return AddrKeyOfLoad(f.X) + "." + fmt.Sprint(f.Field)
	}
	return AddrKey(v)
}

// denseSolverObligations: the re-enqueue pairing of the dense forward solver
// (shared by C13 R13.3 and C15 R15.5 — nilness facts are only as sound as the
// fixpoint they are read from).
func denseSolverObligations(c *Ctx) {
	prop := c.Func("analysis/dfa/dense", "(*fwdBuilder).propagate")
	all := DeepFuncs(prop, 2)
	isEnqueue := func(in ssa.Instruction) bool {
		ci, ok := in.(ssa.CallInstruction)
		return ok && IsCallTo(ci, densePkg+".nodeHeap.enqueue")
	}
	// (a) store to out[i] ⇒ enqueue before leaving the body
	nStores := 0
	for _, f := range all {
		Instrs(f, false, func(in ssa.Instruction) {
			st, ok := in.(*ssa.Store)
			if !ok {
				return
			}
			if _, isIdx := st.Addr.(*ssa.IndexAddr); !isIdx || !AddrFrom(st.Addr, IsFieldOf("blockInfo", "out")) {
				return
			}
			nStores++
			t, path := PathAvoiding(f, st, func(x ssa.Instruction) bool { _, ok := x.(*ssa.Return); return ok }, isEnqueue, nil)
			// the two statements are independent: an enqueue earlier in the very same block (same branch) is as good
			for _, x := range st.Block().Instrs {
				if isEnqueue(x) {
					t = nil
				}
			}
			c.Check(FuncKey(prop)+"::changed-edge-fact-⇒-enqueue-successor", st.Pos(), t == nil, "after storing a new out fact the edge's successor must be re-enqueued on every path; path without enqueue: %s", PathString(f, path))
			// the enqueued node is the successor the loop is at, not the block itself
			for _, ci := range Calls(f, false) {
				if isEnqueue(ci) {
					arg := ci.Common().Args[len(ci.Common().Args)-1]
					isSucc := DerivesLocal(arg, func(v ssa.Value) bool { _, ok := v.(*ssa.Parameter); return ok })
					c.Check(FuncKey(prop)+"::enqueue-the-successor", ci.Pos(), isSucc, "the node enqueued is the loop's successor node")
				}
			}
		})
	}
	if nStores == 0 {
		c.Undecided("no store to blockInfo.out[i] found in propagate")
	}
	// (b) skipping a block requires !dirty and unchanged input
	var dq, inStore ssa.Instruction
	var lenCalls []ssa.Instruction
	Instrs(prop, false, func(in ssa.Instruction) {
		if ci, ok := in.(ssa.CallInstruction); ok {
			if IsCallTo(ci, densePkg+".nodeHeap.dequeue") {
				dq = in
			}
			if IsCallTo(ci, densePkg+".nodeHeap.Len") {
				lenCalls = append(lenCalls, in)
			}
		}
		if st, ok := in.(*ssa.Store); ok && IsFieldOf("blockInfo", "in")(st.Addr) {
			inStore = in
		}
	})
	if dq == nil || inStore == nil || len(lenCalls) == 0 {
		c.Undecided("propagate no longer has the dequeue / store-in / queue.Len shape")
	}
	notDirty := CondEdges(prop, func(cond ssa.Value) (bool, bool) {
		u, ok := cond.(*ssa.UnOp)
		return ok && u.Op == token.MUL && IsFieldOf("blockInfo", "dirty")(u.X), false
	})
	sameIn := CondEdgesPhi(prop, func(cond ssa.Value) (bool, bool) {
		call, ok := cond.(*ssa.Call)
		return ok && call.Call.IsInvoke() && call.Call.Method.Name() == "Equals" && anyArg(call, func(v ssa.Value) bool { return DerivesLocal(v, IsFieldOf("blockInfo", "in")) }), true
	})
	isHead := func(x ssa.Instruction) bool {
		for _, l := range lenCalls {
			if l == x {
				return true
			}
		}
		return false
	}
	isInStore := func(x ssa.Instruction) bool { return x == inStore }
	for name, edges := range map[string]map[Edge]bool{"clean": notDirty, "input-unchanged": sameIn} {
		t, path := PathAvoiding(prop, dq, isHead, isInStore, edges)
		c.Check(FuncKey(prop)+"::skip-only-if-"+name, dq.Pos(), t == nil && len(edges) > 0, "a dequeued block may be skipped (no transfer) only if it is %s; skipping path: %s", name, PathString(prop, path))
	}
	// (c) out facts are read only from blocks that are not dirty
	nReads := 0
	for _, f := range all {
		nd := CondEdges(f, func(cond ssa.Value) (bool, bool) {
			u, ok := cond.(*ssa.UnOp)
			return ok && u.Op == token.MUL && IsFieldOf("blockInfo", "dirty")(u.X), false
		})
		Instrs(f, false, func(in ssa.Instruction) {
			u, ok := in.(*ssa.UnOp)
			if !ok || u.Op != token.MUL {
				return
			}
			if _, isIdx := u.X.(*ssa.IndexAddr); !isIdx || !AddrFrom(u.X, IsFieldOf("blockInfo", "out")) {
				return
			}
			nReads++
			ok2, path := MustPassEdges(f, u, nd)
			c.Check(FuncKey(prop)+"::out-of-unvisited-block-never-read", u.Pos(), ok2, "an edge fact may be read only under the !dirty edge of its block (a dirty block has no meaningful out facts); path: %s", PathString(f, path))
		})
	}
	if nReads < 2 {
		c.Undecided("expected reads of pred.out[i] and block.out[i] in propagate, found %d", nReads)
	}
	// (d) dirty cleared after the transfer loop
	cleared := false
	Instrs(prop, false, func(in ssa.Instruction) {
		if st, ok := in.(*ssa.Store); ok && IsFieldOf("blockInfo", "dirty")(st.Addr) {
			if k, ok := st.Val.(*ssa.Const); ok && k.Value != nil && k.Value.String() == "false" {
				cleared = true
			}
		}
	})
	c.Check(FuncKey(prop)+"::dirty-cleared", prop.Pos(), cleared, "a processed block is marked clean")
	// (e) queue membership bit
	enq := c.Func("analysis/dfa/dense", "(*nodeHeap).enqueue")
	deq := c.Func("analysis/dfa/dense", "(*nodeHeap).dequeue")
	bitOp := func(f *ssa.Function, op token.Token) bool {
		found := false
		Instrs(f, false, func(in ssa.Instruction) {
			if st, ok := in.(*ssa.Store); ok && AddrFrom(st.Addr, IsFieldOf("nodeHeap", "inQueue")) {
				if bo, ok := st.Val.(*ssa.BinOp); ok && bo.Op == op {
					found = true
				}
				// x &^ m spelled x & ^m
				if bo, ok := st.Val.(*ssa.BinOp); ok && op == token.AND_NOT && bo.Op == token.AND {
					for _, o := range []ssa.Value{bo.X, bo.Y} {
						if u, ok := o.(*ssa.UnOp); ok && u.Op == token.XOR {
							found = true
						}
					}
				}
			}
		})
		return found
	}
	c.Check(FuncKey(enq)+"::sets-membership-bit", enq.Pos(), bitOp(enq, token.OR), "enqueue records membership")
	c.Check(FuncKey(deq)+"::dequeue-clears-membership-bit", deq.Pos(), bitOp(deq, token.AND_NOT), "dequeue must clear the membership bit, otherwise a node can never be re-enqueued and the iteration stops before the fixpoint")
	// (f) Forward enqueues every node initially and marks it dirty
	fwd := c.Func("analysis/dfa/dense", "Forward")
	initEnq := len(CallsTo(fwd, true, densePkg+".nodeHeap.enqueue")) > 0
	c.Check(FuncKey(fwd)+"::all-nodes-initially-enqueued", fwd.Pos(), initEnq, "every node is enqueued once at the start (transfer functions may introduce facts anywhere)")
}
