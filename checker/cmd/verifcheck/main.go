// Command verifcheck decides the go-tools properties by static analysis of
// /repo's current working tree. See /verif/DESIGN.md.
package main

import (
	"os"

	"verif/checker/engine"
	_ "verif/checker/props"
)

func main() { os.Exit(engine.Main()) }
