package engine

import (
	"go/token"
	"sort"

	"golang.org/x/tools/go/callgraph"
	"golang.org/x/tools/go/callgraph/cha"
	"golang.org/x/tools/go/callgraph/vta"
	"golang.org/x/tools/go/ssa"
	"golang.org/x/tools/go/ssa/ssautil"
)

// CallGraph returns the call graph of the loaded program: VTA seeded with CHA.
func (c *Ctx) CallGraph() *callgraph.Graph {
	if c.cg != nil {
		return c.cg
	}
	g := cha.CallGraph(c.Prog)
	// VTA resolves calls through function values by flow instead of by
	// signature, which removes most of CHA's spurious edges (iterator
	// bodies, callbacks). It is sound for whole programs; we run it on the
	// module plus its dependencies.
	g = vta.CallGraph(ssautil.AllFunctions(c.Prog), g)
	c.cg = g
	return g
}

// Reachable returns the functions reachable from roots through the call graph,
// descending only into functions accepted by descend (roots are always
// included). parent records one caller per function for witness paths.
func (c *Ctx) Reachable(roots []*ssa.Function, descend func(*ssa.Function) bool) (map[*ssa.Function]bool, map[*ssa.Function]*ssa.Function) {
	g := c.CallGraph()
	seen := map[*ssa.Function]bool{}
	parent := map[*ssa.Function]*ssa.Function{}
	var queue []*ssa.Function
	for _, r := range roots {
		if r != nil && !seen[r] {
			seen[r] = true
			queue = append(queue, r)
		}
	}
	for len(queue) > 0 {
		fn := queue[0]
		queue = queue[1:]
		var next []*ssa.Function
		if n := g.Nodes[fn]; n != nil {
			for _, e := range n.Out {
				next = append(next, e.Callee.Func)
			}
		}
		// closures created here run (at the latest) when called; treat their
		// creation as a potential call
		for _, an := range fn.AnonFuncs {
			next = append(next, an)
		}
		// Callbacks through code we do not descend into (the standard
		// library): a function value that is mentioned, and the methods of
		// a type that is converted to an interface, may be called.
		if len(fn.Blocks) > 0 && FuncInModule(fn) {
			var ops [12]*ssa.Value
			for _, b := range fn.Blocks {
				for _, in := range b.Instrs {
					for _, op := range in.Operands(ops[:0]) {
						if f, ok := (*op).(*ssa.Function); ok && f != nil {
							if call, isCall := in.(ssa.CallInstruction); isCall && call.Common().Value == *op {
								continue // a direct call: already an edge
							}
							next = append(next, f)
						}
					}
					if mi, ok := in.(*ssa.MakeInterface); ok {
						ms := c.Prog.MethodSets.MethodSet(mi.X.Type())
						for i := 0; i < ms.Len(); i++ {
							if m := c.Prog.MethodValue(ms.At(i)); m != nil {
								next = append(next, m)
							}
						}
					}
				}
			}
		}
		sort.Slice(next, func(i, j int) bool { return next[i].String() < next[j].String() })
		for _, callee := range next {
			if callee == nil || seen[callee] {
				continue
			}
			if descend != nil && !descend(callee) {
				continue
			}
			seen[callee] = true
			parent[callee] = fn
			queue = append(queue, callee)
		}
	}
	return seen, parent
}

// CallChain renders the chain of callers recorded in parent from a root to fn.
func CallChain(parent map[*ssa.Function]*ssa.Function, fn *ssa.Function) string {
	var chain []string
	for f := fn; f != nil; f = parent[f] {
		chain = append(chain, f.String())
		if len(chain) > 12 {
			chain = append(chain, "…")
			break
		}
	}
	s := ""
	for i := len(chain) - 1; i >= 0; i-- {
		if s != "" {
			s += " → "
		}
		s += chain[i]
	}
	return s
}

// FieldAccess is one read or write of a struct field.
type FieldAccess struct {
	Owner string // "pkgpath.Type"
	Field string
	Kind  string // "read", "write", "addr" (address escapes), "content" (element/map update through the field)
	Instr ssa.Instruction
	Fn    *ssa.Function
}

// FieldAccesses lists the accesses to struct fields in fn (not its closures).
func FieldAccesses(fn *ssa.Function) []FieldAccess {
	var out []FieldAccess
	add := func(owner, field, kind string, in ssa.Instruction) {
		if owner == "" {
			return
		}
		out = append(out, FieldAccess{Owner: owner, Field: field, Kind: kind, Instr: in, Fn: fn})
	}
	for _, b := range fn.Blocks {
		for _, in := range b.Instrs {
			switch in := in.(type) {
			case *ssa.Field:
				owner, f := FieldOf(in.X.Type(), in.Field)
				if f != nil {
					add(owner, f.Name(), "read", in)
				}
			case *ssa.FieldAddr:
				owner, f := FieldOf(in.X.Type(), in.Field)
				if f == nil {
					continue
				}
				refs := in.Referrers()
				if refs == nil || len(*refs) == 0 {
					continue
				}
				for _, r := range *refs {
					switch r := r.(type) {
					case *ssa.Store:
						if r.Addr == in {
							add(owner, f.Name(), "write", r)
						} else {
							add(owner, f.Name(), "addr", r)
						}
					case *ssa.UnOp:
						if r.Op == token.MUL {
							add(owner, f.Name(), "read", r)
							// writes through the loaded slice/map/pointer
							if lr := r.Referrers(); lr != nil {
								for _, rr := range *lr {
									switch rr := rr.(type) {
									case *ssa.MapUpdate:
										if rr.Map == r {
											add(owner, f.Name(), "content", rr)
										}
									case *ssa.IndexAddr:
										if rr.X != ssa.Value(r) {
											break // used as the index, not as the indexed value
										}
										if ir := rr.Referrers(); ir != nil {
											for _, x := range *ir {
												if st, ok := x.(*ssa.Store); ok && st.Addr == rr {
													add(owner, f.Name(), "content", st)
												}
											}
										}
									}
								}
							}
						}
					case *ssa.FieldAddr, *ssa.IndexAddr:
						// nested selection: accounted for at the inner field
						add(owner, f.Name(), "via", in)
					case *ssa.DebugRef:
					default:
						add(owner, f.Name(), "addr", r)
					}
				}
			}
		}
	}
	return out
}

// DeepFuncs returns fn, its nested closures, and the functions of fn's own
// package that they call statically (with their closures), up to depth calls
// away. Rules that look for a construct "in function F" use it so that
// extracting part of F into a helper of the same package (or turning a closure
// into a function) does not hide the construct.
func DeepFuncs(fn *ssa.Function, depth int) []*ssa.Function {
	seen := map[*ssa.Function]bool{}
	var out []*ssa.Function
	pkg := FuncPkgPath(fn)
	var walk func(f *ssa.Function, d int)
	walk = func(f *ssa.Function, d int) {
		if f == nil || seen[f] || f.Blocks == nil {
			return
		}
		seen[f] = true
		out = append(out, f)
		for _, a := range f.AnonFuncs {
			walk(a, d)
		}
		if d <= 0 {
			return
		}
		for _, ci := range Calls(f, false) {
			if callee := ci.Common().StaticCallee(); callee != nil && FuncPkgPath(callee) == pkg {
				walk(callee, d-1)
			}
		}
	}
	walk(fn, depth)
	return out
}
