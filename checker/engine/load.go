package engine

import (
	"fmt"
	"go/ast"
	"go/token"
	"go/types"
	"os"
	"path/filepath"
	"sort"
	"strings"

	"golang.org/x/tools/go/packages"
	"golang.org/x/tools/go/ssa"
	"golang.org/x/tools/go/ssa/ssautil"
)

// Load loads the property's packages from the repo's current working tree
// (plus overlay) for the configuration in c.Config.
func (c *Ctx) Load() error {
	env := os.Environ()
	if _, err := os.Stat("/opt/veriftools/go1.26.8/bin/go"); err == nil {
		env = append(env, "PATH=/opt/veriftools/go1.26.8/bin:"+os.Getenv("PATH"))
	}
	env = append(env, "GOWORK=off", "GOFLAGS=-mod=mod", "GOPROXY=off", "GOSUMDB=off", "GOTOOLCHAIN=local", "CGO_ENABLED=0")
	if c.Config != "" {
		parts := strings.SplitN(c.Config, "/", 2)
		env = append(env, "GOOS="+parts[0], "GOARCH="+parts[1])
	}
	c.Fset = token.NewFileSet()
	cfg := &packages.Config{
		Mode:    packages.LoadAllSyntax,
		Dir:     c.RepoDir,
		Env:     env,
		Fset:    c.Fset,
		Tests:   false,
		Overlay: c.Overlay,
	}
	pkgs, err := packages.Load(cfg, c.Prop.Patterns...)
	if err != nil {
		return fmt.Errorf("packages.Load: %v", err)
	}
	if len(pkgs) == 0 {
		return fmt.Errorf("no packages matched %v", c.Prop.Patterns)
	}
	c.Roots = pkgs
	c.Pkgs = map[string]*packages.Package{}
	var errs []string
	packages.Visit(pkgs, nil, func(p *packages.Package) {
		c.Pkgs[p.PkgPath] = p
		if InModule(p.PkgPath) {
			for _, e := range p.Errors {
				errs = append(errs, e.Error())
			}
			if p.Types == nil || p.TypesInfo == nil {
				errs = append(errs, p.PkgPath+": no type information")
			}
		}
	})
	if len(errs) > 0 {
		sort.Strings(errs)
		if len(errs) > 10 {
			errs = errs[:10]
		}
		return fmt.Errorf("module packages have errors (the tree does not type-check):\n  %s", strings.Join(errs, "\n  "))
	}
	if c.Prop.NeedSSA {
		prog, _ := ssautil.AllPackages(pkgs, ssa.InstantiateGenerics)
		c.Prog = prog
		c.SSA = map[string]*ssa.Package{}
		for _, sp := range prog.AllPackages() {
			if sp == nil || sp.Pkg == nil {
				continue
			}
			if InModule(sp.Pkg.Path()) {
				sp.Build()
				c.SSA[sp.Pkg.Path()] = sp
			} else if c.Prop.BuildAll {
				sp.Build()
			}
		}
		n := 0
		for fn := range ssautil.AllFunctions(prog) {
			if fn.Pkg != nil && InModule(fn.Pkg.Pkg.Path()) {
				n++
			}
		}
		c.NFuncs = n
	} else {
		n := 0
		for path, p := range c.Pkgs {
			if !InModule(path) {
				continue
			}
			for _, f := range p.Syntax {
				for _, d := range f.Decls {
					if _, ok := d.(*ast.FuncDecl); ok {
						n++
					}
				}
			}
		}
		c.NFuncs = n
	}
	return nil
}

func InModule(path string) bool {
	return path == Module || strings.HasPrefix(path, Module+"/")
}

// ModulePkgCount returns the number of module packages loaded.
func (c *Ctx) ModulePkgCount() int {
	n := 0
	for p := range c.Pkgs {
		if InModule(p) {
			n++
		}
	}
	return n
}

// Pkg returns the loaded package with the given path relative to the module
// ("" is the root package), or aborts the rule.
func (c *Ctx) Pkg(rel string) *packages.Package {
	path := Module
	if rel != "" {
		path = Module + "/" + rel
	}
	p := c.Pkgs[path]
	if p == nil {
		// maybe a non-module path
		p = c.Pkgs[rel]
	}
	if p == nil {
		c.Undecided("anchor-missing package %s", rel)
	}
	return p
}

func (c *Ctx) SSAPkg(rel string) *ssa.Package {
	p := c.SSA[Module+"/"+rel]
	if p == nil {
		c.Undecided("anchor-missing ssa package %s", rel)
	}
	return p
}

// Func resolves "Name", "Type.Method" or "(*Type).Method" in package rel.
func (c *Ctx) Func(rel, name string) *ssa.Function {
	fn := c.FuncOpt(rel, name)
	if fn == nil {
		c.Undecided("anchor-missing %s.%s", rel, name)
	}
	return fn
}

func (c *Ctx) FuncOpt(rel, name string) *ssa.Function {
	sp := c.SSA[Module+"/"+rel]
	if sp == nil {
		return nil
	}
	obj := c.FuncObjOpt(rel, name)
	if obj == nil {
		return nil
	}
	fn := c.Prog.FuncValue(obj)
	if fn != nil {
		c.SawFunc(fn.String())
	}
	return fn
}

// FuncObj resolves a function or method object.
func (c *Ctx) FuncObj(rel, name string) *types.Func {
	o := c.FuncObjOpt(rel, name)
	if o == nil {
		c.Undecided("anchor-missing %s.%s", rel, name)
	}
	return o
}

func (c *Ctx) FuncObjOpt(rel, name string) *types.Func {
	p := c.Pkgs[Module+"/"+rel]
	if p == nil {
		return nil
	}
	name = strings.TrimPrefix(name, "(*")
	name = strings.Replace(name, ").", ".", 1)
	if i := strings.Index(name, "."); i >= 0 {
		tn, _ := p.Types.Scope().Lookup(name[:i]).(*types.TypeName)
		if tn == nil {
			return nil
		}
		named, _ := tn.Type().(*types.Named)
		if named == nil {
			return nil
		}
		for m := range named.Methods() {
			if m.Name() == name[i+1:] {
				return m
			}
		}
		return nil
	}
	f, _ := p.Types.Scope().Lookup(name).(*types.Func)
	return f
}

// NamedType resolves a named type in a module package.
func (c *Ctx) NamedType(rel, name string) *types.Named {
	p := c.Pkg(rel)
	tn, _ := p.Types.Scope().Lookup(name).(*types.TypeName)
	if tn == nil {
		c.Undecided("anchor-missing type %s.%s", rel, name)
	}
	n, _ := tn.Type().(*types.Named)
	if n == nil {
		c.Undecided("anchor %s.%s is not a named type", rel, name)
	}
	return n
}

// FuncDecl finds the declaration of a function object.
func (c *Ctx) FuncDecl(obj *types.Func) (*ast.FuncDecl, *packages.Package) {
	if obj == nil || obj.Pkg() == nil {
		return nil, nil
	}
	p := c.Pkgs[obj.Pkg().Path()]
	if p == nil {
		return nil, nil
	}
	for _, f := range p.Syntax {
		if f.Pos() <= obj.Pos() && obj.Pos() < f.End() {
			for _, d := range f.Decls {
				if fd, ok := d.(*ast.FuncDecl); ok && fd.Name.Pos() == obj.Pos() {
					return fd, p
				}
			}
		}
	}
	return nil, p
}

// Decl returns the declaration of rel.name or aborts.
func (c *Ctx) Decl(rel, name string) (*ast.FuncDecl, *packages.Package) {
	obj := c.FuncObj(rel, name)
	fd, p := c.FuncDecl(obj)
	if fd == nil || fd.Body == nil {
		c.Undecided("anchor-missing body of %s.%s", rel, name)
	}
	c.SawFunc(obj.FullName())
	return fd, p
}

// RelFile returns the path of the file containing pos relative to the repo.
func (c *Ctx) RelFile(pos token.Pos) string {
	f := c.Fset.Position(pos).Filename
	if rel, err := filepath.Rel(c.RepoDir, f); err == nil {
		return rel
	}
	return f
}

// ModuleFuncs returns all SSA functions (including anonymous ones and
// instantiations) that belong to module packages, sorted by name.
func (c *Ctx) ModuleFuncs() []*ssa.Function {
	var out []*ssa.Function
	for fn := range ssautil.AllFunctions(c.Prog) {
		if FuncInModule(fn) {
			out = append(out, fn)
		}
	}
	sort.Slice(out, func(i, j int) bool {
		if out[i].String() != out[j].String() {
			return out[i].String() < out[j].String()
		}
		return out[i].Pos() < out[j].Pos()
	})
	return out
}

// FuncInModule reports whether fn (or its outermost parent / generic origin)
// is declared in a module package.
func FuncInModule(fn *ssa.Function) bool {
	for fn.Parent() != nil {
		fn = fn.Parent()
	}
	if o := fn.Origin(); o != nil {
		fn = o
	}
	if fn.Pkg != nil {
		return InModule(fn.Pkg.Pkg.Path())
	}
	if obj := fn.Object(); obj != nil && obj.Pkg() != nil {
		return InModule(obj.Pkg().Path())
	}
	return false
}

// FuncPkgPath returns the package path fn belongs to.
func FuncPkgPath(fn *ssa.Function) string {
	for fn.Parent() != nil {
		fn = fn.Parent()
	}
	if o := fn.Origin(); o != nil {
		fn = o
	}
	if fn.Pkg != nil {
		return fn.Pkg.Pkg.Path()
	}
	if obj := fn.Object(); obj != nil && obj.Pkg() != nil {
		return obj.Pkg().Path()
	}
	return ""
}

// FuncKey is a stable, position-free key for a function.
func FuncKey(fn *ssa.Function) string {
	if fn == nil {
		return "<nil>"
	}
	return fn.String()
}

// CallExprAt finds the call expression whose left parenthesis is at pos.
func (c *Ctx) CallExprAt(pos token.Pos) *ast.CallExpr {
	if !pos.IsValid() {
		return nil
	}
	for _, p := range c.Pkgs {
		if !InModule(p.PkgPath) {
			continue
		}
		for _, f := range p.Syntax {
			if f.Pos() <= pos && pos < f.End() {
				var found *ast.CallExpr
				ast.Inspect(f, func(n ast.Node) bool {
					if n == nil || found != nil {
						return false
					}
					if n.Pos() > pos || n.End() <= pos {
						return false
					}
					if ce, ok := n.(*ast.CallExpr); ok && ce.Lparen == pos {
						found = ce
						return false
					}
					return true
				})
				return found
			}
		}
	}
	return nil
}

// CallText renders a call instruction's source text ("f(a, b)"), for
// position-free obligation keys.
func (c *Ctx) CallText(pos token.Pos) string {
	ce := c.CallExprAt(pos)
	if ce == nil {
		return "call@?"
	}
	return types.ExprString(ce)
}

// FuncOfSyntax returns the SSA function built from the given *ast.FuncDecl or
// *ast.FuncLit (module packages only; nil for bodies that were not built).
func (c *Ctx) FuncOfSyntax(n ast.Node) *ssa.Function {
	if c.synIndex == nil {
		c.synIndex = map[ast.Node]*ssa.Function{}
		for fn := range ssautil.AllFunctions(c.Prog) {
			if fn.Origin() != nil || !FuncInModule(fn) {
				continue
			}
			if syn := fn.Syntax(); syn != nil {
				c.synIndex[syn] = fn
			}
		}
	}
	return c.synIndex[n]
}

// InnermostFuncSyntax returns the innermost *ast.FuncLit or *ast.FuncDecl of
// file-level declaration fd that encloses pos.
func InnermostFuncSyntax(fd *ast.FuncDecl, pos token.Pos) ast.Node {
	var best ast.Node = fd
	ast.Inspect(fd, func(n ast.Node) bool {
		if n == nil {
			return false
		}
		if pos < n.Pos() || pos >= n.End() {
			return false
		}
		if fl, ok := n.(*ast.FuncLit); ok {
			best = fl
		}
		return true
	})
	return best
}

// IdentAt returns the name of the variable that the expression at pos is
// assigned to (`x := <expr>` / `x = <expr>` / `var x = <expr>`), or "".
func (c *Ctx) IdentAt(pos token.Pos) string {
	if !pos.IsValid() {
		return ""
	}
	for _, p := range c.Pkgs {
		if !InModule(p.PkgPath) {
			continue
		}
		for _, f := range p.Syntax {
			if f.Pos() > pos || pos >= f.End() {
				continue
			}
			name := ""
			ast.Inspect(f, func(n ast.Node) bool {
				if n == nil || n.Pos() > pos || n.End() <= pos {
					return n == nil || false
				}
				switch n := n.(type) {
				case *ast.AssignStmt:
					for i, r := range n.Rhs {
						if r.Pos() <= pos && pos < r.End() && i < len(n.Lhs) && len(n.Lhs) == len(n.Rhs) {
							if id, ok := n.Lhs[i].(*ast.Ident); ok {
								name = id.Name
							}
						}
					}
				case *ast.ValueSpec:
					for i, r := range n.Values {
						if r.Pos() <= pos && pos < r.End() && i < len(n.Names) {
							name = n.Names[i].Name
						}
					}
				}
				return true
			})
			return name
		}
	}
	return ""
}
