package engine

import (
	"fmt"
	"go/constant"
	"go/token"
	"go/types"
	"sort"
	"strings"

	"golang.org/x/tools/go/ssa"
)

// ---------------------------------------------------------------------------
// instruction-level control flow

// InstrIndex returns the index of i in its block.
func InstrIndex(i ssa.Instruction) int {
	for k, x := range i.Block().Instrs {
		if x == i {
			return k
		}
	}
	return -1
}

// Edge is a CFG edge: successor number Succ of block Block.
type Edge struct {
	Block int
	Succ  int
}

// PathAvoiding searches for a path that starts right after instruction from
// (or at the function entry if from is nil) and reaches an instruction
// satisfying isTarget without executing an instruction satisfying isAvoid and
// without using an edge in cut. It returns the target reached and the blocks
// on the path, or nil if no such path exists (i.e. every path to a target
// passes through an avoid instruction or a cut edge).
func PathAvoiding(fn *ssa.Function, from ssa.Instruction, isTarget, isAvoid func(ssa.Instruction) bool, cut map[Edge]bool) (ssa.Instruction, []int) {
	if len(fn.Blocks) == 0 {
		return nil, nil
	}
	type state struct {
		b    *ssa.BasicBlock
		i    int
		prev *state
	}
	var start []*state
	if from == nil {
		start = append(start, &state{b: fn.Blocks[0], i: 0})
		if fn.Recover != nil {
			start = append(start, &state{b: fn.Recover, i: 0})
		}
	} else {
		start = append(start, &state{b: from.Block(), i: InstrIndex(from) + 1})
	}
	visited := map[[2]int]bool{}
	queue := start
	pathOf := func(s *state) []int {
		var p []int
		for ; s != nil; s = s.prev {
			p = append(p, s.b.Index)
		}
		for i, j := 0, len(p)-1; i < j; i, j = i+1, j-1 {
			p[i], p[j] = p[j], p[i]
		}
		return p
	}
	for len(queue) > 0 {
		s := queue[0]
		queue = queue[1:]
		blocked := false
		for k := s.i; k < len(s.b.Instrs); k++ {
			in := s.b.Instrs[k]
			if isTarget(in) {
				return in, pathOf(s)
			}
			if isAvoid != nil && isAvoid(in) {
				blocked = true
				break
			}
		}
		if blocked {
			continue
		}
		// A block that branches on a phi of boolean constants (a flag set
		// on some predecessors) is followed path-sensitively.
		only := -1
		if s.prev != nil && s.i == 0 {
			only = phiBranch(s.b, s.prev.b)
		}
		for si, succ := range s.b.Succs {
			if only >= 0 && si != only {
				continue
			}
			if cut != nil && cut[Edge{s.b.Index, si}] {
				continue
			}
			key := [2]int{succ.Index, -1}
			if isPhiBranchBlock(succ) {
				key[1] = s.b.Index
			}
			if visited[key] {
				continue
			}
			visited[key] = true
			queue = append(queue, &state{b: succ, i: 0, prev: s})
		}
	}
	return nil, nil
}

// isPhiBranchBlock reports whether b ends in an If whose condition is a phi
// of b (possibly negated).
func isPhiBranchBlock(b *ssa.BasicBlock) bool {
	if len(b.Instrs) == 0 {
		return false
	}
	iff, ok := b.Instrs[len(b.Instrs)-1].(*ssa.If)
	if !ok {
		return false
	}
	cond, _ := StripNot(iff.Cond)
	phi, ok := cond.(*ssa.Phi)
	return ok && phi.Block() == b
}

// phiBranch returns the only successor index of b that is feasible when b is
// entered from pred, if b branches on a phi whose input from pred is a
// boolean constant; -1 otherwise.
func phiBranch(b, pred *ssa.BasicBlock) int {
	if !isPhiBranchBlock(b) {
		return -1
	}
	iff := b.Instrs[len(b.Instrs)-1].(*ssa.If)
	cond, neg := StripNot(iff.Cond)
	phi := cond.(*ssa.Phi)
	for i, p := range b.Preds {
		if p != pred {
			continue
		}
		k, ok := phi.Edges[i].(*ssa.Const)
		if !ok || k.Value == nil {
			return -1
		}
		truth := k.Value.String() == "true"
		if neg {
			truth = !truth
		}
		if truth {
			return 0
		}
		return 1
	}
	return -1
}

// ReachesFrom reports whether target is reachable from right after from.
func ReachesFrom(fn *ssa.Function, from, target ssa.Instruction) bool {
	t, _ := PathAvoiding(fn, from, func(i ssa.Instruction) bool { return i == target }, nil, nil)
	return t != nil
}

// PathString renders a block path.
func PathString(fn *ssa.Function, path []int) string {
	var sb strings.Builder
	for i, b := range path {
		if i > 0 {
			sb.WriteString("→")
		}
		blk := fn.Blocks[0]
		for _, bb := range fn.Blocks {
			if bb.Index == b {
				blk = bb
			}
		}
		fmt.Fprintf(&sb, "b%d", b)
		if blk.Comment != "" {
			fmt.Fprintf(&sb, "(%s)", blk.Comment)
		}
	}
	return sb.String()
}

// InstrDominates reports whether a is executed before b on every path to b.
func InstrDominates(a, b ssa.Instruction) bool {
	if a.Block() == b.Block() {
		return InstrIndex(a) < InstrIndex(b)
	}
	return a.Block().Dominates(b.Block())
}

// ---------------------------------------------------------------------------
// conditions

// StripNot removes leading ! operators, returning the inner value and whether
// the polarity was flipped.
func StripNot(v ssa.Value) (ssa.Value, bool) {
	neg := false
	for {
		u, ok := v.(*ssa.UnOp)
		if !ok || u.Op != token.NOT {
			return v, neg
		}
		v = u.X
		neg = !neg
	}
}

// CondEdges returns the edges on which the predicate is known to hold.
// classify is called with the (un-negated) condition of every If in fn and
// returns whether it recognises the condition and whether the condition being
// TRUE means the predicate holds.
func CondEdges(fn *ssa.Function, classify func(cond ssa.Value) (match bool, whenTrue bool)) map[Edge]bool {
	out := map[Edge]bool{}
	for _, b := range fn.Blocks {
		if len(b.Instrs) == 0 {
			continue
		}
		iff, ok := b.Instrs[len(b.Instrs)-1].(*ssa.If)
		if !ok {
			continue
		}
		cond, neg := StripNot(iff.Cond)
		match, whenTrue := classify(cond)
		if !match {
			continue
		}
		if neg {
			whenTrue = !whenTrue
		}
		if whenTrue {
			out[Edge{b.Index, 0}] = true
		} else {
			out[Edge{b.Index, 1}] = true
		}
	}
	return out
}

// ComplementEdges returns the opposite edges of the Ifs in edges.
func ComplementEdges(edges map[Edge]bool) map[Edge]bool {
	out := map[Edge]bool{}
	for e := range edges {
		out[Edge{e.Block, 1 - e.Succ}] = true
	}
	return out
}

// EqEdges returns the edges on which x == y holds, for the comparisons whose
// operands are accepted by match (tried in both orders).
func EqEdges(fn *ssa.Function, match func(x, y ssa.Value) bool) map[Edge]bool {
	return CondEdges(fn, func(cond ssa.Value) (bool, bool) {
		b, ok := cond.(*ssa.BinOp)
		if !ok || (b.Op != token.EQL && b.Op != token.NEQ) {
			return false, false
		}
		if match(b.X, b.Y) || match(b.Y, b.X) {
			return true, b.Op == token.EQL
		}
		return false, false
	})
}

// IsNilConst reports whether v is the constant nil.
func IsNilConst(v ssa.Value) bool {
	c, ok := v.(*ssa.Const)
	return ok && c.Value == nil && !isBasicNonNil(c.Type())
}

func isBasicNonNil(t types.Type) bool {
	b, ok := t.Underlying().(*types.Basic)
	if !ok {
		return false
	}
	return b.Kind() != types.UnsafePointer && b.Kind() != types.UntypedNil
}

// ErrNilEdges returns the edges on which the error value accepted by isErr is
// nil.
func ErrNilEdges(fn *ssa.Function, isErr func(v ssa.Value) bool) map[Edge]bool {
	return EqEdges(fn, func(x, y ssa.Value) bool { return IsNilConst(y) && isErr(x) })
}

// MustPassEdges reports whether every path from the entry to target uses one
// of the edges. If not, it returns a path that avoids them.
func MustPassEdges(fn *ssa.Function, target ssa.Instruction, edges map[Edge]bool) (bool, []int) {
	t, path := PathAvoiding(fn, nil, func(i ssa.Instruction) bool { return i == target }, nil, edges)
	return t == nil, path
}

// ConstInt returns the integer value of a constant.
func ConstInt(v ssa.Value) (int64, bool) {
	c, ok := v.(*ssa.Const)
	if !ok || c.Value == nil || c.Value.Kind() != constant.Int {
		return 0, false
	}
	return constant.Int64Val(c.Value)
}

// ---------------------------------------------------------------------------
// calls

// Calls returns the call instructions (call, go, defer) of fn, including those
// in anonymous functions nested in fn if nested is set.
func Calls(fn *ssa.Function, nested bool) []ssa.CallInstruction {
	var out []ssa.CallInstruction
	for _, b := range fn.Blocks {
		for _, in := range b.Instrs {
			if ci, ok := in.(ssa.CallInstruction); ok {
				out = append(out, ci)
			}
		}
	}
	if nested {
		for _, an := range fn.AnonFuncs {
			out = append(out, Calls(an, true)...)
		}
	}
	return out
}

// CalleeObj returns the statically known callee of a call: a function, a
// concrete method, or an interface method (for invoke mode).
func CalleeObj(cc *ssa.CallCommon) *types.Func {
	if cc.IsInvoke() {
		return cc.Method
	}
	if fn := cc.StaticCallee(); fn != nil {
		if o := fn.Origin(); o != nil {
			fn = o
		}
		if obj, ok := fn.Object().(*types.Func); ok {
			return obj
		}
	}
	return nil
}

// CalleeName returns "pkgpath.Func" or "(pkgpath.Type).Method" for the callee,
// or "" if unknown. Builtins are "builtin.name".
func CalleeName(cc *ssa.CallCommon) string {
	if b, ok := cc.Value.(*ssa.Builtin); ok {
		return "builtin." + b.Name()
	}
	obj := CalleeObj(cc)
	if obj == nil {
		return ""
	}
	return FuncObjName(obj)
}

// FuncObjName renders a function object as "pkg.Func" or "pkg.Type.Method"
// (pointer receivers are not distinguished).
func FuncObjName(obj *types.Func) string {
	sig := obj.Type().(*types.Signature)
	pkg := ""
	if obj.Pkg() != nil {
		pkg = obj.Pkg().Path()
	}
	if recv := sig.Recv(); recv != nil {
		t := recv.Type()
		if p, ok := t.(*types.Pointer); ok {
			t = p.Elem()
		}
		t = types.Unalias(t)
		switch t := t.(type) {
		case *types.Named:
			if t.Obj().Pkg() != nil {
				pkg = t.Obj().Pkg().Path()
			}
			return pkg + "." + t.Obj().Name() + "." + obj.Name()
		}
		return pkg + ".?." + obj.Name()
	}
	return pkg + "." + obj.Name()
}

// IsCallTo reports whether the call's callee has one of the given names
// (as rendered by CalleeName).
func IsCallTo(ci ssa.CallInstruction, names ...string) bool {
	n := CalleeName(ci.Common())
	for _, x := range names {
		if n == x {
			return true
		}
	}
	return false
}

// CallsTo returns the calls in fn (and nested closures) to the named callees.
func CallsTo(fn *ssa.Function, nested bool, names ...string) []ssa.CallInstruction {
	var out []ssa.CallInstruction
	for _, ci := range Calls(fn, nested) {
		if IsCallTo(ci, names...) {
			out = append(out, ci)
		}
	}
	return out
}

// CallArgs returns receiver (if a method call) followed by the arguments.
func CallArgs(cc *ssa.CallCommon) []ssa.Value {
	if cc.IsInvoke() {
		return append([]ssa.Value{cc.Value}, cc.Args...)
	}
	return cc.Args
}

// ---------------------------------------------------------------------------
// value origins (backward slice)

// SliceOpts configures BackSlice.
type SliceOpts struct {
	// ThroughCalls also follows the arguments of calls (the result is
	// assumed to be derived from its arguments).
	ThroughCalls bool
	// NoMemory disables following stores into local cells.
	NoMemory bool
	// Stop, if set, is asked for every value reached; a value for which it
	// returns true is part of the slice but its operands are not followed.
	Stop func(ssa.Value) bool
}

// AddrKey returns a canonical key for an address expression so that two
// distinct SSA values denoting the same cell (x.f computed twice) compare
// equal.
func AddrKey(v ssa.Value) string {
	switch v := v.(type) {
	case *ssa.FieldAddr:
		return AddrKey(v.X) + "." + fmt.Sprint(v.Field)
	case *ssa.IndexAddr:
		return AddrKey(v.X) + "[]"
	case *ssa.UnOp:
		if v.Op == token.MUL {
			return "*(" + AddrKey(v.X) + ")"
		}
	case *ssa.Global:
		return "global:" + v.String()
	case *ssa.ChangeType:
		return AddrKey(v.X)
	}
	return fmt.Sprintf("%s@%p", v.Name(), v)
}

// storesTo returns the values stored to the cell addr in fn (and, for
// cells captured by closures, in the closures of fn).
func storesTo(fn *ssa.Function, key string, out *[]ssa.Value, escapes *[]ssa.Instruction) {
	for _, b := range fn.Blocks {
		for _, in := range b.Instrs {
			switch in := in.(type) {
			case *ssa.Store:
				k2 := AddrKey(in.Addr)
				if k2 == key || strings.HasPrefix(k2, key+".") || strings.HasPrefix(k2, key+"[") ||
					strings.HasPrefix(key, k2+".") || strings.HasPrefix(key, k2+"[") {
					*out = append(*out, in.Val)
				}
			}
		}
	}
}

// BackSlice returns the set of values v may be derived from within its
// function (following phis, conversions, field/element selection, local
// memory, and closure bindings one level up).
func BackSlice(v ssa.Value, opts SliceOpts) map[ssa.Value]bool {
	seen := map[ssa.Value]bool{}
	var visit func(v ssa.Value)
	visit = func(v ssa.Value) {
		if v == nil || seen[v] {
			return
		}
		seen[v] = true
		if opts.Stop != nil && opts.Stop(v) {
			return
		}
		switch v := v.(type) {
		case *ssa.Phi:
			for _, e := range v.Edges {
				visit(e)
			}
		case *ssa.UnOp:
			visit(v.X)
			if v.Op == token.MUL && !opts.NoMemory {
				if fn := v.Parent(); fn != nil {
					var vals []ssa.Value
					storesTo(fn, AddrKey(v.X), &vals, nil)
					for _, an := range fn.AnonFuncs {
						storesTo(an, AddrKey(v.X), &vals, nil)
					}
					for _, x := range vals {
						visit(x)
					}
				}
			}
		case *ssa.BinOp:
			visit(v.X)
			visit(v.Y)
		case *ssa.ChangeType:
			visit(v.X)
		case *ssa.Convert:
			visit(v.X)
		case *ssa.MultiConvert:
			visit(v.X)
		case *ssa.ChangeInterface:
			visit(v.X)
		case *ssa.SliceToArrayPointer:
			visit(v.X)
		case *ssa.MakeInterface:
			visit(v.X)
		case *ssa.TypeAssert:
			visit(v.X)
		case *ssa.Extract:
			visit(v.Tuple)
		case *ssa.FieldAddr:
			visit(v.X)
		case *ssa.Field:
			visit(v.X)
		case *ssa.IndexAddr:
			visit(v.X)
			if !opts.NoMemory {
				visit(v.Index)
			}
		case *ssa.Index:
			visit(v.X)
			if !opts.NoMemory {
				visit(v.Index)
			}
		case *ssa.Lookup:
			visit(v.X)
			if !opts.NoMemory {
				visit(v.Index)
			}
		case *ssa.Slice:
			visit(v.X)
		case *ssa.Next:
			visit(v.Iter)
		case *ssa.Range:
			visit(v.X)
		case *ssa.MakeClosure:
			for _, b := range v.Bindings {
				visit(b)
			}
		case *ssa.Call:
			if opts.ThroughCalls {
				visit(v.Call.Value)
				for _, a := range v.Call.Args {
					visit(a)
				}
			}
		case *ssa.Alloc:
			if !opts.NoMemory {
				if fn := v.Parent(); fn != nil {
					var vals []ssa.Value
					storesTo(fn, AddrKey(v), &vals, nil)
					for _, x := range vals {
						visit(x)
					}
					// calls that receive the cell's address (or a slice
					// of it) may write it: h.Sum(buf[:0]), json.Unmarshal(&x)
					for _, call := range addrTakenBy(v) {
						visit(call)
					}
				}
			}
		case *ssa.MakeSlice, *ssa.MakeMap:
			if !opts.NoMemory {
				// contents written into the fresh container
				if refs := v.Referrers(); refs != nil {
					for _, r := range *refs {
						switch r := r.(type) {
						case *ssa.IndexAddr:
							if rr := r.Referrers(); rr != nil {
								for _, x := range *rr {
									if st, ok := x.(*ssa.Store); ok && st.Addr == r {
										visit(st.Val)
									}
								}
							}
						case *ssa.MapUpdate:
							if r.Map == v {
								visit(r.Key)
								visit(r.Value)
							}
						}
					}
				}
			}
		case *ssa.FreeVar:
			// resolve to the binding in the parent
			fn := v.Parent()
			if fn != nil && fn.Parent() != nil {
				idx := -1
				for i, fv := range fn.FreeVars {
					if fv == v {
						idx = i
					}
				}
				for _, b := range fn.Parent().Blocks {
					for _, in := range b.Instrs {
						if mc, ok := in.(*ssa.MakeClosure); ok && mc.Fn == fn && idx >= 0 && idx < len(mc.Bindings) {
							visit(mc.Bindings[idx])
						}
					}
				}
			}
		}
	}
	visit(v)
	return seen
}

// addrTakenBy lists the calls that receive the address of cell a, a slice of
// it or the address of one of its parts.
func addrTakenBy(a ssa.Value) []ssa.Value {
	var out []ssa.Value
	seen := map[ssa.Value]bool{}
	var walk func(v ssa.Value)
	walk = func(v ssa.Value) {
		if seen[v] {
			return
		}
		seen[v] = true
		refs := v.Referrers()
		if refs == nil {
			return
		}
		for _, r := range *refs {
			switch r := r.(type) {
			case *ssa.Slice:
				walk(r)
			case *ssa.FieldAddr:
				walk(r)
			case *ssa.IndexAddr:
				walk(r)
			case *ssa.ChangeType:
				walk(r)
			case *ssa.Call:
				out = append(out, r)
			}
		}
	}
	walk(a)
	return out
}

// SliceHas reports whether the backward slice of v contains a value
// satisfying pred.
func SliceHas(v ssa.Value, opts SliceOpts, pred func(ssa.Value) bool) bool {
	for x := range BackSlice(v, opts) {
		if pred(x) {
			return true
		}
	}
	return false
}

// IsParam returns a predicate matching the parameter with the given name.
func IsParam(name string) func(ssa.Value) bool {
	return func(v ssa.Value) bool {
		p, ok := v.(*ssa.Parameter)
		return ok && p.Name() == name
	}
}

// IsFieldOf returns a predicate matching a selection of field `field` of the
// named struct type `typ` (package path + "." + name, or just name).
func IsFieldOf(typ, field string) func(ssa.Value) bool {
	return func(v ssa.Value) bool {
		var x ssa.Value
		var idx int
		switch v := v.(type) {
		case *ssa.FieldAddr:
			x, idx = v.X, v.Field
		case *ssa.Field:
			x, idx = v.X, v.Field
		default:
			return false
		}
		owner, f := FieldOf(x.Type(), idx)
		if f == nil || f.Name() != field {
			return false
		}
		return typ == "" || owner == typ || strings.HasSuffix(owner, "."+typ) || strings.HasSuffix(owner, "/"+typ)
	}
}

// FieldOf returns the owning named type ("pkgpath.Name") and the field
// variable for field index idx of (pointer to) struct type t.
func FieldOf(t types.Type, idx int) (string, *types.Var) {
	t = types.Unalias(t)
	if p, ok := t.Underlying().(*types.Pointer); ok {
		t = types.Unalias(p.Elem())
	}
	st, ok := t.Underlying().(*types.Struct)
	if !ok || idx >= st.NumFields() {
		return "", nil
	}
	owner := ""
	if n, ok := t.(*types.Named); ok {
		n = n.Origin()
		if n.Obj().Pkg() != nil {
			owner = n.Obj().Pkg().Path() + "." + n.Obj().Name()
		} else {
			owner = n.Obj().Name()
		}
	}
	return owner, st.Field(idx)
}

// IsCallResult returns a predicate matching the result of a call to one of
// the named callees.
func IsCallResult(names ...string) func(ssa.Value) bool {
	return func(v ssa.Value) bool {
		c, ok := v.(*ssa.Call)
		if !ok {
			return false
		}
		return IsCallTo(c, names...)
	}
}

// ---------------------------------------------------------------------------
// access paths (for mutexes and guarded fields)

// AccessPath renders the chain of field selections from a root (parameter,
// global, free variable, local) to v, e.g. "prog.methodsMu" or
// "global:hashFileCache.Mutex". Loads of pointer fields are looked through.
func AccessPath(v ssa.Value) string {
	switch v := v.(type) {
	case *ssa.FieldAddr:
		_, f := FieldOf(v.X.Type(), v.Field)
		name := "?"
		if f != nil {
			name = f.Name()
		}
		return AccessPath(v.X) + "." + name
	case *ssa.Field:
		_, f := FieldOf(v.X.Type(), v.Field)
		name := "?"
		if f != nil {
			name = f.Name()
		}
		return AccessPath(v.X) + "." + name
	case *ssa.UnOp:
		if v.Op == token.MUL {
			return AccessPath(v.X)
		}
	case *ssa.IndexAddr:
		return AccessPath(v.X) + "[]"
	case *ssa.Index:
		return AccessPath(v.X) + "[]"
	case *ssa.Parameter:
		return v.Name()
	case *ssa.FreeVar:
		return v.Name()
	case *ssa.Global:
		return "global:" + v.Name()
	case *ssa.Alloc:
		if v.Comment != "" {
			return "local:" + v.Comment
		}
	case *ssa.ChangeType:
		return AccessPath(v.X)
	case *ssa.MakeInterface:
		return AccessPath(v.X)
	}
	return "?" + v.Name()
}

// LastField returns the last field name of an access path.
func LastField(path string) string {
	if i := strings.LastIndex(path, "."); i >= 0 {
		return path[i+1:]
	}
	return path
}

// ---------------------------------------------------------------------------
// lock-held analysis

var lockFuncs = map[string]bool{
	"sync.Mutex.Lock": true, "sync.RWMutex.Lock": true, "sync.RWMutex.RLock": true,
}
var unlockFuncs = map[string]bool{
	"sync.Mutex.Unlock": true, "sync.RWMutex.Unlock": true, "sync.RWMutex.RUnlock": true,
}

// LockOp describes a lock or unlock call.
type LockOp struct {
	Instr    ssa.Instruction
	Path     string
	Unlock   bool
	Deferred bool
}

// LockOps lists the mutex operations of fn.
func LockOps(fn *ssa.Function) []LockOp {
	var out []LockOp
	for _, ci := range Calls(fn, false) {
		name := CalleeName(ci.Common())
		isLock, isUnlock := lockFuncs[name], unlockFuncs[name]
		if !isLock && !isUnlock {
			continue
		}
		args := ci.Common().Args
		if len(args) == 0 {
			continue
		}
		_, deferred := ci.(*ssa.Defer)
		out = append(out, LockOp{Instr: ci, Path: AccessPath(args[0]), Unlock: isUnlock, Deferred: deferred})
	}
	return out
}

// HeldAt reports whether a mutex whose access path ends in field mu is held
// at instruction at: a Lock on it dominates at and no non-deferred Unlock on
// it lies on a path from that Lock to at.
func HeldAt(fn *ssa.Function, at ssa.Instruction, mu string) (bool, string) {
	ops := LockOps(fn)
	var locks, unlocks []LockOp
	for _, op := range ops {
		if LastField(op.Path) != mu && op.Path != mu {
			continue
		}
		if op.Unlock {
			if !op.Deferred {
				unlocks = append(unlocks, op)
			}
		} else if !op.Deferred {
			locks = append(locks, op)
		}
	}
	if len(locks) == 0 {
		return false, "no Lock on " + mu + " in " + fn.String()
	}
	isLock := func(i ssa.Instruction) bool {
		for _, l := range locks {
			if l.Instr == i {
				return true
			}
		}
		return false
	}
	for _, l := range locks {
		if !InstrDominates(l.Instr, at) {
			continue
		}
		ok := true
		for _, u := range unlocks {
			if !ReachesFrom(fn, l.Instr, u.Instr) {
				continue
			}
			// can `at` be reached from the unlock without re-locking?
			t, _ := PathAvoiding(fn, u.Instr, func(i ssa.Instruction) bool { return i == at }, isLock, nil)
			if t != nil {
				ok = false
				break
			}
		}
		if ok {
			return true, ""
		}
	}
	return false, "no dominating Lock on " + mu + " that is still held"
}

// ---------------------------------------------------------------------------
// misc

// Returns lists the return instructions of fn. The synthetic return of the
// recover block (functions with a defer: "run defers, return the result
// cells") is not a return statement of the source and is left out unless the
// function has named results, which a recovering deferred call can set.
func Returns(fn *ssa.Function) []*ssa.Return {
	var out []*ssa.Return
	named := false
	if fn.Signature != nil {
		for v := range fn.Signature.Results().Variables() {
			if v.Name() != "" && v.Name() != "_" {
				named = true
			}
		}
	}
	for _, b := range fn.Blocks {
		if len(b.Instrs) == 0 {
			continue
		}
		if r, ok := b.Instrs[len(b.Instrs)-1].(*ssa.Return); ok {
			if b == fn.Recover && !named {
				continue
			}
			out = append(out, r)
		}
	}
	return out
}

// Instrs calls f for every instruction of fn (and nested closures if set).
func Instrs(fn *ssa.Function, nested bool, f func(ssa.Instruction)) {
	for _, b := range fn.Blocks {
		for _, in := range b.Instrs {
			f(in)
		}
	}
	if nested {
		for _, an := range fn.AnonFuncs {
			Instrs(an, true, f)
		}
	}
}

// SortedKeys returns the sorted keys of a string set.
func SortedKeys[V any](m map[string]V) []string {
	out := make([]string, 0, len(m))
	for k := range m {
		out = append(out, k)
	}
	sort.Strings(out)
	return out
}

// AnonIndex returns a stable name for an anonymous function relative to its
// outermost parent, e.g. "pkg.F$1$2".
func AnonIndex(fn *ssa.Function) string { return fn.String() }

// ---------------------------------------------------------------------------
// returns

// ReturnOperand resolves operand idx of a return: if it is a load of a
// spilled result variable (functions with defer), the value stored to that
// variable last in the same block is returned.
func ReturnOperand(r *ssa.Return, idx int) ssa.Value {
	if idx >= len(r.Results) {
		return nil
	}
	v := r.Results[idx]
	u, ok := v.(*ssa.UnOp)
	if !ok || u.Op != token.MUL {
		return v
	}
	al, ok := u.X.(*ssa.Alloc)
	if !ok {
		return v
	}
	blk := r.Block()
	for i := len(blk.Instrs) - 1; i >= 0; i-- {
		if st, ok := blk.Instrs[i].(*ssa.Store); ok && st.Addr == al {
			return st.Val
		}
	}
	return v
}

// DefinitelyNonNilError reports whether v is an error value that cannot be
// nil at instruction at: a freshly made interface, the result of
// errors.New/fmt.Errorf, or a value whose "!= nil" edge every path to at
// passes.
func DefinitelyNonNilError(fn *ssa.Function, v ssa.Value, at ssa.Instruction) bool {
	switch x := v.(type) {
	case *ssa.MakeInterface:
		return true
	case *ssa.Call:
		if IsCallTo(x, "errors.New", "fmt.Errorf") {
			return true
		}
	case *ssa.Const:
		return false
	case *ssa.Extract:
		// result of a module function all of whose returns carry a non-nil
		// error at that index (one level of summary)
		if c, ok := x.Tuple.(*ssa.Call); ok {
			if callee := c.Call.StaticCallee(); callee != nil && len(callee.Blocks) > 0 && callee != fn {
				all := true
				rets := Returns(callee)
				for _, r := range rets {
					rv := ReturnOperand(r, x.Index)
					switch rv := rv.(type) {
					case *ssa.MakeInterface:
					case *ssa.Call:
						if !IsCallTo(rv, "errors.New", "fmt.Errorf") {
							all = false
						}
					default:
						all = false
					}
				}
				if all && len(rets) > 0 {
					return true
				}
			}
		}
	}
	nonNil := ComplementEdges(ErrNilEdges(fn, func(e ssa.Value) bool { return e == v }))
	if len(nonNil) == 0 {
		return false
	}
	ok, _ := MustPassEdges(fn, at, nonNil)
	return ok
}

// SuccessReturns lists the returns of fn whose error result (operand errIdx)
// may be nil.
func SuccessReturns(fn *ssa.Function, errIdx int) []*ssa.Return {
	var out []*ssa.Return
	for _, r := range Returns(fn) {
		if fn.Recover != nil && r.Block() == fn.Recover {
			continue
		}
		v := ReturnOperand(r, errIdx)
		if v == nil {
			continue
		}
		if DefinitelyNonNilError(fn, v, r) {
			continue
		}
		out = append(out, r)
	}
	return out
}

// CallTrueEdges returns the true-edges of Ifs whose condition is a call
// accepted by match (false-edges if negated).
func CallTrueEdges(fn *ssa.Function, match func(c *ssa.Call) bool) map[Edge]bool {
	return CondEdges(fn, func(cond ssa.Value) (bool, bool) {
		c, ok := cond.(*ssa.Call)
		if !ok || !match(c) {
			return false, false
		}
		return true, true
	})
}

// UnionEdges merges edge sets.
func UnionEdges(sets ...map[Edge]bool) map[Edge]bool {
	out := map[Edge]bool{}
	for _, s := range sets {
		for e := range s {
			out[e] = true
		}
	}
	return out
}

// Derives reports whether v's backward slice (through calls) contains a value
// matching pred.
func Derives(v ssa.Value, pred func(ssa.Value) bool) bool {
	return SliceHas(v, SliceOpts{ThroughCalls: true}, pred)
}

// AddrFrom reports whether the address expression v is built from a value
// matching pred (field selections, indexing and pointer loads are followed,
// but not the contents of memory cells).
func AddrFrom(v ssa.Value, pred func(ssa.Value) bool) bool {
	return SliceHas(v, SliceOpts{NoMemory: true}, pred)
}

// DerivesLocal is Derives without looking through call arguments.
func DerivesLocal(v ssa.Value, pred func(ssa.Value) bool) bool {
	return SliceHas(v, SliceOpts{}, pred)
}

// IsInvokeResult matches the result of an interface method call with the
// given method name.
func IsInvokeResult(method string) func(ssa.Value) bool {
	return func(v ssa.Value) bool {
		c, ok := v.(*ssa.Call)
		return ok && c.Call.IsInvoke() && c.Call.Method.Name() == method
	}
}

// CmpEdges returns edges on which "x OP y" holds for ordered comparisons,
// where match accepts (x, y) with the relation rel being one of "<", "<=",
// ">", ">=" as seen with x on the left. holds(rel) says whether the predicate
// of interest holds when "x rel y" is true.
func CmpEdges(fn *ssa.Function, match func(x, y ssa.Value) bool, holdsWhen func(rel string, truth bool) bool) map[Edge]bool {
	out := map[Edge]bool{}
	flip := map[token.Token]string{token.LSS: ">", token.LEQ: ">=", token.GTR: "<", token.GEQ: "<="}
	same := map[token.Token]string{token.LSS: "<", token.LEQ: "<=", token.GTR: ">", token.GEQ: ">="}
	for _, b := range fn.Blocks {
		if len(b.Instrs) == 0 {
			continue
		}
		iff, ok := b.Instrs[len(b.Instrs)-1].(*ssa.If)
		if !ok {
			continue
		}
		cond, neg := StripNot(iff.Cond)
		bo, ok := cond.(*ssa.BinOp)
		if !ok {
			continue
		}
		var rel string
		if _, ok := same[bo.Op]; !ok {
			continue
		}
		if match(bo.X, bo.Y) {
			rel = same[bo.Op]
		} else if match(bo.Y, bo.X) {
			rel = flip[bo.Op]
		} else {
			continue
		}
		for succ, truth := range []bool{true, false} {
			t := truth
			if neg {
				t = !t
			}
			if holdsWhen(rel, t) {
				out[Edge{b.Index, succ}] = true
			}
		}
	}
	return out
}

// ---------------------------------------------------------------------------
// forward flow

// ForwardFlow returns the instructions that (transitively) use v: through
// value operands, and through local memory (a store into a cell reaches the
// loads of that cell or of an enclosing/enclosed cell).
func ForwardFlow(v ssa.Value) map[ssa.Instruction]bool {
	fn := v.Parent()
	out := map[ssa.Instruction]bool{}
	seenV := map[ssa.Value]bool{}
	var visitV func(v ssa.Value)
	visitCell := func(key string) {
		if fn == nil {
			return
		}
		Instrs(fn, true, func(in ssa.Instruction) {
			u, ok := in.(*ssa.UnOp)
			if !ok || u.Op != token.MUL {
				return
			}
			k2 := AddrKey(u.X)
			if k2 == key || strings.HasPrefix(k2, key+".") || strings.HasPrefix(k2, key+"[") ||
				strings.HasPrefix(key, k2+".") || strings.HasPrefix(key, k2+"[") {
				out[u] = true
				visitV(u)
			}
		})
	}
	visitV = func(v ssa.Value) {
		if seenV[v] {
			return
		}
		seenV[v] = true
		refs := v.Referrers()
		if refs == nil {
			return
		}
		for _, r := range *refs {
			out[r] = true
			switch r := r.(type) {
			case *ssa.Store:
				if r.Val == v {
					visitCell(AddrKey(r.Addr))
				}
			case ssa.Value:
				switch r.(type) {
				case *ssa.Call:
					// the result of a call is not assumed to carry its arguments
				default:
					visitV(r)
				}
			}
		}
	}
	visitV(v)
	return out
}

// FlowsToReturn reports whether v can reach a return operand of its function.
func FlowsToReturn(v ssa.Value) bool {
	for in := range ForwardFlow(v) {
		if _, ok := in.(*ssa.Return); ok {
			return true
		}
	}
	return false
}

// MustDerive reports whether v derives from a value satisfying pred on
// *every* alternative: at a φ all incoming edges must, at a load from a local
// cell all stored values must (or the address itself derives from pred),
// elsewhere one operand suffices. Cycles are resolved coinductively (a value
// under evaluation counts as satisfied), which is right for loop-carried φs.
func MustDerive(v ssa.Value, pred func(ssa.Value) bool, throughCalls bool) bool {
	state := map[ssa.Value]int{} // 1 = in progress, 2 = true, 3 = false
	var must func(v ssa.Value) bool
	any := func(vs ...ssa.Value) bool {
		for _, x := range vs {
			if x != nil && must(x) {
				return true
			}
		}
		return false
	}
	must = func(v ssa.Value) bool {
		if v == nil {
			return false
		}
		switch state[v] {
		case 1, 2:
			return true
		case 3:
			return false
		}
		if pred(v) {
			state[v] = 2
			return true
		}
		state[v] = 1
		res := false
		switch v := v.(type) {
		case *ssa.Phi:
			res = true
			for _, e := range v.Edges {
				if !must(e) {
					res = false
					break
				}
			}
		case *ssa.UnOp:
			res = must(v.X)
			if !res && v.Op == token.MUL {
				if fn := v.Parent(); fn != nil {
					var vals []ssa.Value
					storesTo(fn, AddrKey(v.X), &vals, nil)
					for _, an := range fn.AnonFuncs {
						storesTo(an, AddrKey(v.X), &vals, nil)
					}
					if len(vals) > 0 {
						res = true
						for _, x := range vals {
							if !must(x) {
								res = false
								break
							}
						}
					}
				}
			}
		case *ssa.BinOp:
			res = any(v.X, v.Y)
		case *ssa.ChangeType:
			res = must(v.X)
		case *ssa.Convert:
			res = must(v.X)
		case *ssa.MultiConvert:
			res = must(v.X)
		case *ssa.ChangeInterface:
			res = must(v.X)
		case *ssa.MakeInterface:
			res = must(v.X)
		case *ssa.TypeAssert:
			res = must(v.X)
		case *ssa.Extract:
			res = must(v.Tuple)
		case *ssa.FieldAddr:
			res = must(v.X)
		case *ssa.Field:
			res = must(v.X)
		case *ssa.IndexAddr:
			res = must(v.X)
		case *ssa.Index:
			res = must(v.X)
		case *ssa.Lookup:
			res = must(v.X)
		case *ssa.Slice:
			res = must(v.X)
		case *ssa.Next:
			res = must(v.Iter)
		case *ssa.Range:
			res = must(v.X)
		case *ssa.Call:
			if throughCalls {
				res = any(append([]ssa.Value{v.Call.Value}, v.Call.Args...)...)
			}
		case *ssa.Alloc:
			// a varargs/complit cell: any stored element suffices when all stores are to distinct parts;
			// conservatively require one store whose value must-derives and that is the only store to its part
			if fn := v.Parent(); fn != nil {
				byPart := map[string][]ssa.Value{}
				for _, b := range fn.Blocks {
					for _, in := range b.Instrs {
						if st, ok := in.(*ssa.Store); ok {
							k := AddrKey(st.Addr)
							if k == AddrKey(v) || strings.HasPrefix(k, AddrKey(v)+".") || strings.HasPrefix(k, AddrKey(v)+"[") {
								// index-addressed parts are distinguished by their constant index
								part := k
								if ia, ok := st.Addr.(*ssa.IndexAddr); ok {
									part = k + ia.Index.String()
								}
								byPart[part] = append(byPart[part], st.Val)
							}
						}
					}
				}
				for _, vals := range byPart {
					all := true
					for _, x := range vals {
						if !must(x) {
							all = false
							break
						}
					}
					if all && len(vals) > 0 {
						res = true
						break
					}
				}
			}
		}
		if res {
			// not cached: it may rest on the optimistic assumption about a value still under evaluation
			delete(state, v)
		} else {
			state[v] = 3
		}
		return res
	}
	return must(v)
}

// IntCmpConstEdges returns the edges on which the integer value matched by
// isX satisfies pred, for every comparison of that value with a constant (in
// either operand order, through negations): an edge is included when all
// values the comparison admits on it satisfy pred. nonNegative says that the
// value is known to be >= 0 (a length or count).
func IntCmpConstEdges(fn *ssa.Function, isX func(ssa.Value) bool, nonNegative bool, pred func(lo, hi int64) bool) map[Edge]bool {
	out := map[Edge]bool{}
	sat := func(ivs [][2]int64) bool {
		all, any := true, false
		for _, v := range ivs {
			if v[0] > v[1] {
				continue // empty
			}
			any = true
			if !pred(v[0], v[1]) {
				all = false
			}
		}
		return all && any
	}
	for _, b := range fn.Blocks {
		if len(b.Instrs) == 0 {
			continue
		}
		iff, ok := b.Instrs[len(b.Instrs)-1].(*ssa.If)
		if !ok {
			continue
		}
		if onTrue, onFalse, ok := intCmpIntervals(iff.Cond, isX, nonNegative); ok {
			if sat(onTrue) {
				out[Edge{Block: b.Index, Succ: 0}] = true
			}
			if sat(onFalse) {
				out[Edge{Block: b.Index, Succ: 1}] = true
			}
			continue
		}
		// a conjunction kept in a variable: `ok := a && x >= 0; if ok`: the true edge establishes x >= 0
		if x, isAnd := AndPhiOperand(iff); isAnd {
			if onTrue, _, ok := intCmpIntervals(x, isX, nonNegative); ok && sat(onTrue) {
				out[Edge{Block: b.Index, Succ: 0}] = true
			}
		}
	}
	return out
}

// intCmpIntervals: for a condition comparing the integer matched by isX with a
// constant, the intervals of that integer when the condition is true / false.
func intCmpIntervals(condV ssa.Value, isX func(ssa.Value) bool, nonNegative bool) (onTrue, onFalse [][2]int64, ok bool) {
	const inf = int64(1) << 62
	flip := map[token.Token]token.Token{token.LSS: token.GTR, token.GTR: token.LSS, token.LEQ: token.GEQ, token.GEQ: token.LEQ, token.EQL: token.EQL, token.NEQ: token.NEQ}
	cond, neg := StripNot(condV)
	bo, isBo := cond.(*ssa.BinOp)
	if !isBo {
		return nil, nil, false
	}
	op := bo.Op
	var k int64
	if kk, isK := ConstInt(bo.Y); isK && isX(bo.X) {
		k = kk
	} else if kk, isK := ConstInt(bo.X); isK && isX(bo.Y) {
		k = kk
		op = flip[op]
		if op == 0 {
			return nil, nil, false
		}
	} else {
		return nil, nil, false
	}
	min := -inf
	if nonNegative {
		min = 0
	}
	side := func(truth bool) [][2]int64 {
		switch {
		case op == token.EQL && truth, op == token.NEQ && !truth:
			return [][2]int64{{k, k}}
		case op == token.EQL && !truth, op == token.NEQ && truth:
			return [][2]int64{{min, k - 1}, {k + 1, inf}}
		case op == token.LSS && truth, op == token.GEQ && !truth:
			return [][2]int64{{min, k - 1}}
		case op == token.LEQ && truth, op == token.GTR && !truth:
			return [][2]int64{{min, k}}
		case op == token.GTR && truth, op == token.LEQ && !truth:
			return [][2]int64{{k + 1, inf}}
		case op == token.GEQ && truth, op == token.LSS && !truth:
			return [][2]int64{{k, inf}}
		}
		return nil
	}
	t, f := side(true), side(false)
	if t == nil || f == nil {
		return nil, nil, false
	}
	if neg {
		t, f = f, t
	}
	return t, f, true
}

// LenZeroEdges returns the edges on which len(x) == 0 is known, for the x
// accepted by isX (the argument of the len call); LenNonZeroEdges the edges on
// which len(x) > 0 is known. All comparison spellings are understood
// (== 0, != 0, > 0, >= 1, < 1, 0 < len, …).
func LenZeroEdges(fn *ssa.Function, isX func(ssa.Value) bool) map[Edge]bool {
	return IntCmpConstEdges(fn, lenOf(isX), true, func(lo, hi int64) bool { return lo == 0 && hi == 0 })
}

func LenNonZeroEdges(fn *ssa.Function, isX func(ssa.Value) bool) map[Edge]bool {
	return IntCmpConstEdges(fn, lenOf(isX), true, func(lo, hi int64) bool { return lo >= 1 })
}

func lenOf(isX func(ssa.Value) bool) func(ssa.Value) bool {
	return func(v ssa.Value) bool {
		call, ok := v.(*ssa.Call)
		if !ok {
			return false
		}
		if b, isB := call.Call.Value.(*ssa.Builtin); !isB || b.Name() != "len" {
			return false
		}
		return isX(call.Call.Args[0])
	}
}

// SameExpr reports whether two SSA values denote the same pure expression
// (go/ssa does no common-subexpression elimination, so `len(x)-1-i` written
// twice yields two values).
func SameExpr(a, b ssa.Value) bool {
	if a == b {
		return true
	}
	switch x := a.(type) {
	case *ssa.Const:
		y, ok := b.(*ssa.Const)
		return ok && x.String() == y.String()
	case *ssa.BinOp:
		y, ok := b.(*ssa.BinOp)
		return ok && x.Op == y.Op && SameExpr(x.X, y.X) && SameExpr(x.Y, y.Y)
	case *ssa.UnOp:
		y, ok := b.(*ssa.UnOp)
		if !ok || x.Op != y.Op {
			return false
		}
		if x.Op == token.MUL {
			return AddrKey(x.X) == AddrKey(y.X)
		}
		return SameExpr(x.X, y.X)
	case *ssa.Call:
		y, ok := b.(*ssa.Call)
		if !ok {
			return false
		}
		bx, ok1 := x.Call.Value.(*ssa.Builtin)
		by, ok2 := y.Call.Value.(*ssa.Builtin)
		if !ok1 || !ok2 || bx.Name() != by.Name() || (bx.Name() != "len" && bx.Name() != "cap") {
			return false
		}
		return SameExpr(x.Call.Args[0], y.Call.Args[0])
	case *ssa.Convert:
		y, ok := b.(*ssa.Convert)
		return ok && SameExpr(x.X, y.X)
	}
	return false
}

// AndPhiOperand recognises the SSA shape of a conjunction kept in a variable
// or used as a condition: the If's condition is a φ of the If's own block that
// is the constant false on all incoming edges but one. It returns that one
// operand X: on the If's TRUE edge X was true (the false edge says nothing).
func AndPhiOperand(iff *ssa.If) (ssa.Value, bool) {
	cond, neg := StripNot(iff.Cond)
	phi, ok := cond.(*ssa.Phi)
	if !ok || neg || phi.Block() != iff.Block() {
		return nil, false
	}
	var x ssa.Value
	for _, e := range phi.Edges {
		if k, isK := e.(*ssa.Const); isK && k.Value != nil && k.Value.String() == "false" {
			continue
		}
		if x != nil {
			return nil, false
		}
		x = e
	}
	return x, x != nil
}

// CondEdgesPhi is CondEdges plus the true edges of conjunction-φ conditions
// one of whose conjuncts is classified as holding when true. The result must
// only be used positively (as edges that establish the condition), never
// complemented: the false edge of `a && X` does not establish !X.
func CondEdgesPhi(fn *ssa.Function, classify func(cond ssa.Value) (match bool, whenTrue bool)) map[Edge]bool {
	out := CondEdges(fn, classify)
	for _, b := range fn.Blocks {
		if len(b.Instrs) == 0 {
			continue
		}
		iff, ok := b.Instrs[len(b.Instrs)-1].(*ssa.If)
		if !ok {
			continue
		}
		// nested conjunctions: X may itself be a φ of an earlier block
		x, ok := AndPhiOperand(iff)
		for depth := 0; ok && depth < 4; depth++ {
			cond, neg := StripNot(x)
			if match, whenTrue := classify(cond); match && whenTrue != neg {
				out[Edge{Block: b.Index, Succ: 0}] = true
			}
			inner, isPhi := cond.(*ssa.Phi)
			if !isPhi || neg {
				break
			}
			var nx ssa.Value
			n := 0
			for _, e := range inner.Edges {
				if k, isK := e.(*ssa.Const); isK && k.Value != nil && k.Value.String() == "false" {
					continue
				}
				nx = e
				n++
			}
			if n != 1 {
				break
			}
			x = nx
		}
	}
	return out
}
