// Package engine is the shared machinery of the /verif static checker:
// loading /repo's current working tree, recording obligations, known
// findings, evidence and replay files.
package engine

import (
	"go/ast"
	"crypto/sha256"
	"encoding/hex"
	"encoding/json"
	"fmt"
	"go/token"
	"go/types"
	"os"
	"path/filepath"
	"runtime/debug"
	"sort"
	"strings"
	"time"

	"golang.org/x/tools/go/callgraph"
	"golang.org/x/tools/go/packages"
	"golang.org/x/tools/go/ssa"
)

const Module = "honnef.co/go/tools"

// Obligation is one decided instance of a rule.
type Obligation struct {
	Rule       string `json:"rule"`
	Key        string `json:"key"`
	OK         bool   `json:"ok"`
	Pos        string `json:"pos,omitempty"`
	Detail     string `json:"detail,omitempty"`
	Nontrivial bool   `json:"nontrivial"`
	Known      bool   `json:"known,omitempty"`
	Config     string `json:"config,omitempty"`
}

// Property describes one property check.
type Property struct {
	ID       string
	Patterns []string // package patterns relative to the repo root
	NeedSSA  bool
	// BuildAll also builds the function bodies of non-module packages
	// (standard library, x/tools), so that the call graph contains calls
	// back from them into the module.
	BuildAll bool
	// Explanation is the coverage.explanation text of the evidence file.
	Explanation string
	RuleText    string
	Assumptions []string
	Run         func(c *Ctx)
	// Thorough runs the extra, deeper rules of the thorough tier.
	Thorough func(c *Ctx)
	// Mutants is the sensitivity suite of the property.
	Mutants []Mutant
	// Benign is the specificity suite: behaviour-preserving variants of the
	// code (renames, extracted helpers, reordered independent statements,
	// if↔switch) on which every obligation must still hold. Rule and KeyPart
	// are unused.
	Benign []Mutant
	// Configs lists the build configurations of the thorough tier
	// ("goos/goarch"); empty means the default list.
	Configs []string
}

// Mutant is one in-memory variant of /repo with one construct broken. It is
// used only to test the checker, never to decide a property.
type Mutant struct {
	Name string
	File string // relative to the repo root
	Old  string // must occur exactly once in File, else the mutant is stale
	New  string
	// The mutant is killed if a failing obligation of rule Rule whose key
	// contains KeyPart is reported.
	Rule    string
	KeyPart string
	// More lists further edits that belong to the same variant (e.g. a
	// new struct field and its use).
	More []Edit
}

// Edit is one text replacement of a mutant.
type Edit struct {
	File string
	Old  string
	New  string
}

var registry = map[string]*Property{}

func Register(p *Property) { registry[p.ID] = p }

func Lookup(id string) *Property { return registry[id] }

func IDs() []string {
	var ids []string
	for id := range registry {
		ids = append(ids, id)
	}
	sort.Strings(ids)
	return ids
}

// Ctx is the state of one run of one property on one build configuration.
type Ctx struct {
	Prop     *Property
	Tier     string
	RepoDir  string
	VerifDir string
	Config   string // "goos/goarch" or "" for the host default
	Overlay  map[string][]byte

	Fset   *token.FileSet
	Roots  []*packages.Package
	Pkgs   map[string]*packages.Package
	Prog   *ssa.Program
	SSA    map[string]*ssa.Package
	NFuncs int

	Obls        []Obligation
	curRule     string
	floors      map[string]int
	funcsSeen   map[string]bool
	Notes       []string
	Samples     []any
	thoroughRun bool
	cg          *callgraph.Graph
	synIndex    map[ast.Node]*ssa.Function
}

type undecided struct{ reason string }

// Undecided aborts the current rule: the shape the rule needs could not be
// recognised. This fails the run (never passes vacuously).
func (c *Ctx) Undecided(format string, args ...any) {
	panic(undecided{fmt.Sprintf(format, args...)})
}

// Rule runs one rule. Panics (including Undecided) are turned into failing
// "undecided" obligations.
func (c *Ctx) Rule(id string, fn func()) {
	prev := c.curRule
	c.curRule = id
	defer func() {
		c.curRule = prev
		if r := recover(); r != nil {
			if u, ok := r.(undecided); ok {
				c.Obls = append(c.Obls, Obligation{Rule: id, Key: "undecided:" + u.reason, OK: false, Detail: "the checker could not recognise the construct this rule is anchored in; the rule was NOT decided", Config: c.Config})
				return
			}
			st := string(debug.Stack())
			if len(st) > 3000 {
				st = st[:3000]
			}
			c.Obls = append(c.Obls, Obligation{Rule: id, Key: "undecided:checker-panic", OK: false, Detail: fmt.Sprintf("%v\n%s", r, st), Config: c.Config})
		}
	}()
	fn()
}

// Check records an obligation of the current rule.
func (c *Ctx) Check(key string, pos token.Pos, ok bool, format string, args ...any) bool {
	c.add(key, pos, ok, true, format, args...)
	return ok
}

// CheckTrivial records an obligation that needed no path/flow query.
func (c *Ctx) CheckTrivial(key string, pos token.Pos, ok bool, format string, args ...any) bool {
	c.add(key, pos, ok, false, format, args...)
	return ok
}

func (c *Ctx) add(key string, pos token.Pos, ok bool, nontrivial bool, format string, args ...any) {
	o := Obligation{Rule: c.curRule, Key: key, OK: ok, Nontrivial: nontrivial, Detail: fmt.Sprintf(format, args...), Config: c.Config}
	if pos.IsValid() && c.Fset != nil {
		o.Pos = c.Rel(c.Fset.Position(pos))
	}
	c.Obls = append(c.Obls, o)
}

// Floor records the minimum number of obligations rule must have produced;
// checked at the end of the run (vacuity guard).
func (c *Ctx) Floor(rule string, n int) {
	if c.floors == nil {
		c.floors = map[string]int{}
	}
	c.floors[rule] = n
}

func (c *Ctx) Note(format string, args ...any) {
	c.Notes = append(c.Notes, fmt.Sprintf(format, args...))
}

func (c *Ctx) Rel(p token.Position) string {
	f := p.Filename
	if rel, err := filepath.Rel(c.RepoDir, f); err == nil && !strings.HasPrefix(rel, "..") {
		f = rel
	}
	return fmt.Sprintf("%s:%d", f, p.Line)
}

func (c *Ctx) PosStr(pos token.Pos) string {
	if !pos.IsValid() {
		return "?"
	}
	return c.Rel(c.Fset.Position(pos))
}

func (c *Ctx) SawFunc(name string) {
	if c.funcsSeen == nil {
		c.funcsSeen = map[string]bool{}
	}
	c.funcsSeen[name] = true
}

// finish applies the floors.
func (c *Ctx) finish() {
	counts := map[string]int{}
	for _, o := range c.Obls {
		counts[o.Rule]++
	}
	var rules []string
	for r := range c.floors {
		rules = append(rules, r)
	}
	sort.Strings(rules)
	for _, r := range rules {
		if counts[r] < c.floors[r] {
			c.Obls = append(c.Obls, Obligation{Rule: r, Key: "undecided:instance-floor", OK: false,
				Detail: fmt.Sprintf("rule %s matched %d instances, fewer than the %d confirmed by reading the code; it would pass vacuously", r, counts[r], c.floors[r]), Config: c.Config})
		}
	}
}

// ---------------------------------------------------------------------------
// known findings

type Finding struct {
	Property string `json:"property"`
	Rule     string `json:"rule"`
	Key      string `json:"key"`
	Status   string `json:"status"`
	Commit   string `json:"commit,omitempty"`
	What     string `json:"what"`
}

type findingsFile struct {
	Findings []Finding `json:"findings"`
}

func LoadFindings(verifDir string) ([]Finding, error) {
	b, err := os.ReadFile(filepath.Join(verifDir, "known_findings.json"))
	if err != nil {
		return nil, err
	}
	var ff findingsFile
	if err := json.Unmarshal(b, &ff); err != nil {
		return nil, err
	}
	return ff.Findings, nil
}

// ---------------------------------------------------------------------------
// evidence

type Evidence struct {
	PropertyID  string         `json:"property_id"`
	Tier        string         `json:"tier"`
	Seed        int            `json:"seed"`
	Level       string         `json:"level"`
	Coverage    map[string]any `json:"coverage"`
	Assumptions []string       `json:"assumptions"`
	WallS       float64        `json:"wall_s"`
	Violations  int            `json:"violations"`
}

func obligationID(prop string, o Obligation) string {
	h := sha256.Sum256([]byte(prop + "\x00" + o.Rule + "\x00" + o.Key))
	return hex.EncodeToString(h[:6])
}

// Report prints the outcome, writes evidence and replay files and returns the
// process exit status.
type RunResult struct {
	Prop      *Property
	Tier      string
	Seed      int
	Obls      []Obligation
	Configs   []string
	Packages  int
	Functions int
	FuncsSeen int
	Notes     []string
	Mutants   []MutantResult
	Start     time.Time
	VerifDir  string
	Cross     map[string]any
}

type MutantResult struct {
	Name   string `json:"name"`
	Rule   string `json:"rule"`
	Status string `json:"status"` // killed | survived | stale | error | quiet | false-alarm
	Detail string `json:"detail,omitempty"`
}

func (r *RunResult) Finish() int {
	findings, err := LoadFindings(r.VerifDir)
	if err != nil {
		fmt.Printf("VIOLATION property=%s replay=%s\n", r.Prop.ID, "none")
		fmt.Printf("  undecided: cannot read known_findings.json: %v\n", err)
		return 1
	}
	known := map[string]Finding{}
	for _, f := range findings {
		if f.Property == r.Prop.ID && f.Status == "known" {
			known[f.Rule+"\x00"+f.Key] = f
		}
	}

	// de-duplicate obligations across configurations: one line per
	// (rule,key,ok); remember the configs.
	type agg struct {
		o       Obligation
		configs []string
	}
	byKey := map[string]*agg{}
	var order []string
	for _, o := range r.Obls {
		k := fmt.Sprintf("%s\x00%s\x00%v", o.Rule, o.Key, o.OK)
		a, ok := byKey[k]
		if !ok {
			a = &agg{o: o}
			byKey[k] = a
			order = append(order, k)
		}
		a.configs = append(a.configs, o.Config)
	}

	violations := 0
	knownPrinted := 0
	total, discharged, nontrivial := 0, 0, 0
	distinct := map[string]bool{}
	perRule := map[string][2]int{}
	var samples []any
	sampleRules := map[string]int{}
	// VERIF_OUT redirects evidence and replay files (used when the checks are
	// pointed at a scratch copy of the repository, so that /verif/evidence
	// always describes a run against /repo itself).
	outDir := r.VerifDir
	if d := os.Getenv("VERIF_OUT"); d != "" {
		outDir = d
	}
	replayDir := filepath.Join(outDir, "replay")
	for _, k := range order {
		a := byKey[k]
		o := a.o
		total++
		pr := perRule[o.Rule]
		pr[0]++
		if o.OK {
			discharged++
			pr[1]++
		}
		perRule[o.Rule] = pr
		if os.Getenv("VERIF_VERBOSE") != "" {
			fmt.Printf("obligation %s %s ok=%v @%s\n", o.Rule, o.Key, o.OK, o.Pos)
		}
		if o.Nontrivial {
			dk := o.Rule + "\x00" + o.Key
			if !distinct[dk] {
				distinct[dk] = true
				nontrivial++
			}
		}
		if o.OK {
			if sampleRules[o.Rule] < 2 && len(samples) < 40 {
				sampleRules[o.Rule]++
				samples = append(samples, map[string]any{"rule": o.Rule, "key": o.Key, "pos": o.Pos, "verdict": "holds", "witness": o.Detail})
			}
			continue
		}
		if f, ok := known[o.Rule+"\x00"+o.Key]; ok {
			fmt.Printf("KNOWN-FINDING: property=%s %s\n", r.Prop.ID, f.What)
			knownPrinted++
			samples = append(samples, map[string]any{"rule": o.Rule, "key": o.Key, "pos": o.Pos, "verdict": "known-finding", "witness": o.Detail})
			continue
		}
		violations++
		os.MkdirAll(replayDir, 0o755)
		path := filepath.Join(replayDir, fmt.Sprintf("%s-%s.json", r.Prop.ID, obligationID(r.Prop.ID, o)))
		rep := map[string]any{"property": r.Prop.ID, "rule": o.Rule, "key": o.Key, "pos": o.Pos, "detail": o.Detail, "configs": a.configs, "tier": r.Tier}
		b, _ := json.MarshalIndent(rep, "", "  ")
		os.WriteFile(path, append(b, '\n'), 0o644)
		fmt.Printf("VIOLATION property=%s replay=%s\n", r.Prop.ID, path)
		fmt.Printf("  rule %s  %s\n  at %s\n  %s\n", o.Rule, o.Key, o.Pos, strings.ReplaceAll(o.Detail, "\n", "\n  "))
		samples = append(samples, map[string]any{"rule": o.Rule, "key": o.Key, "pos": o.Pos, "verdict": "VIOLATION", "witness": o.Detail})
	}

	selfTestFailed := false
	killed, stale, survived, quiet, falseAlarms, limitations := 0, 0, 0, 0, 0, 0
	for _, m := range r.Mutants {
		switch m.Status {
		case "killed":
			killed++
		case "stale":
			stale++
		case "limitation":
			limitations++
			fmt.Printf("KNOWN-LIMITATION property=%s variant=%s %s\n", r.Prop.ID, m.Name, tail(m.Detail, 400))
		case "quiet":
			quiet++
		case "false-alarm":
			falseAlarms++
			selfTestFailed = true
			fmt.Printf("SELFTEST-FALSE-ALARM property=%s variant=%s %s\n", r.Prop.ID, m.Name, m.Detail)
		default:
			survived++
			selfTestFailed = true
			fmt.Printf("SELFTEST-MISS property=%s mutant=%s rule=%s status=%s %s\n", r.Prop.ID, m.Name, m.Rule, m.Status, m.Detail)
		}
	}

	var rules []string
	for ru := range perRule {
		rules = append(rules, ru)
	}
	sort.Strings(rules)
	ruleCounts := map[string]any{}
	for _, ru := range rules {
		ruleCounts[ru] = map[string]int{"obligations": perRule[ru][0], "discharged": perRule[ru][1]}
	}

	cov := map[string]any{
		"explanation":         r.Prop.Explanation,
		"rule":                r.Prop.RuleText,
		"obligations":         total,
		"discharged":          discharged,
		"evaluations":         len(r.Obls),
		"distinct_nontrivial": nontrivial,
		"per_rule":            ruleCounts,
		"packages_loaded":     r.Packages,
		"functions_in_scope":  r.Functions,
		"functions_analysed":  r.FuncsSeen,
		"build_configs":       r.Configs,
		"samples":             samples,
		"known_findings":      knownPrinted,
		"checker_cmd":         fmt.Sprintf("./check %s %s", r.Prop.ID, r.Tier),
		"trusted_base":        []string{"go/types, go/packages and go/ssa of golang.org/x/tools v0.50.0 built with go1.26.8", "the rule tables under /verif/tables and in /verif/checker/props"},
	}
	if len(r.Notes) > 0 {
		cov["notes"] = r.Notes
	}
	if len(r.Mutants) > 0 {
		cov["sensitivity_suite"] = map[string]any{"mutants": len(r.Mutants) - quiet - falseAlarms - limitations, "killed": killed, "stale": stale, "survived": survived, "results": r.Mutants}
		if quiet+falseAlarms+limitations > 0 {
			cov["specificity_suite"] = map[string]any{"benign_variants": quiet + falseAlarms + limitations, "quiet": quiet, "false_alarms": falseAlarms, "documented_limitations": limitations}
		}
	}
	for k, v := range r.Cross {
		cov[k] = v
	}
	ev := Evidence{
		PropertyID:  r.Prop.ID,
		Tier:        r.Tier,
		Seed:        r.Seed,
		Level:       "other",
		Coverage:    cov,
		Assumptions: r.Prop.Assumptions,
		WallS:       time.Since(r.Start).Seconds(),
		Violations:  violations,
	}
	if ev.Assumptions == nil {
		ev.Assumptions = []string{}
	}
	os.MkdirAll(filepath.Join(outDir, "evidence"), 0o755)
	b, _ := json.MarshalIndent(ev, "", " ")
	if err := os.WriteFile(filepath.Join(outDir, "evidence", r.Prop.ID+".json"), append(b, '\n'), 0o644); err != nil {
		fmt.Fprintf(os.Stderr, "cannot write evidence: %v\n", err)
		return 2
	}

	fmt.Printf("property %s tier=%s: %d obligations, %d discharged, %d known findings, %d violations; %d packages, %d functions in scope; configs=%v; %.1fs\n",
		r.Prop.ID, r.Tier, total, discharged, knownPrinted, violations, r.Packages, r.Functions, r.Configs, ev.WallS)
	for _, ru := range rules {
		fmt.Printf("  %-8s %d/%d\n", ru, perRule[ru][1], perRule[ru][0])
	}
	if len(r.Mutants) > 0 {
		fmt.Printf("  sensitivity suite: %d mutants, %d killed, %d stale, %d survived\n", len(r.Mutants)-quiet-falseAlarms-limitations, killed, stale, survived)
		if quiet+falseAlarms+limitations > 0 {
			fmt.Printf("  specificity suite: %d behaviour-preserving variants, %d quiet, %d false alarms, %d documented limitations\n", quiet+falseAlarms+limitations, quiet, falseAlarms, limitations)
		}
	}
	if violations > 0 {
		return 1
	}
	if selfTestFailed {
		return 3
	}
	return 0
}

// TypeString renders a type relative to the module.
func TypeString(t types.Type) string {
	return types.TypeString(t, func(p *types.Package) string {
		return strings.TrimPrefix(strings.TrimPrefix(p.Path(), Module+"/"), Module)
	})
}

