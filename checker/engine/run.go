package engine

import (
	"bytes"
	"encoding/json"
	"flag"
	"fmt"
	"os"
	"os/exec"
	"path/filepath"
	"runtime"
	"strconv"
	"strings"
	"sync"
	"time"
)

// subResult is what a sub-process (one configuration or one mutant) reports.
type subResult struct {
	Obls      []Obligation `json:"obls"`
	Packages  int          `json:"packages"`
	Functions int          `json:"functions"`
	FuncsSeen int          `json:"funcs_seen"`
	Notes     []string     `json:"notes"`
	Err       string       `json:"err,omitempty"`
}

var defaultConfigs = []string{"linux/amd64", "linux/386", "darwin/amd64", "windows/amd64", "windows/386"}

// runOne runs the property once, in process.
func runOne(p *Property, tier, repo, verif, config string, overlay map[string][]byte) subResult {
	c := &Ctx{Prop: p, Tier: tier, RepoDir: repo, VerifDir: verif, Config: config, Overlay: overlay}
	if err := c.Load(); err != nil {
		return subResult{Err: err.Error()}
	}
	c.Rule("run", func() { p.Run(c) })
	if tier == "thorough" && p.Thorough != nil {
		c.Rule("run-thorough", func() { p.Thorough(c) })
	}
	c.finish()
	return subResult{Obls: c.Obls, Packages: c.ModulePkgCount(), Functions: c.NFuncs, FuncsSeen: len(c.funcsSeen), Notes: c.Notes}
}

func loadFailure(p *Property, config, msg string) Obligation {
	return Obligation{Rule: "load", Key: "undecided:load-failed", OK: false, Detail: msg, Config: config}
}

// Main is the entry point of the verifcheck binary.
func Main() int {
	prop := flag.String("prop", "", "property id")
	tier := flag.String("tier", "quick", "quick or thorough")
	repo := flag.String("repo", "/repo", "repository root")
	verif := flag.String("verif", "/verif", "verification root")
	replay := flag.String("replay", "", "replay file: re-evaluate only this obligation")
	sub := flag.String("sub", "", "internal: run one configuration and print JSON")
	mutant := flag.String("mutant", "", "internal: name of the mutant to apply in -sub mode")
	list := flag.Bool("list", false, "list properties")
	nomut := flag.Bool("no-mutants", false, "thorough tier without the sensitivity suite")
	onlyMutants := flag.String("only-mutant", "", "run only this mutant of the sensitivity suite (debugging)")
	noBenign := flag.Bool("no-benign", false, "thorough tier: skip the behaviour-preserving variants (debugging)")
	onlyBenign := flag.Bool("only-benign", false, "thorough tier: run only the behaviour-preserving variants (debugging)")
	flag.Parse()
	if *list {
		for _, id := range IDs() {
			fmt.Println(id)
		}
		return 0
	}
	p := Lookup(*prop)
	if p == nil {
		fmt.Fprintf(os.Stderr, "unknown property %q\n", *prop)
		return 2
	}
	if t := os.Getenv("VERIF_TIER"); t != "" && !isFlagSet("tier") {
		*tier = t
	}
	if *tier != "quick" && *tier != "thorough" {
		fmt.Fprintf(os.Stderr, "unknown tier %q\n", *tier)
		return 2
	}
	seed := 0
	if s := os.Getenv("VERIF_SEED"); s != "" {
		seed, _ = strconv.Atoi(s)
	}
	absRepo, _ := filepath.Abs(*repo)
	absVerif, _ := filepath.Abs(*verif)
	if err := loadVariants(p, absVerif); err != nil {
		fmt.Fprintf(os.Stderr, "variants/benign.json: %v\n", err)
		return 2
	}

	if *sub != "" {
		config := *sub
		if config == "default" {
			config = ""
		}
		var overlay map[string][]byte
		if *mutant != "" {
			var m *Mutant
			for i := range p.Mutants {
				if p.Mutants[i].Name == *mutant {
					m = &p.Mutants[i]
				}
			}
			for i := range p.Benign {
				if p.Benign[i].Name == *mutant {
					m = &p.Benign[i]
				}
			}
			if m == nil {
				json.NewEncoder(os.Stdout).Encode(subResult{Err: "unknown mutant"})
				return 0
			}
			overlay = map[string][]byte{}
			edits := append([]Edit{{File: m.File, Old: m.Old, New: m.New}}, m.More...)
			for _, e := range edits {
				path := filepath.Join(absRepo, e.File)
				src, ok := overlay[path]
				if !ok {
					var err error
					src, err = os.ReadFile(path)
					if err != nil {
						json.NewEncoder(os.Stdout).Encode(subResult{Err: "stale"})
						return 0
					}
				}
				if strings.Count(string(src), e.Old) != 1 {
					json.NewEncoder(os.Stdout).Encode(subResult{Err: "stale"})
					return 0
				}
				overlay[path] = []byte(strings.Replace(string(src), e.Old, e.New, 1))
			}
		}
		res := runOne(p, *tier, absRepo, absVerif, config, overlay)
		json.NewEncoder(os.Stdout).Encode(res)
		return 0
	}

	start := time.Now()
	rr := &RunResult{Prop: p, Tier: *tier, Seed: seed, Start: start, VerifDir: absVerif}

	if *tier == "quick" || *replay != "" {
		res := runOne(p, "quick", absRepo, absVerif, "", nil)
		if *replay != "" {
			return doReplay(p, res, *replay)
		}
		rr.Configs = []string{runtime.GOOS + "/" + runtime.GOARCH}
		if res.Err != "" {
			rr.Obls = append(rr.Obls, loadFailure(p, "", res.Err))
		}
		rr.Obls = append(rr.Obls, res.Obls...)
		rr.Packages, rr.Functions, rr.FuncsSeen, rr.Notes = res.Packages, res.Functions, res.FuncsSeen, res.Notes
		return rr.Finish()
	}

	// thorough: every configuration in its own process, then the mutants.
	self, err := os.Executable()
	if err != nil {
		fmt.Fprintln(os.Stderr, err)
		return 2
	}
	configs := p.Configs
	if len(configs) == 0 {
		configs = defaultConfigs
	}
	runSub := func(config, mut string) subResult {
		args := []string{"-prop", p.ID, "-tier", "thorough", "-repo", absRepo, "-verif", absVerif, "-sub", config}
		if mut != "" {
			args = append(args, "-mutant", mut)
		}
		cmd := exec.Command(self, args...)
		var out, errb bytes.Buffer
		cmd.Stdout, cmd.Stderr = &out, &errb
		if err := cmd.Run(); err != nil {
			return subResult{Err: fmt.Sprintf("sub-process failed: %v: %s", err, tail(errb.String(), 2000))}
		}
		var res subResult
		if err := json.Unmarshal(out.Bytes(), &res); err != nil {
			return subResult{Err: fmt.Sprintf("sub-process output unreadable: %v: %s", err, tail(out.String()+errb.String(), 2000))}
		}
		return res
	}
	par := 4
	if p.NeedSSA && len(p.Patterns) == 1 && p.Patterns[0] == "./..." {
		par = 3
	}
	if n, err := strconv.Atoi(os.Getenv("VERIF_PAR")); err == nil && n > 0 {
		par = n
	}
	sem := make(chan struct{}, par)
	var mu sync.Mutex
	var wg sync.WaitGroup
	cfgResults := make([]subResult, len(configs))
	for i, cfg := range configs {
		wg.Add(1)
		go func() {
			defer wg.Done()
			sem <- struct{}{}
			defer func() { <-sem }()
			cfgResults[i] = runSub(cfg, "")
		}()
	}
	var mutants []Mutant
	benign := map[string]bool{}
	if !*nomut {
		for _, m := range p.Mutants {
			if (*onlyMutants == "" || *onlyMutants == m.Name) && !*onlyBenign {
				mutants = append(mutants, m)
			}
		}
		for _, m := range p.Benign {
			if (*onlyMutants == "" || *onlyMutants == m.Name) && !*noBenign {
				mutants = append(mutants, m)
				benign[m.Name] = true
			}
		}
	}
	mres := make([]MutantResult, len(mutants))
	for i, m := range mutants {
		wg.Add(1)
		go func() {
			defer wg.Done()
			sem <- struct{}{}
			defer func() { <-sem }()
			res := runSub("default", m.Name)
			r := MutantResult{Name: m.Name, Rule: m.Rule}
			switch {
			case res.Err == "stale":
				r.Status = "stale"
				r.Detail = "anchor text of the mutant no longer present exactly once in " + m.File
			case res.Err != "":
				r.Status = "error"
				r.Detail = tail(res.Err, 600)
			case benign[m.Name]:
				r.Status = "quiet"
				var fired []string
				for _, o := range res.Obls {
					if !o.OK {
						fired = append(fired, o.Rule+" "+o.Key+": "+tail(o.Detail, 200))
					}
				}
				if len(fired) > 0 {
					r.Status = "false-alarm"
					r.Detail = fmt.Sprintf("a behaviour-preserving variant made obligations fail: %v", fired)
					if m.Rule != "" {
						// a documented limitation of the checker (DESIGN.md 9.7): reported, not counted as a failure
						r.Status = "limitation"
						r.Detail = m.Rule + " — " + r.Detail
					}
				}
			default:
				r.Status = "survived"
				for _, o := range res.Obls {
					if !o.OK && o.Rule == m.Rule && strings.Contains(o.Key, m.KeyPart) {
						r.Status = "killed"
						r.Detail = o.Key + " @ " + o.Pos
						break
					}
				}
				if r.Status == "survived" {
					var fired []string
					for _, o := range res.Obls {
						if !o.OK {
							fired = append(fired, o.Rule+" "+o.Key)
						}
					}
					r.Detail = fmt.Sprintf("expected rule %s key~%q; fired: %v", m.Rule, m.KeyPart, fired)
				}
			}
			mu.Lock()
			mres[i] = r
			mu.Unlock()
		}()
	}
	wg.Wait()
	for i, res := range cfgResults {
		if res.Err != "" {
			rr.Obls = append(rr.Obls, loadFailure(p, configs[i], res.Err))
		}
		rr.Obls = append(rr.Obls, res.Obls...)
		if res.Packages > rr.Packages {
			rr.Packages = res.Packages
		}
		if res.Functions > rr.Functions {
			rr.Functions = res.Functions
		}
		if res.FuncsSeen > rr.FuncsSeen {
			rr.FuncsSeen = res.FuncsSeen
		}
		if i == 0 {
			rr.Notes = res.Notes
		}
	}
	rr.Configs = configs
	rr.Mutants = mres
	return rr.Finish()
}

func doReplay(p *Property, res subResult, path string) int {
	b, err := os.ReadFile(path)
	if err != nil {
		fmt.Fprintln(os.Stderr, err)
		return 2
	}
	var rep struct {
		Rule string `json:"rule"`
		Key  string `json:"key"`
	}
	if err := json.Unmarshal(b, &rep); err != nil {
		fmt.Fprintln(os.Stderr, err)
		return 2
	}
	if res.Err != "" {
		fmt.Printf("VIOLATION property=%s replay=%s\n  load failed: %s\n", p.ID, path, res.Err)
		return 1
	}
	found := false
	status := 0
	for _, o := range res.Obls {
		if o.Rule == rep.Rule && o.Key == rep.Key {
			found = true
			if o.OK {
				fmt.Printf("replay %s %s: obligation now HOLDS at %s\n  %s\n", o.Rule, o.Key, o.Pos, o.Detail)
			} else {
				fmt.Printf("VIOLATION property=%s replay=%s\n  rule %s  %s\n  at %s\n  %s\n", p.ID, path, o.Rule, o.Key, o.Pos, o.Detail)
				status = 1
			}
		}
	}
	if !found {
		fmt.Printf("replay %s %s: no such obligation on the current tree (the construct is gone or the rule no longer fails for it)\n", rep.Rule, rep.Key)
	}
	return status
}

func tail(s string, n int) string {
	if len(s) > n {
		return "…" + s[len(s)-n:]
	}
	return s
}

func isFlagSet(name string) bool {
	set := false
	flag.Visit(func(f *flag.Flag) {
		if f.Name == name {
			set = true
		}
	})
	return set
}

// loadVariants adds the behaviour-preserving variants listed for p in
// <verif>/variants/benign.json to p.Benign.
func loadVariants(p *Property, verifDir string) error {
	b, err := os.ReadFile(filepath.Join(verifDir, "variants", "benign.json"))
	if err != nil {
		if os.IsNotExist(err) {
			return nil
		}
		return err
	}
	var vs []struct {
		Name  string   `json:"name"`
		Props []string `json:"props"`
		Why   string   `json:"why"`
		Limit string   `json:"limitation"`
		Edits []Edit   `json:"edits"`
	}
	if err := json.Unmarshal(b, &vs); err != nil {
		return err
	}
	for _, v := range vs {
		for _, id := range v.Props {
			if id != p.ID || len(v.Edits) == 0 {
				continue
			}
			dup := false
			for _, x := range p.Benign {
				if x.Name == v.Name {
					dup = true
				}
			}
			if !dup {
				p.Benign = append(p.Benign, Mutant{Name: v.Name, File: v.Edits[0].File, Old: v.Edits[0].Old, New: v.Edits[0].New, More: v.Edits[1:], Rule: v.Limit})
			}
		}
	}
	return nil
}
