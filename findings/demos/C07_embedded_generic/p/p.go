package p

type keyT int
type valT string
type soloT bool

type pair[K comparable, V any] struct {
	m map[K]V
}

type single[T any] struct{ v T }

type Outer struct {
	pair[keyT, valT]
	single[soloT]
}

func Use(o Outer) int { return len(o.m) + len([]any{o.v}) }
