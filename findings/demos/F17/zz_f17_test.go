package ir_test

import (
	"go/ast"
	"go/importer"
	"go/parser"
	"go/token"
	"go/types"
	"testing"

	"honnef.co/go/tools/go/ir"
	"honnef.co/go/tools/go/ir/irutil"
)

// A switch over constant cases whose tag contains a value-producing && or ||.
func TestF17ConstantSwitchTagWithShortCircuit(t *testing.T) {
	const src = `package p
func f(a, b bool) int {
	switch a && b {
	case true:
		return 1
	case false:
		return 2
	}
	return 0
}
`
	fset := token.NewFileSet()
	f, err := parser.ParseFile(fset, "p.go", src, 0)
	if err != nil {
		t.Fatal(err)
	}
	pkg, _, err := irutil.BuildPackage(&types.Config{Importer: importer.Default()}, fset, types.NewPackage("p", ""), []*ast.File{f}, 0)
	if err != nil {
		t.Fatal(err)
	}
	fn := pkg.Func("f")
	for _, b := range fn.Blocks {
		n := 0
		for i, instr := range b.Instrs {
			switch instr.(type) {
			case *ir.If, *ir.Jump, *ir.Return, *ir.Panic, *ir.Unreachable, *ir.ConstantSwitch:
				n++
				if i != len(b.Instrs)-1 {
					t.Errorf("block %d (%s): control instruction %T at position %d of %d", b.Index, b.Comment, instr, i, len(b.Instrs))
				}
			}
		}
		if n != 1 {
			t.Errorf("block %d (%s) has %d terminators", b.Index, b.Comment, n)
		}
		for _, s := range b.Succs {
			found := false
			for _, p := range s.Preds {
				if p == b {
					found = true
				}
			}
			if !found {
				t.Errorf("block %d -> %d: successor does not list it as predecessor", b.Index, s.Index)
			}
		}
	}
	if t.Failed() {
		fn.WriteTo(testWriter{t})
	}
}

type testWriter struct{ t *testing.T }

func (w testWriter) Write(p []byte) (int, error) { w.t.Log(string(p)); return len(p), nil }
