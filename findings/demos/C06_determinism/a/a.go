package a

import "fmt"

func unuseda() {}

func F() string { return fmt.Sprintf("%s", "x") }

func G(x int) bool { if x == x { return true }; return false }
