package f

import "fmt"

func unusedf() {}

func F() string { return fmt.Sprintf("%s", "x") }

func G(x int) bool { if x == x { return true }; return false }
