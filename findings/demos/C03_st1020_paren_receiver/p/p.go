// Package p is a test.
package p

// T is a type.
type T int

// Foo does something.
func (t (T)) Foo() {}

// Bar does something.
func (t *(T)) Bar() {}
