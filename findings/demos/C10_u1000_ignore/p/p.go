package p

//lint:ignore U1000 exact name
func a() {}

//lint:ignore u1000 lower-case name
func b() {}

//lint:ignore U1* glob
func c() {}

//lint:ignore U1000
func d() {}

func e() {}
