package p

import "fmt"

func H() (err error) {
	defer func() {
		if r := recover(); r != nil {
			err = fmt.Errorf("%v", r)
		}
	}()
	return nil
}

func G() any {
	r := recover()
	return r
}

func K() error {
	if r := recover(); r != nil {
		return r.(error)
	}
	return nil
}
