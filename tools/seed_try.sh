#!/bin/bash
# usage: tools/seed_try.sh <ID> [prop]   — applies /tmp/seedwork/<ID>/patch.diff to a scratch worktree and runs the property's quick check against it
. /verif/env.sh
id=$1; prop=${2:-${id:0:3}}
wt=/tmp/seedtry/$id
rm -rf $wt; git -C /repo worktree prune
git -C /repo worktree add -q --detach $wt HEAD >/dev/null 2>&1 || exit 2
git -C $wt apply /tmp/seedwork/$id/patch.diff || { echo PATCH-FAIL; git -C /repo worktree remove --force $wt; exit 2; }
VERIF_REPO=$wt VERIF_OUT=/tmp/seedtry/out-$id /verif/check $prop quick 2>&1 | grep -E "^VIOLATION|^  rule|^  at|^property|undecided" | cut -c1-300
git -C /repo worktree remove --force $wt; rm -rf /tmp/seedtry/out-$id
