#!/bin/bash
# usage: tools/seed_matrix.sh [seed-dir-name ...]
# Applies every stored seeded change to its own scratch worktree of /repo (HEAD), runs the quick check of the
# property it breaks against that worktree (VERIF_REPO), prints CAUGHT/MISSED with the failing rule keys,
# and removes the worktree again. Never touches /repo's working tree.
cd "$(dirname "$0")/.." || exit 2
. ./env.sh
here=$(pwd)
# make sure the binary is current before running in parallel
./check C09 quick >/dev/null 2>&1
seeds=${*:-$(ls seeded)}
one() {
  s=$1; here=$2
  prop=$(python3 -c "import json;print(json.load(open('$here/seeded/$s/meta.json'))['property'])")
  wt=/tmp/seedmatrix/$s
  rm -rf $wt; git -C /repo worktree prune
  git -C /repo worktree add -q --detach $wt HEAD >/dev/null 2>&1 || { echo "$s WORKTREE-FAIL"; return; }
  if ! git -C $wt apply $here/seeded/$s/patch.diff 2>/dev/null; then echo "$s PATCH-FAIL"; git -C /repo worktree remove --force $wt; return; fi
  out=$(VERIF_REPO=$wt VERIF_OUT=/tmp/seedmatrix/out-$s $here/check $prop quick 2>&1); rc=$?
  keys=$(echo "$out" | grep -E '^(FAIL|VIOLATION)' | sed -E 's/replay=.*//' | head -4 | tr '\n' ';')
  fails=$(echo "$out" | grep -E '^ *(fail|FAIL|violated)' | head -3 | cut -c1-200 | tr '\n' ';')
  if [ $rc -eq 0 ]; then echo "$s $prop MISSED"; else echo "$s $prop CAUGHT rc=$rc $fails $keys"; fi
  git -C /repo worktree remove --force $wt; rm -rf /tmp/seedmatrix/out-$s
}
export -f one
printf '%s\n' $seeds | xargs -P 6 -I{} bash -c "one {} $here" | sort
