#!/bin/sh
# usage: tools/run_all.sh [quick|thorough]   — runs every registered check and validates the evidence files
cd "$(dirname "$0")/.." || exit 2
tier=${1:-quick}
fail=0
for id in $(python3 -c "import json;print(' '.join(c['property_id'] for c in json.load(open('MANIFEST.json'))['checks']))"); do
  start=$(date +%s)
  out=$(./check "$id" "$tier" 2>&1); rc=$?
  end=$(date +%s)
  echo "$id rc=$rc $((end-start))s $(echo "$out" | grep '^property ' | cut -c1-160)"
  if [ $rc -ne 0 ]; then fail=1; echo "$out" | grep -E "VIOLATION|SELFTEST|undecided" | head -10; fi
done
python3-vt - <<'P' || fail=1
import json, jsonschema, glob, sys
s=json.load(open('/root/.vp/EVIDENCE.schema.json'))
m=json.load(open('MANIFEST.json')); jsonschema.validate(m, json.load(open('/root/.vp/MANIFEST.schema.json')))
bad=0
for c in m['checks']:
    try:
        e=json.load(open(c['evidence_file'])); jsonschema.validate(e,s)
        assert e['property_id']==c['property_id']
    except Exception as ex:
        print("EVIDENCE INVALID", c['property_id'], str(ex)[:200]); bad=1
print("manifest + %d evidence files valid" % len(m['checks']) if not bad else "evidence problems")
sys.exit(bad)
P
exit $fail
