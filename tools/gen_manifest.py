#!/usr/bin/env python3
"""Generates /verif/MANIFEST.json from the table below (one entry per property)."""
import json, os, sys
here = os.path.dirname(os.path.dirname(os.path.abspath(__file__)))

CLAIMS = {
 "C05": dict(
   text="Structural necessary conditions of the cache protocol, decided on every path of the SSA control-flow graph of the current sources: data-before-index, verify-before-commit, no truncating open, validated reads, no bypass of GetFile, miss implies recompute. This is a sound 'shape' check that holds for all crash points of Put and all damaged files at once; it is not a proof of the behaviour (no interleavings, no file-system semantics). Also decided: put reports success only behind copyFile's nil-error edge (an index entry alone does not prove the data file is complete).",
   ref="§4 C05",
   note="Trusts go/ssa's CFG and go/types; assumes POSIX-like semantics of open/write listed in the evidence assumptions. Does not cover concurrent trim, GOCACHEPROG back ends, fsync/power loss.",
   technique="custom SSA path/guard analysis (must-pass-through-edge, value-origin slicing, who-may-call) over go/packages+go/ssa"),
 "C09": dict(
   text="Structural necessary conditions for atomic pattern bindings, decided on all paths of the matcher's SSA: every backtracking point is bracketed by push/pop (and merge on success), the parser's bit index reaches the returned Binding for both spellings, set/pop/merge keep State and the frame masks consistent (merge hands its mask to the enclosing frame), Parse refuses more names than the mask has bits, names are bound only on success. Not a proof that recalled subtrees are structurally equal on all trees. Also decided: the pattern returned by Parse owns its index-to-name table (fresh storage, never the parser's own table, which the next Parse on the same parser rewrites). Two node lists are compared element by element only after their lengths were found equal.",
   ref="§4 C09",
   note="Trusts go/ssa; a failure that is passed unchanged to the caller is assumed to be handled by the caller's frame (which is itself checked). One exemption (Symbol.Match's alias loop) with its reason is in the checker.",
   technique="custom SSA path analysis (dominating push, pop on every failing path) + forward/backward value-flow"),
 "C20": dict(
   text="Decides the wiring of version-restricted reporting: role of each Options field derived from report.Report's comparisons vs. the constructor that writes it; the -go flag's value-origin chain down to types.Config.GoVersion and the cache key; FileVersions enabled; and the complete decision table of code.StdlibVersion by abstract evaluation over all orderings it can distinguish (exhaustive for that function). Also decided: StdlibVersion takes a file's own version from the raw //go:build tag (ast.File.GoVersion), not from the type checker's clamped FileVersions.",
   ref="§4 C20",
   note="Trusts go/version.Compare's documented meaning and go/types' FileVersions; does not decide what bounds individual checks pass.",
   technique="SSA value-origin (def-use) analysis + finite abstract evaluation of a comparison-only function"),
 "C19": dict(
   text="Only one clause of this property is decided. NOT decided: that the reported offsets, sizes, alignments and padding equal the compiler's for every struct type, that the listing has no gaps or overlaps, that the optimised layout is valid and never larger — all of these are run-time arithmetic against the compiler as oracle. Decided (a necessary condition of 'outputs a permutation of the input fields' and of 'covering the struct'): optimize only sorts its argument through a sort.Interface whose Swap is an exact transposition and whose Len is the whole list; pad (and structlayout's sizes) emit every input field on every path through the loop body and flag every additional element IsPadding; main prints pad's result of the list optimize sorted. Also decided (a necessary condition of 'no gaps or overlaps' for nested structs): offset arithmetic in structlayout's sizes and in pad keeps its frame of reference — offsets from the start of the outermost struct are never subtracted from, added to or compared with quantities relative to an inner struct (an abstract interpretation over two units; this is the rule that the lost trailing padding of nested structs, F20, violates).",
   ref="§4 C19",
   note="sort.Sort is trusted to call only Len/Less/Swap. gcsizes' arithmetic, Less' ordering and pad's offsets are not examined; an edit there is out of reach of this check.",
   technique="SSA must-pass-through (every loop iteration emits its element) + value-origin checks of appended elements and of the Swap stores"),
 "C13": dict(
   text="The nilness merge table is evaluated from the constant literal in the source and all four semilattice laws plus closure are enumerated exhaustively (125 triples) — a complete decision for that clause. For the solvers and the map lattices the check decides the re-enqueue pairing and pointwise-lifting shape that a least fixpoint needs (necessary conditions on every path), not termination or leastness on all graphs. In the sparse solver every instruction of every block is seeded into the worklist unconditionally (values with a preset state never re-enqueue their users).",
   ref="§4 C13",
   note="Assumes monotone transfer functions; trusts constant evaluation by go/types. The generic MapLattice laws for arbitrary element lattices are decided only structurally (keys of both operands, element merge on common keys, identity shortcut).",
   technique="constant-table evaluation from the AST with exhaustive law enumeration + SSA path rules (store ⇒ enqueue on all paths, guard edges)"),
 "C12": dict(
   text="Decides that the sort comparator refines the de-duplication key before the build name (key read from descriptor(), chain read from the comparator's AST), that mergeRuns covers every merge strategy and vetoes an 'all' problem only for runs that checked its file and lack it, over the whole runs slice, and that -f binary normalises exactly the fields the merge keys on. Structural necessary conditions; commutativity/idempotence over multisets of runs follow only informally. Also decided: the reader shared by the per-run gob decoders of -merge input implements io.ByteReader (otherwise each decoder buffers ahead privately and later runs of a stream are lost). (*linter).run leaves no state in the linter, so the runs of a -matrix are independent.",
   ref="§4 C12",
   note="Comparator idioms recognised: if a.f != b.f { return a.f < b.f } chains and cmp.Compare chains; any other idiom makes the rule report 'undecided' (fails) instead of passing.",
   technique="AST symbolic extraction of comparator/equality field chains + SSA guard-edge rules"),
 "C04": dict(
   text="Decides cache-key completeness as an effect-set inclusion: every runner/loader field read on the miss path is in the key, covered by a hashed field through a checked edge, or exempt with a reason in tables/c04_inputs.tsv; every PackageSpec field the loader reads is hashed by computeHash on both branches; ordering of hashed lists is fixed by sorting; analysis code reaches ambient inputs (env, files, clock) only at frozen call sites; miss-only result fields are restored on hits; the salt comes from the executable. A necessary condition for transparency (an input outside the key gives stale hits), not a proof that results are a function of the key. Also decided: nothing on the runner's miss path reads Config.Checks; every other Config field is written into the key; user-provided configuration lists are rendered injectively (%#v/%q, never joined with a separator).",
   ref="§4 C04",
   note="Call graph is CHA (quick) / VTA (thorough) restricted to packages linked into cmd/staticcheck; std-lib bodies are opaque; assumes the environment is fixed between compared runs as the property states; exemptions are one line per field/call site with a reason.",
   technique="interprocedural field effect sets over the call graph + value-origin slices of hash writes + who-may-call tables"),
 "C06": dict(
   text="Structural necessary conditions of deterministic, race-free linting, decided over the whole module: worker-reachable writes to package-level variables are lock-held; the dependency counter/statistics are atomic-only; handlers write only their own action and never the graph shape; in genericHandle all writes precede the releasing decrement and enqueueing happens only on the decrement reaching zero; every map-ordered slice in the output pipeline is sorted before use or listed with a reason; the print comparator is total over printed and de-duplicated fields. Not a race detector: it decides ownership/ordering shape, not all interleavings. Also decided: filterIgnored tests every directive against every problem, so its outcome does not depend on the map-iteration order in which directives arrive. A handler releases its worker slot before it sends ready dependents to the unbuffered queue.",
   ref="§4 C06",
   note="Call graph VTA∘CHA with callback over-approximation, restricted to code linked into cmd/staticcheck; Go memory model for atomics/channels assumed; exemptions one per symbol in tables/c06_order.tsv. Observation (not decided): -f binary bytes differ between a cold and a warm run because encoding/gob assigns type ids process-globally; decoded content is identical.",
   technique="lock-held dominance + happens-before path queries on SSA, map-order taint with sort sanitisers, comparator-chain extraction"),
 "C18": dict(
   text="Decides the locking/once-only shape that parallel IR building relies on: guarded-by pairs are derived from the struct declarations and every guarded access is lock-held (here or at all call sites); Package.build runs only via buildOnce.Do; each memo table of shared functions is filled only on its own miss edge with the freshly created, task-owned, enqueued function and a hit registers a wait; every builder is iterated on all paths and iterate marks done before waiting; Function.build is cleared only by done. Necessary conditions for 'created exactly once, fully built when Build returns, race-free'; it does not compare IR across builds. Also decided: lookup and insertion of a memo are one critical section (the mutex held at the lookup is not released before the insertion).",
   ref="§4 C18",
   note="Lock identity is by mutex field name within a function (path-insensitive about which object); Go memory model assumed; the task-graph wait algorithm itself is not decided.",
   technique="guarded-by inference from declarations + lock-held dominance + guard-edge/must-pass path rules on SSA"),
 "C10": dict(
   text="Decides the guard structure of ignore directives on every path: match requires file (and line) equality and a case-folded glob match; reason-less directives never become ignores (linter and U1000) and are errors in the compile category; 'ignored' is set only on the true edge of match; the unmatched-directive problem only for unmatched line ignores naming an enabled check, never U1000; directive and problem positions come from the same position function and file set; U1000 uses the same name predicate as the linter. Structural necessary conditions; comment attachment (ast.CommentMap) and glob semantics are trusted. Also decided: directives are recognised by looking at every comment of a comment group (never a fixed position of the group), and filterIgnored tests every directive against every problem. Whether a useless directive is reported is decided with glob matching against the enabled checks, and U1000 neither decides nor reports (independent of its position in the list).",
   ref="§4 C10",
   note="Trusts path/filepath.Match and ast.NewCommentMap; 'same predicate' is decided as 'filepath.Match on lower-cased operands' at both sites.",
   technique="guard-edge (must-pass-through-edge) analysis and value-origin checks on SSA"),
 "C07": dict(
   text="Decides one necessary clause of U1000's deletion safety for all programs at once: every child of every syntax node kind handled by the use-graph walkers that can hold an identifier is visited (91 walker × node-type × field pairs derived from go/ast's struct definitions), and unknown kinds panic instead of being skipped. This rule found the embedded-generic-type-argument defect. It does not decide the usage rules themselves, nor that every zero-reference object is reported. Also decided: records found in types.Info.Selections are handed to the function that marks the implicit embedded-field path on every path (method expressions included), and that function marks every field of the path and the selected object.",
   ref="§4 C07",
   note="'Visited' is decided as 'the field is mentioned in the clause or in the graph method the node is delegated to'; go/ast's field types are the oracle for where identifiers can occur. Two exemptions (labels) with reasons are in the checker.",
   technique="type-checked AST child-coverage analysis of type-switch clauses"),
 "C17": dict(
   text="Decides structural necessary conditions of order independence and variant merging: map-loop bodies in package unused affect the graph only through monotone accumulators that never shrink; U1000 verdicts are emitted only after all results were merged, only under not-used-in-any-variant, 'used' is never overwritten and is recorded for every variant; used/unused keys are built from the same origins. Does not decide monotonicity of the usage rules under added references. Also decided: no map in package unused is keyed by the printed form of a go/types type or object (not injective: generic interfaces with equally named type parameters print alike). Every element of a variant's Used list is entered into the cross-variant map (no filtering by name or kind).",
   ref="§4 C17",
   note="Assumes reachability over an edge set is insertion-order independent; effect sets are closed over static callees within package unused.",
   technique="field effect sets + map-loop body analysis + guard-edge rules on SSA"),
 "C03": dict(
   text="Decides, for all programs at once, that no 'unhandled kind' panic is reachable for the closed kinds the code switches on: 42 must-panic type switches are decided against the full universe of implementors (IR instructions constructed by go/ir, go/ast statement/expression/declaration kinds, go/types types), against the inspector filter that feeds them, or against a frozen reviewed case set; builtin-name switches against go/types' universe; unchecked assertions in inspector callbacks against their filter; the type checker's Go version is never pinned. Adding an IR instruction kind, deleting a case or widening a filter is reported with the switch and the kind. Does not decide arbitrary panics or analyzer errors. Also decided: lookups in go/ir's object-keyed tables use origin objects when the key comes out of a method set or selection; switches over operator tokens with a panicking default are complete for the operator universe of their source (an IR comparison handled only for == and != must be guarded by (*ir.Const).IsNil) — this found the crash on `x < zero` for a type parameter's zero value. A handler releases its worker slot before it blocks on the unbuffered package queue (termination with few workers).",
   ref="§4 C03",
   note="Case-set sites (universe from grammar/type-checker invariants, one reviewed line each in tables/c03_switches.tsv) only detect the loss of a case; a new must-panic switch must be classified before the check passes (fails loudly rather than silently).",
   technique="exhaustiveness analysis of type/string switches against universes computed from go/types, inspector filters and reviewed tables"),
 "C08": dict(
   text="Decides that the three pre-filters are over-approximations by construction: entry-node table vs. node kinds (evaluated from the table literal), classification of every matcher kind, negative/optional polarity in collectSymbols, CouldMatchAny's coverage of collectSymbols' result kinds, the conditions under which the call index replaces the traversal, and — over all 90 pattern constants of the module, read with a small reader of the pattern language — that every symbol the package rejection requires is resolvable by the index. Necessary conditions; equivalence of the two search strategies on all programs (third-package aliases, wrapper nodes) is not decided. Also decided: the type index's package table, from which every symbol lookup starts, covers the package of every used object (methods and fields of packages that are not imported directly), not only the imports. Index.Calls' ascent from the callee's name to the call is cumulative (selector step, then instantiation step), so qualified and explicitly instantiated callees are enumerated.",
   ref="§4 C08",
   note="The pattern reader re-implements only the requirement algebra (And/Or/Any) documented for SymbolsPattern; typeindex is trusted to find all direct references.",
   technique="table-literal evaluation + case-set and value-origin analysis + static evaluation of all pattern constants"),
 "C11": dict(
   text="Decides the structural part of selection/config/exit-status/format agreement: field-by-field agreement of Config with Merge (receiver-first, same field) and Load; the 'inherit' splice position; the outermost-first collection/reversal/left-fold of configuration files and command-line-over-package merge direction; the guards of the exit status (counted only when not ignored and in the fail set or compile/config/staticcheck; never 1 for SARIF); that no formatter filters and all share one list; that -checks and -fail use one resolver over one universe. The left-to-right algebra of check lists (globs, negation) over all inputs is string semantics and is not decided. Also decided: nothing the runner executes when it has to analyse a package — including function values handed to it — reads the check selection (all analyzers always run; selection is applied afterwards).",
   ref="§4 C11",
   note="Narrow: most regressions inside filterAnalyzerNames' string handling are out of reach of these rules; the TOML decoder is trusted.",
   technique="field-exhaustiveness cross-check (types vs. AST/SSA) + guard-edge and value-origin rules"),
 "C14": dict(
   text="Exactness of Lengauer–Tarjan on all CFGs is not decided. Decided: the dominator tree is built on the final CFG (nothing reachable from the calls after buildDomTree writes Preds/Succs/Index/Blocks; optimizeBlocks precedes it; no exported function statically reaches a CFG mutator), dominance fields have a single writer family, and the pre/post numbering order in numberDomTree matches the comparison directions in Dominates with both roots numbered. Also decided: Lengauer–Tarjan's vertex orders — steps 2/3 visit the DFS numbering in decreasing order and link afterwards; step 4 resolves deferred immediate dominators in increasing DFS number.",
   ref="§4 C14",
   note="Weak: an error inside the algorithm (semidominator computation, bucket handling) is out of reach of these rules.",
   technique="field effect sets over the static call graph + ordering queries on SSA"),
 "C15": dict(
   text="Soundness w.r.t. executions is not decided. Decided: the absorbing element of the merge table is computed from the source and every 'don't know' funnel (pointer-like default, normalisation, function without fact, unknown/under-described callee, parameters, free variables) yields it in both components; bail-outs return the signature default; results are joined over all returns; facts are exported only after solving and normalising; SA4023 tests only definite facts. Also decided, after four genuine defects were found there: the dense solver's re-enqueue pairing (shared with C13); the φ-nodes of a block are evaluated in parallel (all incoming values read before any φ is updated); state.get returns a recorded slot only after testing that something was recorded, so the per-kind defaults always apply; a conversion copies the operand's nilness only under IsPointerLike(operand).",
   ref="§4 C15",
   note="Weak: the truth of each transfer rule (e.g. 'dereference implies non-nil') is assumed; instruction/builtin coverage is decided under C03.",
   technique="constant struct-literal evaluation from SSA stores + guard-edge/dominance rules + merge-table evaluation"),
 "C16": dict(
   text="Narrow structural part only: diagnostics have one producer (report.Report) whose Pos/End come from one getRange call on the reported node, getRange/shortRange anchor start and end in the same node; every analysis.TextEdit literal takes Pos and End from one ranger (or End = Pos + length); the runner converts all six positions with the same //line-aware function and file set, each from its matching source field; fixes and related information are forwarded unchanged. Whether edits parse, type-check or preserve behaviour is not decided. Also decided: the functions that render syntax with go/format hand the printer's output on verbatim (no line folding, trimming or replacing of text that is spliced into fixes). Also decided: code.MayHaveSideEffects never answers 'no' on a path that skipped an operand its clause examines elsewhere; astutil.Equal pairs every part of a with the same part of b and compares every child that holds syntax (the gate and the equality used by the rewrites that merge or duplicate expressions).",
   ref="§4 C16",
   note="Manually built edit.Range{a, b} pairs (12 sites) and all replacement texts are outside these rules.",
   technique="who-may-construct/who-may-call rules + Pos/End value-origin pairing on SSA"),
 "C02": dict(
   text="Decides structural necessary conditions of well-formed IR for all programs: Operands yields exactly the operand-holding fields of every instruction type (50 types, from the struct definitions); every removal of an instruction from a block detaches it from each operand's referrer list unless that operand is the lifted cell deleted in the same pass (per operand field); every locally created register instruction is typed on all paths before emit; control instructions are created only with the matching number of addEdge calls; φs get one slot per predecessor. Def-dominates-use and per-instruction typing of the builder's output are not decided. Also decided: a block saved from fn.currentBlock to be emitted into later (switch headers) cannot have been terminated by lowering in between (found and led to the repair of the malformed IR for `switch a && b {…}`). The block optimisations (jump threading, block fusion) never edit the graph after hasPhi() answered true for the block concerned, and each of them asks.",
   ref="§4 C02",
   note="Two reviewed exemptions (jumpThreading's degenerate If→Jump, the ssa:deferstack call) are in the checker with reasons.",
   technique="struct-field vs. method agreement (go/types + SSA) and must-pass-through path rules"),
 "C01": dict(
   text="Translation correctness over programs × inputs is not decided (that needs translation validation). Decided are structural necessary conditions for the lifted form to equal the naive form: Operands exposes every operand-holding field (lifting rewrites uses through it); lifting treats as liftable exactly Load, DebugRef and Store-into-the-cell users, with every other and every future kind falling into the unliftable default; renaming deletes only the lifted cell, stores to it and loads/debug refs of it. Also decided: the 'location is already zero' flag that lets assign/compLit skip the clearing store of an empty or sparse composite literal is false, forwarded, or set next to the allocation of its target (a short variable declaration can re-declare existing variables). The block optimisations give up, before any edit, once hasPhi() answered true for the block concerned (threading into or fusing a φ-block changes which value the φ selects).",
   ref="§4 C01",
   note="Weak: builder lowering, φ placement, liveness pruning and block optimisation are outside these rules; no oracle beyond the structural rules.",
   technique="type-switch case analysis with path-sensitive flag evaluation + guard-edge rules on SSA"),
}

NOT_APPLICABLE = {
}

PENDING = "check under construction in this round (designed in DESIGN.md §4, not yet registered)"

def main():
    props = [json.loads(l)["id"] for l in open(os.path.join(here, "properties.jsonl"))]
    checks = []
    na = []
    for pid in props:
        if pid in CLAIMS:
            c = CLAIMS[pid]
            checks.append({
                "property_id": pid,
                "quick_cmd": f"./check {pid} quick",
                "thorough_cmd": f"./check {pid} thorough",
                "evidence_file": f"/verif/evidence/{pid}.json",
                "replay_cmd_template": f"./check {pid} --replay {{path}}",
                "engine": "verifcheck",
                "level_claimed": {"category": "other", "text": c["text"], "design_ref": c["ref"]},
                "level_note": c["note"],
                "technique": c["technique"],
            })
        elif pid in NOT_APPLICABLE:
            na.append({"property_id": pid, "reason": NOT_APPLICABLE[pid]})
        else:
            na.append({"property_id": pid, "reason": PENDING})
    m = {
        "version": 1,
        "setup_cmd": ". ./env.sh && cd checker && go build -o bin/verifcheck ./cmd/verifcheck",
        "hooks": {
            "guard": "verif",
            "enable": "no hooks: the checks read /repo's sources and need no instrumentation (build tag 'verif' is reserved and unused)",
            "baseline_off_cmd": "cd /repo && export PATH=/opt/veriftools/go1.26.8/bin:$PATH GOTOOLCHAIN=local GOFLAGS=-mod=mod GOPROXY=off GOSUMDB=off && go test -json -vet=off -count=1 -timeout 25m ./...",
            "source_commits": [],
            "add_only": True,
        },
        "engines": [{
            "name": "verifcheck",
            "path": "/verif/checker",
            "serves_properties": [c["property_id"] for c in checks],
            "kind_free_text": "repo-specific static analyzer (Go, golang.org/x/tools v0.50.0: go/packages, go/types, go/ssa, callgraph) — one sub-command per property; quick = rules on the default build configuration, thorough = five GOOS/GOARCH configurations + in-memory mutant sensitivity suite",
        }],
        "checks": checks,
        "not_applicable": na,
        "notes": "All checks are static: nothing executes go-tools code. Repairs of genuine defects found by the rules are 'fix:' commits in /repo and are listed in /verif/known_findings.json. See DESIGN.md.",
    }
    json.dump(m, open(os.path.join(here, "MANIFEST.json"), "w"), indent=1)
    print("checks:", len(checks), "not_applicable:", len(na))

main()
