#!/usr/bin/env python3
"""seed_store.py <ID> <dir-name> <caught-by text> -- store a confirmed seeded change under /verif/seeded/<dir-name>/.
Reads /tmp/seedwork/<ID>/{patch.diff,meta.json,demo/} and /tmp/seedaside/verify_<ID>.log (output of tools/seed_verify.sh)."""
import json, os, shutil, sys
sid, name, caught = sys.argv[1], sys.argv[2], sys.argv[3]
src = f"/tmp/seedwork/{sid}"
dst = f"/verif/seeded/{name}"
os.makedirs(dst, exist_ok=True)
shutil.copy(f"{src}/patch.diff", f"{dst}/patch.diff")
if os.path.isdir(f"{dst}/demo"):
    shutil.rmtree(f"{dst}/demo")
shutil.copytree(f"{src}/demo", f"{dst}/demo")
meta = json.load(open(f"{src}/meta.json"))
log = open(f"/tmp/seedaside/verify_{sid}.log").read().splitlines()
keep = [l for l in log if l.startswith(("changed pkgs", "dependent packages", "suite non-ok", "--- demo", "demo-with", "demo-without", "DEMOS"))]
out = {
    "property": meta.get("property", sid[:3]),
    "breaks": meta.get("summary"),
    "needs_to_manifest": meta.get("needs"),
    "files_changed": meta.get("files"),
    "author": "independent sub-agent given only the property text and a scratch worktree",
    "author_ran": meta.get("ran"),
    "confirmed_by_me": {
        "how": "tools/seed_verify.sh in a scratch worktree of /repo (HEAD with all fix: commits): go build ./...; go test of every package whose test binary depends on a changed package, demonstration set aside; demonstration with the change; demonstration with the change reverted",
        "log": keep,
    },
    "check_result_with_patch_applied_to_repo": caught,
    "apply": "git -C /repo apply /verif/seeded/%s/patch.diff; ./check %s quick; git -C /repo checkout -- ." % (name, meta.get("property", sid[:3])),
}
json.dump(out, open(f"{dst}/meta.json", "w"), indent=1)
print("stored", dst)
