#!/bin/bash
# seed_verify.sh <ID> [patchdir]: confirm a seeded change in its scratch worktree /tmp/seed/<ID>.
# Steps: build; tests of every package depending on a changed package (demo aside); demo with; demo without.
set -u
ID=$1
SW=${2:-/tmp/seedwork/$ID}
WT=/tmp/seed/$ID
. /verif/env.sh
cd $WT || exit 2
git checkout -q -- . 2>/dev/null
# remove untracked demo files for baseline
DEMOS=$(git status --porcelain | awk '$1=="??"{print $2}')
mkdir -p /tmp/seedaside/$ID; for f in $DEMOS; do mkdir -p /tmp/seedaside/$ID/$(dirname $f); mv $f /tmp/seedaside/$ID/$f; done
git apply $SW/patch.diff || { echo "PATCH-FAIL"; exit 2; }
CHANGED=$(git diff --name-only | xargs -n1 dirname | sort -u | sed 's|^|honnef.co/go/tools/|')
echo "changed pkgs: $CHANGED"
go build ./... || { echo "BUILD-FAIL"; exit 2; }
go vet $(echo $CHANGED) >/dev/null 2>&1 || echo "note: vet complains"
# dependents
DEPS=$(go list -test -deps -f '{{if .ForTest}}{{.ForTest}}{{else}}{{.ImportPath}}{{end}} {{join .Deps " "}} {{join .Imports " "}}' ./... 2>/dev/null | awk -v ch="$CHANGED" 'BEGIN{n=split(ch,c," ")}{for(i=1;i<=n;i++){for(j=1;j<=NF;j++){if($j==c[i]){print $1;break}}}}' | grep '^honnef.co' | sort -u)
echo "dependent packages: $(echo $DEPS | wc -w)"
go test -vet=off -count=1 -timeout 60m $DEPS 2>&1 | grep -v "^ok\|no test files" > /tmp/seedaside/$ID/suite.log
echo "suite non-ok lines: $(wc -l < /tmp/seedaside/$ID/suite.log)"; head -20 /tmp/seedaside/$ID/suite.log
# restore demos
for f in $DEMOS; do mv /tmp/seedaside/$ID/$f $f; done
echo "DEMOS: $DEMOS"
