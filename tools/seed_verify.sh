#!/bin/bash
# seed_verify.sh <ID> <go-test-args-for-demo...>
# Confirms a seeded change in its scratch worktree /tmp/seed/<ID>:
#   build; tests of every package whose test binary depends on a changed package (demo set aside);
#   demo with the change (must fail); demo without the change (must pass).
set -u
ID=$1; shift
SW=/tmp/seedwork/$ID
WT=/tmp/seed/$ID
. /verif/env.sh
cd $WT || exit 2
OUT=/tmp/seedaside/$ID; mkdir -p $OUT
git checkout -q -- . 2>/dev/null
DEMOS=$(git status --porcelain | awk '$1=="??"{print $2}')
for f in $DEMOS; do mkdir -p $OUT/$(dirname $f); mv $f $OUT/$f; done
git apply $SW/patch.diff || { echo "PATCH-FAIL"; exit 2; }
CHANGED=$(git diff --name-only | xargs -n1 dirname | sort -u | sed 's|^|honnef.co/go/tools/|')
echo "changed pkgs: $CHANGED"
go build ./... || { echo "BUILD-FAIL"; exit 2; }
DEPS=$(go list -test -f '{{.ImportPath}}|{{join .Deps " "}}' ./... 2>/dev/null | awk -F'|' -v ch="$CHANGED" 'BEGIN{n=split(ch,c," ")}{m=split($2,d," ");hit=0;for(j=1;j<=m&&!hit;j++){for(i=1;i<=n;i++){if(d[j]==c[i]||index(d[j],c[i]" [")==1){hit=1;break}}} split($1,nm," "); for(i=1;i<=n;i++){if(nm[1]==c[i])hit=1} if(hit){x=nm[1];sub(/\.test$/,"",x);sub(/_test$/,"",x);print x}}' | sort -u)
echo "dependent packages: $(echo $DEPS | wc -w)"
go test -vet=off -count=1 -timeout 90m $DEPS 2>&1 | grep -v "^ok\|no test files" > $OUT/suite.log
echo "suite non-ok lines: $(wc -l < $OUT/suite.log)"; head -20 $OUT/suite.log
for f in $DEMOS; do mv $OUT/$f $f; done
echo "DEMOS: $DEMOS"
if [ $# -gt 0 ]; then
  echo "--- demo WITH change: go test $*"
  go test -count=1 "$@" > $OUT/demo_with.log 2>&1; echo "demo-with exit=$?"; tail -5 $OUT/demo_with.log
  git apply -R $SW/patch.diff
  echo "--- demo WITHOUT change"
  go test -count=1 "$@" > $OUT/demo_without.log 2>&1; echo "demo-without exit=$?"; tail -3 $OUT/demo_without.log
  git apply $SW/patch.diff
fi
